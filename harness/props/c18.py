"""C18 — quoted literals and identifiers cannot break out of their quotes.

Proof: coq/theories/C18 (Gallina model of the Python quoting functions, of the Rust EdgeQL lexer
       restricted to the token classes they produce, and a hand-written PostgreSQL lexical spec;
       theorems `lexer (quote s ++ k) = (token with value s, k)` for every string of the stated
       domain; `..._refuted` witnesses where the full statement is false of the faithful model).
Tie:   (a) translator harness/translate/c18_quote.py regenerates Gen_Quote.v (escape tables,
           character classes, constants, keyword lists; function shapes compared fail-closed);
       (b) correspondence: the real Python functions (run under the vrt stubs) and the REAL Rust
           lexer (qllex binary built from the repo's tokenizer sources) against the
           OCaml-extracted model on the same generated strings;
       (c) the Unicode-class parameters of the model are instantiated by a sweep of all 0x110000
           code points through the real `re`/str methods/repr and the real lexer.
Monitors: real lexer applied to the real Python output: one token, same value, rest untouched.
"""
from __future__ import annotations

import hashlib
import itertools
import json
import os
import shutil
import subprocess
import sys
import time

import lib

sys.path.insert(0, os.path.join(lib.VERIF, 'harness', 'translate'))
import c18_quote  # noqa: E402

PROP = 'C18'
IMPL = os.path.join(lib.VERIF, 'harness', 'impl', 'c18_impl.py')
GEN_DIR = os.path.join(lib.COQ, 'theories', 'C18')
THEOREMS = []   # filled below


# ------------------------------------------------------------------------------ real lexer binary

def lexer_binary():
    """qllex for lib.REPO.  rust/lexer includes the tokenizer sources of /repo by absolute
    #[path]; for another tree (VERIF_REPO) a copy of the harness crate with the paths rewritten
    is built under cache/ (same vendored crates, same shim)."""
    sys.path.insert(0, os.path.join(lib.VERIF, 'harness', 'rt'))
    import qllex
    if os.path.realpath(lib.REPO) == '/repo':
        return qllex.binary_path()
    key = hashlib.sha256(os.path.realpath(lib.REPO).encode()).hexdigest()[:12]
    root = os.path.join(lib.CACHE, f'c18_rust_{key}')
    src_l = os.path.join(lib.VERIF, 'rust', 'lexer')
    dst_l = os.path.join(root, 'lexer')
    with lib.Lock('c18_rust_' + key):
        os.makedirs(os.path.join(dst_l, 'src'), exist_ok=True)
        os.makedirs(os.path.join(dst_l, '.cargo'), exist_ok=True)
        for rel in ('src/main.rs', 'src/lib.rs', 'Cargo.toml', 'Cargo.lock', '.cargo/config.toml'):
            txt = open(os.path.join(src_l, rel)).read()
            txt = txt.replace('"/repo/', '"' + os.path.realpath(lib.REPO) + '/')
            txt = txt.replace('path = "../bigdecimal-shim"',
                              f'path = "{os.path.join(lib.VERIF, "rust", "bigdecimal-shim")}"')
            txt = txt.replace('directory = "../vendor"', f'directory = "{os.path.join(lib.VERIF, "rust", "vendor")}"')
            old = None
            if os.path.exists(os.path.join(dst_l, rel)):
                old = open(os.path.join(dst_l, rel)).read()
            if old != txt:
                open(os.path.join(dst_l, rel), 'w').write(txt)
        env = dict(os.environ)
        env['CARGO_NET_OFFLINE'] = 'true'
        env['CARGO_TARGET_DIR'] = os.path.join(root, 'target')
        env.setdefault('RUSTFLAGS', '-Awarnings')
        p = subprocess.run(['cargo', 'build', '--release', '--offline'], cwd=dst_l, env=env,
                           stdout=subprocess.PIPE, stderr=subprocess.STDOUT, text=True, timeout=1200)
        if p.returncode != 0:
            raise RuntimeError('building the lexer of ' + lib.REPO + ' failed:\n' + p.stdout[-3000:])
    return os.path.join(root, 'target', 'release', 'qllex')


def impl_env(binary):
    env = lib.impl_env()
    env['VRT_QLLEX'] = binary
    return env


def run_impl(lines, binary):
    return lib.parallel_lines([lib.PY, IMPL, lib.REPO], lines, env=impl_env(binary))


def run_model(exe, tbl, lines, nproc=8):
    return lib.parallel_lines([exe, tbl], lines, nproc=nproc)


def sweep(binary, force=False):
    import unicodedata
    import re
    ver = re.search(r'(?m)^SWEEP_VERSION = (\d+)', open(IMPL).read()).group(1)
    key = hashlib.sha256(open(binary, 'rb').read() + sys.version.encode()
                         + unicodedata.unidata_version.encode() + ver.encode()).hexdigest()[:16]
    base = os.path.join(lib.CACHE, f'c18_sweep_{key}')
    cached = os.path.exists(base + '.tbl') and os.path.exists(base + '.json')
    if force or not cached:
        with lib.Lock('c18_sweep'):
            if force or not (os.path.exists(base + '.tbl') and os.path.exists(base + '.json')):
                p = subprocess.run([lib.PY, IMPL, lib.REPO, 'sweep', base + '.tmp'], env=impl_env(binary),
                                   stdout=subprocess.PIPE, stderr=subprocess.PIPE, text=True, timeout=3600)
                if p.returncode != 0:
                    raise RuntimeError('sweep failed: ' + p.stderr[-3000:])
                os.replace(base + '.tmp.json', base + '.json')
                os.replace(base + '.tmp.tbl', base + '.tbl')
    return base + '.tbl', json.load(open(base + '.json')), (cached and not force)


# ------------------------------------------------------------------------------ cases
# case = (fn, arg: str|bytes, k: str, flags: int)

def enc(case):
    fn, arg, k, fl = case
    a = arg if isinstance(arg, bytes) else arg.encode('utf-8')
    return f'{fn}\t{a.hex()}\t{k.encode("utf-8").hex()}\t{fl}'


def dec(line):
    fn, a, k, fl = line.split('\t')
    raw = bytes.fromhex(a)
    return (fn, raw if fn in 'Bb' else raw.decode('utf-8'), bytes.fromhex(k).decode('utf-8'), int(fl))


STR_ALPHA = ["'", '"', '\\', '$', 'a', '\n', '\x85', '‮', 'é', ' ', '\t', '\x01', '(', 'r']
ID_ALPHA = ['a', 'A', '0', '_', '`', '$', '@', ':', ' ', 'é', '²', 'K', '٣', '\n']
PGID_ALPHA = ['a', 'A', '0', '_', '"', '$', ' ', 'é', '²', 'İ', '.', "'", 'ǅ', '٣', '\n', '\t']
BYTE_ALPHA = [0x5c, 0x27, 0x22, 0x0a, 0x09, 0x00, 0x7e, 0x7f, 0x80, 0xff, 0x61, 0x78, 0x30, 0x20]
K_QUOTED = ['', ' ', ';', '$', "'", '"', 'a', '$$', ' by', '`', '\\', "''", '$a$', 'a$']
K_PGLIT = ['', ' ', ';', '$', '"', 'a', '::text', ')']
K_PGID = ['', ' ', ';', "'", 'a', '.x', ')', '(']
K_BARE = ['', ' ', ';', ',', ')', '.x', ' x', '\n', '(', '[0]', ':= 1', '+1']
QL_WORDS = ['select', 'Select', 'union', 'abstract', '__type__', '__std__', '__source__', 'named', 'order',
            'set', 'if', 'on', 'global', 'except', 'İf', 'selecT', 'true', 'x', 'abc', 'a1', '_', '__', '___',
            '__a__', '1', '0', '01', '12', '1a', '1٣', '18446744073709551615', '18446744073709551616',
            'commit', 'configure_', 'aͅ', 'ǅ', 'ß', 'b', 'r', 'br', 'rb']
PG_WORDS = ['select', 'Select', 'between', 'abort', 'authorization', 'all', 'bigint', 'x', 'abc', 'a1', '_',
            'user', 'table', 'e', 'b', 'x', 'n', 'u', 'E', 'İ', 'ǆ', 'ß', 'a' * 63, 'a' * 64, 'é' * 31 + 'a',
            'é' * 32, 'value', 'id', 'ABC', 'a$', '$a', '1a']

BUCKETS = [
    list(range(0x20, 0x7f)),                                   # ASCII printable
    [0x27, 0x22, 0x5c, 0x24, 0x60, 0x28, 0x29, 0x3a, 0x40],    # quoting punctuation
    list(range(1, 0x20)) + [0x7f],                             # C0 controls
    list(range(0x80, 0xa1)) + [0xad],                          # C1, NBSP, soft hyphen
    list(range(0x202a, 0x202f)) + list(range(0x2066, 0x206a)) + [0x200e, 0x200f, 0x061c],   # bidi
    list(range(0x300, 0x310)) + [0x345, 0x200d, 0xfe0f],       # combining
    [0x1f600, 0x10000, 0x10ffff, 0xe0001, 0x1d7ce, 0x2f800],   # non-BMP
    [0xb2, 0xb3, 0xb9, 0xbc, 0x660, 0x663, 0x2160, 0x3007, 0x2460, 0x9f4],       # No / Nl / Nd numerics
    [0x130, 0x131, 0x212a, 0x3a3, 0x3c2, 0x1c5, 0xdf, 0x1e9e, 0x149, 0xfb01],   # case-mapping oddities
    [0xe9, 0x4e2d, 0x3b1, 0x5d0, 0x627, 0x2028, 0x2029, 0xfeff, 0xa0, 0x3000, 0x85],  # letters, separators
]


def rand_str(rnd, maxlen, weights=None):
    n = rnd.randint(0, maxlen)
    bs = rnd.choices(range(len(BUCKETS)), weights=weights or [6, 4, 2, 1, 1, 1, 1, 1, 1, 2], k=3)
    return ''.join(chr(rnd.choice(BUCKETS[rnd.choice(bs)])) for _ in range(n))


def product_strs(alpha, maxlen):
    for n in range(maxlen + 1):
        for t in itertools.product(alpha, repeat=n):
            yield ''.join(t)


def gen_lexer_stream(rnd, n):
    """texts for the lexer-model correspondence: mostly well-formed tokens of every modelled class
    (all string spellings with every escape kind, bytes, back-quoted names, names/keywords,
    parameters, integers) followed by a continuation, plus a malformed stream (unterminated, bad
    escapes, bad prefixes, prohibited characters, random splices)"""
    plain = ['a', 'b', 'Z', '1', '_', ' ', 'é', '²', '٣', ';', '$', '`', '::', '@', '__', '\t', '(', ')', '.',
             'x', 'u', '\U0001F600', '\xa0', '\x85', '中']
    esc_ok = ['\\x41', '\\x7f', '\\x01', '\\u0041', '\\u202e', '\\u00e9', '\\U0001F600', '\\U0010ffff',
              '\\n', '\\t', '\\r', '\\b', '\\f', "\\'", '\\"', '\\\\', '\\/', '\\\n  ', '\\\n\t x', '\\\r\n',
              '\\\n\xa0\xa0ab', '\\\n\u2003abcd']
    esc_bad = ['\\x85', '\\x00', '\\x+4', '\\x4', '\\xg1', '\\u00e', '\\ud800', '\\u0000', '\\U00110000',
               '\\U0000000', '\\q', '\\(', '\\é', '\\ ', '‮', '\x00', '\u2066']
    besc_ok = ['\\x00', '\\xff', '\\x41', '\\n', '\\t', "\\'", '\\"', '\\\\', '\\\n  \t', '\\\n\x0bq']
    words = ['select', 'Select', 'ORDER', 'order', 'named', 'set', 'abstract', 'union', '__type__', '__x__', '__',
             'abc', 'a1', '_x', 'é1', 'x²', 'if', 'b', 'r', 'br', 'rb', 'x']
    out = []
    for _ in range(n):
        cls = rnd.choice(['str', 'str', 'raw', 'bin', 'rawbin', 'dollar', 'tag', 'bt', 'word', 'param', 'parambt',
                          'int', 'junk'])
        bad = rnd.random() < 0.25
        body = ''
        for _ in range(rnd.randint(0, 5)):
            r = rnd.random()
            if cls in ('str',):
                body += rnd.choice(esc_ok) if r < 0.45 else rnd.choice(plain) if r < 0.9 or not bad else rnd.choice(esc_bad)
            elif cls == 'bin':
                body += rnd.choice(besc_ok) if r < 0.45 else rnd.choice('ab1 ;$`x.') if r < 0.9 or not bad else rnd.choice(esc_bad + ['é'])
            else:
                body += rnd.choice(plain) if r < 0.9 or not bad else rnd.choice(esc_ok + esc_bad)
        q = rnd.choice('\'"')
        if cls == 'str':
            body = body.replace(q, '')
            s = q + body + ('' if bad and rnd.random() < 0.3 else q)
        elif cls == 'raw':
            body = body.replace(q, '')
            s = rnd.choice(['r', 'r', 'R', 'rr', 'x']) if bad and rnd.random() < 0.4 else 'r'
            s += q + body + ('' if bad and rnd.random() < 0.3 else q)
        elif cls in ('bin', 'rawbin'):
            body = body.replace(q, '')
            if not bad:
                body = ''.join(ch for ch in body if ord(ch) < 128)
            pre = 'b' if cls == 'bin' else rnd.choice(['br', 'rb'])
            if bad and rnd.random() < 0.3:
                pre = rnd.choice(['B', 'bb', 'rbr', 'Br'])
            s = pre + q + body + ('' if bad and rnd.random() < 0.3 else q)
        elif cls == 'dollar':
            body = body.replace('$$', '$')
            s = '$$' + body + ('' if bad and rnd.random() < 0.3 else rnd.choice(['$$', '$$', '$$$']))
        elif cls == 'tag':
            tag = rnd.choice(['$a$', '$ab1$', '$_$', '$a_b$', '$A1$']) if not bad else \
                rnd.choice(['$1a$', '$é$', '$a b$', '$a$', '$'])
            s = tag + body.replace(tag, '') + ('' if bad and rnd.random() < 0.3 else tag)
        elif cls == 'bt':
            body = body.replace('`', '``') or 'a'
            if not bad:
                body = body.replace('::', ':').lstrip('@$') or 'a'
            s = '`' + body + ('' if bad and rnd.random() < 0.3 else '`')
        elif cls == 'word':
            s = rnd.choice(words)
            if rnd.random() < 0.3:
                s += rnd.choice(['1', '_', 'é', 'x'])
        elif cls == 'param':
            s = '$' + rnd.choice(['a', 'abc', '1', '12', '0', '_', 'a1', 'é', 'select', '__a__'] +
                                 (['1a', '01x', '', '²', 'a$'] if bad else []))
        elif cls == 'parambt':
            body = body.replace('`', '``') or 'a'
            if not bad:
                body = body.replace('::', ':').lstrip('@') or 'a'
            s = '$`' + body + ('' if bad and rnd.random() < 0.3 else '`')
        elif cls == 'int':
            s = rnd.choice(['0', '1', '12', '1_000', '9223372036854775808', '18446744073709551615',
                            '18446744073709551616', '007', '0_', '1e5', '1.5', '1n', '12abc'])
        else:
            s = rnd.choice(["'", '"', "r'", "b'", '$$', '$a$', '`', '$`', 'a', '1', '$', '²', '?', '\\', ''])
            for _ in range(rnd.randint(0, 6)):
                s += rnd.choice(plain + esc_ok + esc_bad + ["'", '"', '\\', '$$', '$a$', '``'])
        if rnd.random() < 0.7:
            s += rnd.choice(K_QUOTED + K_BARE + [' by', ' only', ' type', "'x'"])
        if s and s[0] not in ' \t\r\n#\ufeff':
            out.append(('X', s, '', 0))
    return out


def corpus():
    p = os.path.join(lib.VERIF, 'corpus', PROP)
    out = []
    if os.path.isdir(p):
        for f in sorted(os.listdir(p)):
            if f.endswith('.json'):
                out.append(json.load(open(os.path.join(p, f)))['case'])
    return out


def gen_cases(tier):
    rnd = lib.rng('C18')
    thorough = tier == 'thorough'
    cases = [dec(c) for c in corpus()]
    ncorp = len(cases)
    n_ex = 4 if thorough else 3
    # ---- exhaustive small scope over the adversarial alphabets
    for s in product_strs(STR_ALPHA, n_ex):
        k = rnd.choice(K_QUOTED)
        cases.append(('C', s, k, 0))
        cases.append(('L', s, rnd.choice(K_QUOTED), 0))
        cases.append(('D', s, rnd.choice(K_QUOTED), 0))
        cases.append(('l', s, rnd.choice(K_PGLIT), 0))
    for s in product_strs(STR_ALPHA[:8], 2):
        cases.append(('E', s, '', 0))
    for s in product_strs(ID_ALPHA, n_ex):
        for fl in (0, 2, 4, 6, 1, 8, 14):
            if fl in (0, 6) or rnd.random() < 0.25:
                cases.append(('I', s, rnd.choice(K_BARE), fl))
        cases.append(('P', s, rnd.choice(K_BARE), 0))
        if rnd.random() < 0.3:
            cases.append(('T', s, rnd.choice(K_BARE), rnd.choice((0, 1, 2, 3))))
    for s in product_strs(PGID_ALPHA, n_ex):
        cases.append(('i', s, rnd.choice(K_PGID), rnd.choice((0, 0, 2, 1))))
    for t in itertools.chain.from_iterable(itertools.product(BYTE_ALPHA, repeat=n) for n in range(n_ex + 1)):
        cases.append(('B', bytes(t), rnd.choice(K_QUOTED), 0))
        if len(t) <= 2 or rnd.random() < 0.2:
            cases.append(('b', bytes(t), rnd.choice(K_PGLIT), 0))
    # ---- words: keywords, mixed case, leading digits
    from_kw = []
    G = TABLES.get('G') or {}
    for name in ('g_kw_unreserved', 'g_kw_partial', 'g_kw_future', 'g_kw_current'):
        from_kw += [''.join(map(chr, w)) for w in G.get(name, [])]
    pgkw = [''.join(map(chr, w)) for w, _ in G.get('g_pg_keywords', [])]
    for w in QL_WORDS + from_kw:
        for v in sorted({w, w.upper(), w.capitalize(), w + '_', w[:-1] + w[-1:].upper()}):
            for fl in (0, 2, 4, 6, 8, 10):
                cases.append(('I', v, rnd.choice(K_BARE), fl))
            cases.append(('P', v, rnd.choice(K_BARE), 0))
            cases.append(('T', 'std::' + v, rnd.choice(K_BARE), rnd.choice((0, 2))))
            cases.append(('X', v + rnd.choice(K_BARE + [" by", " only", "'x'", '`'])  , '', 0))
    for w in PG_WORDS + pgkw:
        for v in sorted({w, w.upper(), w.capitalize(), w + '_'}):
            for fl in (0, 2):
                cases.append(('i', v, rnd.choice(K_PGID), fl))
    # ---- every code point once (thorough) / a spread (quick) through the string and name forms
    step = 1 if thorough else 37
    # all of Latin-1 always (whitespace / control characters in names: seed C18/5), then the spread
    for c in itertools.chain(range(1, 0x100), range(0x100, 0x110000, step)):
        if 0xD800 <= c < 0xE000:
            continue
        ch = chr(c)
        cases.append(('C', ch, '', 0))
        cases.append(('I', ch + 'x', ' ', 0))
        if c % (5 if thorough else 3) == 0:
            cases.append(('I', 'x' + ch, ' ', 0))
            cases.append(('L', ch, '', 0))
            cases.append(('P', 'x' + ch, ' ', 0))
            cases.append(('i', 'x' + ch, ' ', 0))
            cases.append(('C', "\x01'" + ch, '', 0))
    # ---- strings that look like the escapes Python's repr() writes (added after seed C18/4: the
    # printer post-processes repr() output, so literal backslash sequences in the VALUE must not be
    # mistaken for repr's own escapes): token soup of backslashes, x/u escapes bodies, controls
    REPR_TOK = ['\\', '\\x', '\\u', '\\n', 'x', '8a', 'ff', '9', 'e', '0', 'u00', '85', 'n', "'", '"',
                '\n', '\x85', '\x01', '\x7f', '\u202e', 'a', '\\\\', '\\\'']
    for _ in range(40000 if thorough else 4000):
        s = ''.join(rnd.choice(REPR_TOK) for _ in range(rnd.randint(2, 7)))
        cases.append(('C', s, rnd.choice(K_QUOTED), 0))
    # ---- random long strings by category buckets
    nr = 120000 if thorough else 6000
    for _ in range(nr):
        s = rand_str(rnd, 40)
        r = rnd.random()
        fn = 'C' if r < 0.4 else 'L' if r < 0.55 else 'D' if r < 0.7 else 'l'
        if fn in 'CD' and rnd.random() < 0.5:
            # force the dollar branches: both quotes, sometimes $$ and the first tags
            s += rnd.choice(["'\"", "'\"$$", "\"'$$ $a$", "'\"$$$a$$b$$c$$d$$e$$f$$a1$", "'\"$", "'\"$$$a", "'\"$$$"])
            if rnd.random() < 0.5:
                s = s[::-1]
        cases.append((fn, s, rnd.choice(K_PGLIT if fn == 'l' else K_QUOTED), 0))
    for _ in range(nr // 2):
        w = [8, 1, 0, 0, 1, 1, 1, 2, 2, 3]
        s = rand_str(rnd, 12, w)
        if rnd.random() < 0.7:
            s = ''.join(ch for ch in s if ch.isalnum() or ch == '_') or 'a'
        r = rnd.random()
        if r < 0.4:
            cases.append(('I', s, rnd.choice(K_BARE), rnd.randrange(16)))
        elif r < 0.55:
            cases.append(('P', s, rnd.choice(K_BARE), 0))
        elif r < 0.65:
            cases.append(('T', '::'.join(rand_str(rnd, 5, w) or 'a' for _ in range(rnd.randint(1, 3))),
                          rnd.choice(K_BARE), rnd.choice((0, 1, 2, 3))))
        elif r < 0.9:
            cases.append(('i', s, rnd.choice(K_PGID), rnd.randrange(4)))
        else:
            parts = [rand_str(rnd, 6, w) or 'a' for _ in range(rnd.randint(1, 3))]
            parts = [p.replace('\x1f', '') or 'a' for p in parts]
            cases.append((rnd.choice('qqt'), '\x1f'.join(parts), rnd.choice(['', ' ', ';', ')']), rnd.choice((0, 2))))
    for _ in range(nr // 4):
        n = rnd.randint(0, 24)
        bs = bytes(rnd.choice(BYTE_ALPHA) if rnd.random() < 0.5 else rnd.randrange(256) for _ in range(n))
        cases.append((rnd.choice('Bb'), bs, rnd.choice(K_QUOTED[:8]), 0))
    # ---- lexer stream (mostly well-formed tokens + malformed)
    cases += gen_lexer_stream(rnd, 60000 if thorough else 6000)
    return cases, ncorp


TABLES = {}

THEOREMS = [
    'C18_ql_quote_literal', 'C18_ql_dollar_quote_literal', 'C18_dq_fuel_enough', 'C18_ql_visit_constant', 'C18_ql_visit_bytes',
    'C18_ql_quote_ident_partial', 'C18_ql_quote_ident_quoted', 'C18_ql_param_to_str_partial',
    'C18_ascii_compat', 'C18_ql_quote_ident_refuted', 'C18_ql_param_to_str_refuted',
    'C18_ql_quote_ident_num_refuted', 'C18_pg_quote_literal', 'C18_pg_quote_ident', 'C18_pg_quote_bytea',
]
KNOWN_IDENT = 'C18-ident-unicode-class'


# ------------------------------------------------------------------------------ sweep tables

class Tables:
    """the Unicode class tables of the sweep (what the OCaml model is instantiated with)"""

    def __init__(self, path):
        self.sets = {}
        for line in open(path):
            p = line.split()
            if p and p[0] == 'set':
                self.sets[p[1]] = [tuple(map(int, r.split('-'))) for r in p[2:]]

    def has(self, name, c):
        import bisect
        rs = self.sets[name]
        i = bisect.bisect_right(rs, (c, 0x7fffffff)) - 1
        return i >= 0 and rs[i][0] <= c <= rs[i][1]

    def rs_alpha(self, c):
        return chr(c).isalpha() if c < 128 else self.has('rs_alpha', c)


def ident_class_finding(tb, fn, arg, fl, out):
    """the predicate of known finding C18-ident-unicode-class (over the input only):
    a name left bare that
      (a) starts with a code point that is \\w and not \\d for Python but not alphabetic for Rust, or
      (b) param_to_str only: contains a non-ASCII code point that is \\w but not Rust-alphabetic, or
      (c) allow_num: ASCII digit 1-9 followed by decimal digits at least one of which is not ASCII"""
    def one(name, param, allow_num):
        if not name:
            return False
        c0 = ord(name[0])
        if c0 >= 128 and name[0].isalnum() and not name[0].isdecimal() and not tb.rs_alpha(c0):
            return True
        if param and any(ord(ch) >= 128 and ch.isalnum() and not tb.rs_alpha(ord(ch)) for ch in name):
            return True
        if allow_num and '1' <= name[0] <= '9' and all(ch.isdecimal() for ch in name[1:]) \
                and any(ord(ch) >= 128 for ch in name[1:]):
            return True
        return False
    if fn == 'I':
        return out == arg and one(arg, False, bool(fl & 4))
    if fn == 'P':
        return out == '$' + arg and one(arg, True, True)
    if fn == 'T':
        return any(one(p, False, bool(fl & 1)) for p in arg.split('::'))
    return False


# ------------------------------------------------------------------------------ non-triviality

ADV = {
    'L': set("'\\\b\f\n\r\t") | {chr(c) for c in list(range(0x202a, 0x202f)) + list(range(0x2066, 0x206a))},
    'D': set('$'),
    'C': set("'\"\\$\n\r\t") | {chr(c) for c in list(range(0, 32)) + list(range(127, 161))
                                + list(range(0x202a, 0x202f)) + list(range(0x2066, 0x206a))},
    'E': set("'\\\b\f\n\r\t"),
    'l': set("'\\"),
}


def nontrivial(case):
    fn, arg, k, fl = case
    if fn in ADV:
        return any(ch in ADV[fn] for ch in arg)
    if fn == 'B':
        return any(b in (0x5c, 0x27, 0x22) or b < 32 or b >= 0x7e for b in arg)
    if fn == 'b':
        return len(arg) > 0
    if fn in 'IPTiqt':
        # a character that is not an ASCII letter (digits, punctuation, quotes, non-ASCII), a keyword
        # or a mixed-case name
        kws = TABLES.get('kwset') or set()
        return any(not ('a' <= ch <= 'z' or 'A' <= ch <= 'Z') for ch in arg) or arg.lower() in kws \
            or arg.lower() != arg
    if fn == 'X':
        return any(ch in "'\"\\$`" for ch in arg)
    return False


def form_of(fn, out_hex):
    """which spelling the real code chose (distribution table)"""
    if out_hex.startswith('X:') or out_hex == '-':
        return 'exception' if out_hex != '-' else 'none'
    o = bytes.fromhex(out_hex).decode('utf-8')
    if fn in 'LDC':
        if o.startswith("r'") or o.startswith('r"'):
            return 'raw'
        if o.startswith('$$'):
            return '$$'
        if o.startswith('$'):
            return '$tag$'
        if '\\' in o and fn == 'C':
            return 'repr-escaped'
        return 'quoted' + o[:1]
    if fn in 'IPi':
        return 'quoted' if (o.startswith('`') or o.startswith('$`') or o.startswith('"')) else 'bare'
    return '-'


# ------------------------------------------------------------------------------ PG monitor (model lexer)

def pg_boundary_ok(k):
    """Proofs.pg_boundary: k is empty or starts with a character that cannot continue an identifier"""
    if not k:
        return True
    d = k[0]
    return not (d.isascii() and (d.isalnum() or d in '_$\'"&') or ord(d) >= 128)


def pg_expect(case, out_hex):
    """what the PostgreSQL lexical spec must read from the real output (None: outside the domain)"""
    fn, arg, k, fl = case
    if fn == 'l':
        if '\x00' in arg or k.startswith("'"):
            return None
        return [f'ok:S:{arg.encode().hex()}:{len(k)}']
    if fn == 'i':
        if not arg or '\x00' in arg or len(arg.encode()) > 63:
            return None
        if not pg_boundary_ok(k):
            return None
        h = arg.encode().hex()
        cls = ['K1'] if (fl & 2) else ['K1', 'K4']
        return [f'ok:I:{h}:{len(k)}'] + [f'ok:{c}:{h}:{len(k)}' for c in cls]
    if fn == 'b':
        return [f'ok:Y:{arg.hex()}:{("::bytea" + k).encode().hex()}']
    if fn == 'q':
        parts = arg.split('\x1f')
        if len(parts) > 3 or any((not p) or '\x00' in p or len(p.encode()) > 63 for p in parts):
            return None
        if not pg_boundary_ok(k) or k.startswith('.'):
            return None
        return 'qname'
    return None


def pg_ok(case, third):
    exp = pg_expect(case, None)
    if exp is None:
        return True
    if exp == 'qname':
        fn, arg, k, fl = case
        if not third.startswith('ok:Q:'):
            return False
        body, rest = third[5:].rsplit(':', 1)
        toks = body.split('/')
        parts = arg.split('\x1f')
        if len(toks) != len(parts) or int(rest) != len(k):
            return False
        for t, p in zip(toks, parts):
            kind, v = t.split(':')
            if v != p.encode().hex():
                return False
            if kind not in ('I', 'K1') and not (kind == 'K4' and not (fl & 2)):
                return False
        return True
    return third in exp


# ------------------------------------------------------------------------------ Coq cross-check

def coq_list(cps):
    return '[' + '; '.join(str(c) for c in cps) + ']'


def coq_expr(case):
    fn, arg, k, fl = case
    a = coq_list(list(arg) if isinstance(arg, bytes) else [ord(c) for c in arg])
    kk = coq_list([ord(c) for c in k])
    b = lambda x: 'true' if x else 'false'
    if fn == 'L':
        return f'let o := ql_quote_literal {a} in (Some o, ql_lex1 U0 (o ++ {kk}))'
    if fn == 'D':
        return f'match ql_dollar_quote_literal {a} with Some o => (Some o, ql_lex1 U0 (o ++ {kk})) | None => (None, LexErr) end'
    if fn == 'C':
        return f'match ql_visit_constant U0 {a} with Some o => (Some o, ql_lex1 U0 (o ++ {kk})) | None => (None, LexErr) end'
    if fn == 'B':
        return f'let o := ql_visit_bytes {a} in (Some o, ql_lex1 U0 (o ++ {kk}))'
    if fn == 'I':
        return (f'let o := ql_quote_ident U0 {b(fl & 1)} {b(fl & 2)} {b(fl & 4)} {b(not (fl & 8))} {a} in '
                f'(Some o, ql_lex1 U0 (o ++ {kk}))')
    if fn == 'P':
        return f'let o := ql_param_to_str U0 {a} in (Some o, ql_lex1 U0 (o ++ {kk}))'
    if fn == 'X':
        return f'(@None (list N), ql_lex1 U0 {a})'
    return None


def parse_coq_lists(s):
    import re
    return [[int(x) for x in m.split(';') if x.strip()] for m in re.findall(r'\[([^\]]*)\]', s)]


def coq_to_canon(s):
    """'(Some [..], LexOk (TStr [..]) [..])' -> (out hex | NONE | -, lex canon)"""
    import re
    s = s.replace('%N', '')
    m = re.match(r'\((Some \[[^\]]*\]|None), (.*)\)$', s.strip())
    if not m:
        return None
    o, l = m.group(1), m.group(2).strip()
    if o == 'None':
        out = None
    else:
        out = ''.join(chr(c) for c in parse_coq_lists(o)[0]).encode('utf-8').hex()
    if l == 'LexErr':
        lex = 'err'
    elif l == 'LexUnmodelled':
        lex = 'unm'
    else:
        m2 = re.match(r'LexOk \((T\w+) (\[[^\]]*\]|\d+)\) (\[[^\]]*\])$', l)
        if not m2:
            return None
        kind = {'TStr': 'S', 'TBin': 'B', 'TIdent': 'I', 'TKeyword': 'K', 'TParam': 'P', 'TInt': 'N'}[m2.group(1)]
        rest = len(parse_coq_lists(m2.group(3))[0])
        if kind == 'N':
            v = m2.group(2).encode().hex()
        elif kind == 'B':
            v = bytes(parse_coq_lists(m2.group(2))[0]).hex()
        else:
            v = ''.join(chr(c) for c in parse_coq_lists(m2.group(2))[0]).encode('utf-8').hex()
        lex = f'ok:{kind}:{v}:{rest}'
    return out, lex


# ------------------------------------------------------------------------------ shrinking

def shrink(case, still_fails, rounds=8):
    """greedy: delete one character / replace one by 'a' (bytes: 0x61), batched per round"""
    fn, arg, k, fl = case
    for _ in range(rounds):
        cands = []
        n = len(arg)
        for i in range(n):
            cands.append((fn, arg[:i] + arg[i + 1:], k, fl))
        if k:
            cands.append((fn, arg, '', fl))
        for i in range(n):
            a = b'a' if isinstance(arg, bytes) else 'a'
            if arg[i:i + 1] != a:
                cands.append((fn, arg[:i] + a + arg[i + 1:], k, fl))
        cands = [c for c in cands if c != (fn, arg, k, fl)][:400]
        if not cands:
            break
        res = still_fails(cands)
        pick = None
        for c, r in zip(cands, res):
            if r and (len(c[1]) < len(arg) or (pick is None)):
                pick = c
                if len(c[1]) < len(arg):
                    break
        if pick is None or (pick[1] == arg and pick[2] == k):
            break
        if len(pick[1]) == len(arg) and pick[2] == k and sum(1 for x in pick[1] if x in ('a', 0x61)) <= \
                sum(1 for x in arg if x in ('a', 0x61)):
            break
        fn, arg, k, fl = pick
    return (fn, arg, k, fl)


def show(case):
    fn, arg, k, fl = case
    return {'fn': fn, 'arg': arg.hex() if isinstance(arg, bytes) else arg, 'arg_repr': ascii(arg), 'k': k,
            'flags': fl, 'case': enc(case)}


FN_NAMES = {'E': 'edgeql.quote.escape_string', 'L': 'edgeql.quote.quote_literal',
            'D': 'edgeql.quote.dollar_quote_literal', 'C': 'edgeql.codegen visit_Constant(STRING)',
            'B': 'edgeql.codegen visit_BytesConstant', 'I': 'edgeql.quote.quote_ident',
            'P': 'edgeql.codegen param_to_str / visit_Parameter', 'T': 'edgeql.codegen.ident_to_str',
            'l': 'pgsql.common.quote_literal / dbops.encode_value / pgsql codegen StringConstant',
            'i': 'pgsql.common.quote_ident', 'b': 'pgsql.common.quote_bytea_literal / pgsql codegen ByteaConstant',
            'q': 'pgsql.common.qname', 't': 'pgsql.common.quote_type', 'X': 'EdgeQL lexer (tokenizer.rs)',
            'Y': 'PostgreSQL lexical spec'}


# ------------------------------------------------------------------------------ the check

def run(tier):
    rep = lib.Report(PROP, tier, 'proof')
    thorough = tier == 'thorough'
    t_start = time.time()
    stage = {}

    def mark(name):
        stage[name] = round(time.time() - t_start, 1)

    # ---- 1. translator (fail-closed)
    tr_err = None
    G = None
    try:
        G = c18_quote.run(lib.REPO, GEN_DIR)
    except Exception as e:      # TranslateError or a syntax error in the source
        tr_err = f'{type(e).__name__}: {e}'
    if G is None:
        try:    # tables of the pinned tree: keep the model consistent while searching for a failing input
            G = c18_quote.run('/repo', GEN_DIR) if os.path.realpath(lib.REPO) != '/repo' \
                else c18_quote.translate('/repo')[0]
        except Exception:
            G = {}
    TABLES['G'] = G
    TABLES['kwset'] = {''.join(map(chr, w)) for n in ('g_kw_unreserved', 'g_kw_partial', 'g_kw_future',
                                                      'g_kw_current') for w in G.get(n, [])} | \
        {''.join(map(chr, w)) for w, _ in G.get('g_pg_keywords', [])}

    # ---- 2. proofs, model
    pf = lib.proof_stage(rep, 'C18', THEOREMS, extra_targets=['theories/C18/Refuted.vo'], thorough=thorough)
    exe, blog = lib.build_model('c18', 'ExtractC18.v', 'c18_main.ml', 'C18_ext')

    mark('translator+proofs+model_build')
    # ---- 3. real lexer + code point sweep (instantiates the Unicode tables of the model)
    harness_fail = None
    try:
        binary = lexer_binary()
        tbl, sw, sweep_cached = sweep(binary, force=thorough)
        tb = Tables(tbl)
    except Exception as e:   # noqa
        harness_fail = f'{type(e).__name__}: {e}'
    if harness_fail:
        rep.violation('the real lexer / the code point sweep could not be run: ' + harness_fail[-1500:],
                      {'broken': 'lexer build or sweep', 'error': harness_fail[-3000:]}, False)
        rep.coverage.update({'evaluations': 0, 'distinct_nontrivial': 0, 'rule': 'n/a', 'samples': [],
                             'trusted_base': []})
        return rep.finish()

    mark('lexer+sweep')
    # ---- 4. cases; real code (+ real lexer, monitors) vs extracted model
    cases, ncorp = gen_cases(tier)
    lines = [enc(c) for c in cases]
    impl = run_impl(lines, binary)
    model = run_model(exe, tbl, lines) if exe else None

    mark('cases+impl+model')

    def impl_of(cs):
        return run_impl([enc(c) for c in cs], binary)

    known_ids = {e['id'] for e in lib.known_findings(PROP)}
    mon = []          # (index, flag)
    for i, r in enumerate(impl):
        fl = r.split('\t')[2]
        if fl != '-':
            mon += [(i, f) for f in fl.split(',')]
    out_mism, lex_mism, pg_fail, n_lex_cmp, n_unm, n_none = [], [], [], 0, 0, 0
    pg_seen = {}
    if model is not None:
        for i, (c, a, b) in enumerate(zip(cases, impl, model)):
            io, il, _ = a.split('\t')
            mo, ml, mp = b.split('\t')
            fn = c[0]
            if mo == 'NONE':
                n_none += 1
            if fn not in 'TtXY' and io != mo:
                out_mism.append(i)
                continue
            if fn in 'LDCBIPX':
                if ml == 'unm':
                    n_unm += 1
                else:
                    n_lex_cmp += 1
                    if il != ml:
                        lex_mism.append(i)
        # PostgreSQL side: the lexical spec (extracted pg_lex1 / pg_bytea_in / pg_lex_qname) is applied to
        # the REAL output of every SQL quoting function, independently of the model of that function
        pgi = [(i, c) for i, c in enumerate(cases) if c[0] in 'libqt' and impl[i].split('\t')[0] not in ('-',)
               and not impl[i].startswith('X:')]
        mode = {'l': 0, 'i': 0, 'b': 1, 'q': 2, 't': 2}
        pg_lines = [enc(('y', bytes.fromhex(impl[i].split('\t')[0]).decode(), c[2], mode[c[0]])) for i, c in pgi]
        pg_res = run_model(exe, tbl, pg_lines) if pg_lines else []
        for (i, c), r in zip(pgi, pg_res):
            third = r.split('\t')[2]
            pg_seen[i] = third
            if c[0] == 't':
                # quote_type is not modelled: plain dotted names must read back as a dotted name
                parts = c[1].split('\x1f')
                plain = all(p and p.isascii() and p.replace('_', 'a').isalnum() and not p[0].isdigit()
                            and len(p) < 64 for p in parts)
                if plain and pg_boundary_ok(c[2]) and not c[2].startswith('.') and not third.startswith('ok:Q:'):
                    pg_fail.append(i)
            elif not pg_ok(c, third):
                pg_fail.append(i)

    # ---- 5. a sample evaluated inside Coq (guards the extraction step); ASCII-only cases so that
    #         the Unicode tables are not consulted
    coq_diff, n_coq = [], 0
    if model is not None and pf['ok']:
        rnd = lib.rng('C18coq')
        pool = [i for i, c in enumerate(cases) if c[0] in 'LDCBIPX' and len(c[1]) <= 24
                and (isinstance(c[1], bytes) or c[1].isascii()) and c[2].isascii()]
        idx = sorted(rnd.sample(pool, min(len(pool), 400 if thorough else 120)))
        try:
            outs = lib.coq_eval('C18', 'From Coq Require Import List NArith. Import ListNotations.\n'
                                       'From Verif.C18 Require Import Gen_Quote Model Proofs Props.\n'
                                       'Open Scope N_scope.',
                                [coq_expr(cases[i]) for i in idx], timeout=1200)
            n_coq = len(outs)
            for i, o in zip(idx, outs):
                got = coq_to_canon(o)
                mo, ml, _ = model[i].split('\t')
                want = (None if mo in ('NONE', '-') else mo, ml)
                if got is None or got != want:
                    coq_diff.append((i, o[:300]))
        except Exception as e:   # noqa
            coq_diff.append((-1, str(e)[-800:]))

    mark('coq_eval')
    # ---- 6. verdict
    real_viol = 0
    by_flag = {}
    for i, f in mon:
        by_flag.setdefault((cases[i][0], f), []).append(i)
    known_hits = 0
    for (fn, f), idxs in sorted(by_flag.items()):
        unknown = []
        for i in idxs:
            c = cases[i]
            o = impl[i].split('\t')[0]
            out = bytes.fromhex(o).decode() if not o.startswith('X:') and o != '-' else None
            if fn in 'IPT' and out is not None and ident_class_finding(tb, fn, c[1], c[3], out):
                known_hits += 1
                if KNOWN_IDENT in known_ids:
                    continue
            unknown.append(i)
        if len(unknown) < len(idxs) and KNOWN_IDENT in known_ids:
            j = min((i for i in idxs if i not in unknown), key=lambda i: len(cases[i][1]))
            rep.known_finding(KNOWN_IDENT,
                              f'{FN_NAMES[fn]}: a name left bare on the strength of Python \\w/\\d that the Rust '
                              f'lexer does not read as one token, e.g. {ascii(cases[j][1])} -> '
                              f'{ascii(bytes.fromhex(impl[j].split(chr(9))[0]).decode())} ({f})')
        if not unknown:
            continue
        real_viol += 1
        i0 = min(unknown, key=lambda i: (len(cases[i][1]), len(cases[i][2])))

        def fails(cs, f=f):
            return [f in r.split('\t')[2].split(',') for r in impl_of(cs)]
        small = shrink(cases[i0], fails) if len(cases[i0][1]) > 1 else cases[i0]
        r = impl_of([small])[0].split('\t')
        rep.violation(f'{FN_NAMES[fn]}: monitor "{f}" failed on the real code '
                      f'({len(unknown)} of {len([c for c in cases if c[0] == fn])} cases)',
                      {**show(small), 'original_case': lines[i0],
                       'real_output': (bytes.fromhex(r[0]).decode() if not r[0].startswith('X:') and r[0] != '-' else r[0]),
                       'real_lexer_on_output_plus_k': r[1], 'monitor_flags': r[2],
                       'required': 'one token of the expected kind whose value is the input, followed by exactly k',
                       'model_result': (run_model(exe, tbl, [enc(small)])[0] if exe else None),
                       'how': f'echo "<case>" | PYTHONPATH={lib.REPO}:harness /venv/bin/python harness/impl/c18_impl.py {lib.REPO}'})
    for fn in sorted({cases[i][0] for i in pg_fail}):
        idxs = [i for i in pg_fail if cases[i][0] == fn]
        i = min(idxs, key=lambda i: (len(cases[i][1]), len(cases[i][2])))
        real_viol += 1
        c = cases[i]
        rep.violation(f'{FN_NAMES[c[0]]}: the PostgreSQL lexical spec does not read the real output back as one '
                      f'literal/identifier with the original value ({len(idxs)} cases)',
                      {**show(c), 'real_output': bytes.fromhex(impl[i].split('\t')[0]).decode(),
                       'pg_spec_result': pg_seen.get(i), 'expected_one_of': pg_expect(c, None)})
    broken = []
    if tr_err:
        broken.append(('translator failed closed: ' + tr_err, {'broken': 'harness/translate/c18_quote.py', 'error': tr_err}))
    if model is None:
        broken.append(('model does not build: ' + blog[-1200:], {'broken': 'extraction of theories/C18/Model.v'}))
    if out_mism:
        i = min(out_mism, key=lambda i: len(cases[i][1]))
        broken.append((f'correspondence broken: model and real {FN_NAMES[cases[i][0]]} produce different text '
                       f'({len(out_mism)} cases)',
                       {'broken': 'correspondence C18 Model vs ' + FN_NAMES[cases[i][0]], **show(cases[i]),
                        'impl_output': impl[i].split('\t')[0], 'model_output': model[i].split('\t')[0],
                        'disagreements': len(out_mism)}))
    if lex_mism:
        i = min(lex_mism, key=lambda i: len(cases[i][1]))
        broken.append((f'correspondence broken: lexer model and the real Rust lexer disagree ({len(lex_mism)} cases)',
                       {'broken': 'correspondence C18 Model.ql_lex1 vs tokenizer.rs', **show(cases[i]),
                        'text': impl[i].split('\t')[0], 'real_lexer': impl[i].split('\t')[1],
                        'model_lexer': model[i].split('\t')[1], 'disagreements': len(lex_mism)}))
    if sw.get('n_problems'):
        broken.append(('the code point sweep refutes a definition of the model: ' + '; '.join(sw['problems'][:5]),
                       {'broken': 'Unicode class definitions (ASCII part / repr / check_prohibited)',
                        'problems': sw['problems']}))
    if coq_diff:
        broken.append(('extracted model disagrees with vm_compute inside Coq',
                       {'broken': 'extraction', 'case': lines[coq_diff[0][0]] if coq_diff[0][0] >= 0 else None,
                        'coq': coq_diff[0][1]}))
    if not pf['ok']:
        broken.append(('proof obligations no longer check: ' + '; '.join(pf['broken'][:6]),
                       {'broken': pf['broken'], 'log_tail': pf['log'][-3000:]}))
    if not real_viol:
        # a broken tie with no failing input found by the monitors over all cases
        for what, payload in broken[:3]:
            rep.violation(what, payload, False)
    elif broken:
        rep.notes.append('ties also broken: ' + ' | '.join(w for w, _ in broken)[:2000])

    mark('verdict')
    # ---- 7. evidence
    distinct = {l for l, c in zip(lines, cases) if nontrivial(c)}
    by_fn, forms, lexkinds, lens = {}, {}, {}, {}
    for c, r in zip(cases, impl):
        fn = c[0]
        by_fn[fn] = by_fn.get(fn, 0) + 1
        o, l, _ = r.split('\t')
        f = form_of(fn, o)
        if f != '-':
            forms[f'{fn}:{f}'] = forms.get(f'{fn}:{f}', 0) + 1
        lk = l.split(':')[0] + (':' + l.split(':')[1] if ':' in l else '')
        lexkinds[f'{fn}:{lk}'] = lexkinds.get(f'{fn}:{lk}', 0) + 1
        b = min(len(c[1]), 40) // 5 * 5
        lens[b] = lens.get(b, 0) + 1
    flagtab = {f'{fn}:{f}': len(v) for (fn, f), v in by_flag.items()}
    samp = [show(cases[i]) | {'impl': impl[i]} for i in
            sorted({ncorp, len(cases) // 5, len(cases) // 2, (4 * len(cases)) // 5, len(cases) - 1})]
    rep.coverage.update({
        'evaluations': len(cases),
        'distinct_nontrivial': len(distinct),
        'rule': 'per quoting function: every string of length <= %d over a 14-symbol adversarial alphabet of that '
                'form (string / name / SQL name / bytes), every keyword of both languages in 5 spellings x flag '
                'combinations, %s code point through the string and name forms, seeded random long strings by '
                'Unicode category buckets, a token stream for the lexer model (well-formed tokens of every modelled '
                'class + malformed variants); continuation k drawn from a per-form list; '
                'names that are all ASCII digits with value >= 2**64 under allow_num=True are outside the domain (that form is by construction an integer token); non-trivial = contains a character of the adversarial class of the form under test (quotes, '
                'backslash, $, controls, bidi for strings; a non-letter, a keyword or mixed case for names; '
                'a byte the bytes form must escape); distinct = distinct encoded case (function, argument, k, flags)'
                % (4 if thorough else 3, 'every' if thorough else 'every 37th'),
        'exhaustive': False,
        'exhaustive_subspaces': ['strings of length <= %d over the adversarial alphabets, per function' % (4 if thorough else 3),
                                 'all 0x110000 code points: Unicode class tables / ASCII definitions / repr / '
                                 'check_prohibited (sweep%s)' % (', from cache keyed by lexer binary + Python + Unicode version'
                                                                 if sweep_cached else ', recomputed')],
        'samples': samp,
        'traces_validated_against_impl': (len(cases) - by_fn.get('T', 0) - by_fn.get('t', 0)) if model is not None else 0,
        'model_vs_impl_output_disagreements': len(out_mism),
        'lexer_model_vs_real_lexer_compared': n_lex_cmp,
        'lexer_model_vs_real_lexer_disagreements': len(lex_mism),
        'lexer_model_unmodelled_class': n_unm,
        'model_out_of_fuel': n_none,
        'pg_spec_monitor_failures': len(pg_fail),
        'coq_vm_compute_cross_checked': n_coq,
        'monitor_failures': flagtab,
        'known_finding_hits': known_hits,
        'cases_by_function': by_fn,
        'chosen_form': dict(sorted(forms.items())),
        'real_lexer_result_kinds': dict(sorted(lexkinds.items())),
        'argument_lengths': {f'{k}-{k + 4}' if k < 40 else '40+': v for k, v in sorted(lens.items())},
        'corpus_cases': ncorp,
        'stage_done_at_s': stage,
        'sweep': {k: sw[k] for k in ('unicode', 'python', 'code_points_swept', 'code_points_through_rust_lexer',
                                     'counts', 'n_problems')} | {
            'incompatible_code_points': {k: (v if not isinstance(v, dict) else {'n': v['n'], 'first_ranges': v.get('ranges', [])[:8]})
                                         for k, v in sw['incompat'].items()}},
        'translator_manifest': G.get('_manifest'),
        'trusted_base': [
            'Coq 8.16.1 kernel (coqc; coqchk in the thorough tier); vm_compute only in cases.v evaluation',
            'extraction: ExtrOcamlBasic only, N/positive/nat kept inductive; OCaml 4.13.1; ocaml/conv.ml + c18_main.ml '
            '(UTF-8 codec, table loader)',
            'translator harness/translate/c18_quote.py (fail-closed: tables + SHA of each function shape)',
            'correspondence harness harness/props/c18.py + harness/impl/c18_impl.py (generators, monitors, canonical forms)',
            'rust/lexer harness crate (includes the unmodified tokenizer sources by #[path]; bigdecimal shim) and harness/rt/vrt stubs',
            'hand-written PostgreSQL lexical specification Model.pg_lex1 / pg_bytea_in (PostgreSQL manual 4.1, 8.4): '
            'standard_conforming_strings=on, UTF-8 server encoding, NAMEDATALEN=64; string-continuation across newlines, '
            'E\'..\' / U&".." forms not modelled',
            'modelled, not verified: Python str.replace / re character classes / repr() / str.lower as mirrored in Model.v; '
            'the lexer model works on code points where the Rust code works on UTF-8 bytes (markers are ASCII)',
            'checked hypothesis (not a proof): the Unicode class tables the model is run with, and the ASCII '
            'definitions, equal the real re/str/repr and Rust lexer behaviour on all 0x110000 code points (sweep)',
        ],
    })
    rep.assumptions = [
        'a bare all-digit name (allow_num) is checked with continuations other than "." (ql_num_boundary): the '
        'tokenizer state after a dot (tuple index) is outside the one-token model',
        'ident_to_str, qname, quote_type, encode_value and the two code generators are covered by the monitors / '
        'correspondence only (no theorem); quote_e_literal (unused in the tree) is not covered',
        'the Validator\'s multi-word keyword merging (named only, set type, order by, ...) depends on the next token '
        'and is outside the one-token lexer model',
        'PostgreSQL side: the oracle is the modelled lexical spec only (no PostgreSQL in the sandbox)',
    ]
    return rep.finish()


def replay(path):
    d = json.load(open(path))
    case = d['replay'].get('case') or d['replay'].get('original_case')
    exe, _ = lib.build_model('c18', 'ExtractC18.v', 'c18_main.ml', 'C18_ext')
    binary = lexer_binary()
    tbl, sw, _ = sweep(binary)
    print('case :', dec(case))
    r = run_impl([case], binary)[0].split('\t')
    print('impl : output', ascii(bytes.fromhex(r[0]).decode()) if r[0] not in ('-',) and not r[0].startswith('X:') else r[0],
          '| real lexer:', r[1], '| monitors:', r[2])
    if exe:
        m = run_model(exe, tbl, [case])[0].split('\t')
        print('model: output', ascii(bytes.fromhex(m[0]).decode()) if m[0] not in ('-', 'NONE') else m[0],
              '| model lexer:', m[1], '| pg spec:', m[2])
    else:
        print('model does not build')
    return 0
