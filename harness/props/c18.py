"""C18 — quoted literals and identifiers cannot break out of their quotes.

Proof: coq/theories/C18 (Gallina model of the Python quoting functions, of the Rust EdgeQL lexer
       restricted to the token classes they produce, and a hand-written PostgreSQL lexical spec;
       theorems `lexer (quote s ++ k) = (token with value s, k)` for every string of the stated
       domain; `..._refuted` witnesses where the full statement is false of the faithful model).
Tie:   (a) translator harness/translate/c18_quote.py regenerates Gen_Quote.v (escape tables,
           character classes, constants, keyword lists; function shapes compared fail-closed);
       (b) correspondence: the real Python functions (run under the vrt stubs) and the REAL Rust
           lexer (qllex binary built from the repo's tokenizer sources) against the
           OCaml-extracted model on the same generated strings;
       (c) the Unicode-class parameters of the model are instantiated by a sweep of all 0x110000
           code points through the real `re`/str methods/repr and the real lexer.
Monitors: real lexer applied to the real Python output: one token, same value, rest untouched.
"""
from __future__ import annotations

import hashlib
import itertools
import json
import os
import shutil
import subprocess
import sys
import time

import lib

sys.path.insert(0, os.path.join(lib.VERIF, 'harness', 'translate'))
import c18_quote  # noqa: E402

PROP = 'C18'
IMPL = os.path.join(lib.VERIF, 'harness', 'impl', 'c18_impl.py')
GEN_DIR = os.path.join(lib.COQ, 'theories', 'C18')
THEOREMS = []   # filled below


# ------------------------------------------------------------------------------ real lexer binary

def lexer_binary():
    """qllex for lib.REPO.  rust/lexer includes the tokenizer sources of /repo by absolute
    #[path]; for another tree (VERIF_REPO) a copy of the harness crate with the paths rewritten
    is built under cache/ (same vendored crates, same shim)."""
    sys.path.insert(0, os.path.join(lib.VERIF, 'harness', 'rt'))
    import qllex
    if os.path.realpath(lib.REPO) == '/repo':
        return qllex.binary_path()
    key = hashlib.sha256(os.path.realpath(lib.REPO).encode()).hexdigest()[:12]
    root = os.path.join(lib.CACHE, f'c18_rust_{key}')
    src_l = os.path.join(lib.VERIF, 'rust', 'lexer')
    dst_l = os.path.join(root, 'lexer')
    with lib.Lock('c18_rust_' + key):
        os.makedirs(os.path.join(dst_l, 'src'), exist_ok=True)
        os.makedirs(os.path.join(dst_l, '.cargo'), exist_ok=True)
        for rel in ('src/main.rs', 'src/lib.rs', 'Cargo.toml', 'Cargo.lock', '.cargo/config.toml'):
            txt = open(os.path.join(src_l, rel)).read()
            txt = txt.replace('"/repo/', '"' + os.path.realpath(lib.REPO) + '/')
            txt = txt.replace('path = "../bigdecimal-shim"',
                              f'path = "{os.path.join(lib.VERIF, "rust", "bigdecimal-shim")}"')
            txt = txt.replace('directory = "../vendor"', f'directory = "{os.path.join(lib.VERIF, "rust", "vendor")}"')
            old = None
            if os.path.exists(os.path.join(dst_l, rel)):
                old = open(os.path.join(dst_l, rel)).read()
            if old != txt:
                open(os.path.join(dst_l, rel), 'w').write(txt)
        env = dict(os.environ)
        env['CARGO_NET_OFFLINE'] = 'true'
        env['CARGO_TARGET_DIR'] = os.path.join(root, 'target')
        env.setdefault('RUSTFLAGS', '-Awarnings')
        p = subprocess.run(['cargo', 'build', '--release', '--offline'], cwd=dst_l, env=env,
                           stdout=subprocess.PIPE, stderr=subprocess.STDOUT, text=True, timeout=1200)
        if p.returncode != 0:
            raise RuntimeError('building the lexer of ' + lib.REPO + ' failed:\n' + p.stdout[-3000:])
    return os.path.join(root, 'target', 'release', 'qllex')


def impl_env(binary):
    env = lib.impl_env()
    env['VRT_QLLEX'] = binary
    return env


def run_impl(lines, binary):
    return lib.parallel_lines([lib.PY, IMPL, lib.REPO], lines, env=impl_env(binary))


def run_model(exe, tbl, lines, nproc=8):
    return lib.parallel_lines([exe, tbl], lines, nproc=nproc)


def sweep(binary, force=False):
    import unicodedata
    key = hashlib.sha256(open(binary, 'rb').read() + sys.version.encode()
                         + unicodedata.unidata_version.encode()
                         + open(IMPL, 'rb').read()).hexdigest()[:16]
    base = os.path.join(lib.CACHE, f'c18_sweep_{key}')
    cached = os.path.exists(base + '.tbl') and os.path.exists(base + '.json')
    if force or not cached:
        with lib.Lock('c18_sweep'):
            if force or not (os.path.exists(base + '.tbl') and os.path.exists(base + '.json')):
                p = subprocess.run([lib.PY, IMPL, lib.REPO, 'sweep', base + '.tmp'], env=impl_env(binary),
                                   stdout=subprocess.PIPE, stderr=subprocess.PIPE, text=True, timeout=3600)
                if p.returncode != 0:
                    raise RuntimeError('sweep failed: ' + p.stderr[-3000:])
                os.replace(base + '.tmp.json', base + '.json')
                os.replace(base + '.tmp.tbl', base + '.tbl')
    return base + '.tbl', json.load(open(base + '.json')), (cached and not force)


# ------------------------------------------------------------------------------ cases
# case = (fn, arg: str|bytes, k: str, flags: int)

def enc(case):
    fn, arg, k, fl = case
    a = arg if isinstance(arg, bytes) else arg.encode('utf-8')
    return f'{fn}\t{a.hex()}\t{k.encode("utf-8").hex()}\t{fl}'


def dec(line):
    fn, a, k, fl = line.split('\t')
    raw = bytes.fromhex(a)
    return (fn, raw if fn in 'Bb' else raw.decode('utf-8'), bytes.fromhex(k).decode('utf-8'), int(fl))


STR_ALPHA = ["'", '"', '\\', '$', 'a', '\n', '\x85', '‮', 'é', ' ', '\t', '\x01', '(', 'r']
ID_ALPHA = ['a', 'A', '0', '_', '`', '$', '@', ':', ' ', 'é', '²', 'K', '٣', '\n']
PGID_ALPHA = ['a', 'A', '0', '_', '"', '$', ' ', 'é', '²', 'İ', '.', "'", 'ǅ', '٣']
BYTE_ALPHA = [0x5c, 0x27, 0x22, 0x0a, 0x09, 0x00, 0x7e, 0x7f, 0x80, 0xff, 0x61, 0x78, 0x30, 0x20]
K_QUOTED = ['', ' ', ';', '$', "'", '"', 'a', '$$', ' by', '`', '\\', "''", '$a$', 'a$']
K_PGLIT = ['', ' ', ';', '$', '"', 'a', '::text', ')']
K_PGID = ['', ' ', ';', "'", 'a', '.x', ')', '(']
K_BARE = ['', ' ', ';', ',', ')', '.x', ' x', '\n', '(', '[0]', ':= 1', '+1']
QL_WORDS = ['select', 'Select', 'union', 'abstract', '__type__', '__std__', '__source__', 'named', 'order',
            'set', 'if', 'on', 'global', 'except', 'İf', 'selecT', 'true', 'x', 'abc', 'a1', '_', '__', '___',
            '__a__', '1', '0', '01', '12', '1a', '1٣', '18446744073709551615', '18446744073709551616',
            'commit', 'configure_', 'aͅ', 'ǅ', 'ß', 'b', 'r', 'br', 'rb']
PG_WORDS = ['select', 'Select', 'between', 'abort', 'authorization', 'all', 'bigint', 'x', 'abc', 'a1', '_',
            'user', 'table', 'e', 'b', 'x', 'n', 'u', 'E', 'İ', 'ǆ', 'ß', 'a' * 63, 'a' * 64, 'é' * 31 + 'a',
            'é' * 32, 'value', 'id', 'ABC', 'a$', '$a', '1a']

BUCKETS = [
    list(range(0x20, 0x7f)),                                   # ASCII printable
    [0x27, 0x22, 0x5c, 0x24, 0x60, 0x28, 0x29, 0x3a, 0x40],    # quoting punctuation
    list(range(1, 0x20)) + [0x7f],                             # C0 controls
    list(range(0x80, 0xa1)) + [0xad],                          # C1, NBSP, soft hyphen
    list(range(0x202a, 0x202f)) + list(range(0x2066, 0x206a)) + [0x200e, 0x200f, 0x061c],   # bidi
    list(range(0x300, 0x310)) + [0x345, 0x200d, 0xfe0f],       # combining
    [0x1f600, 0x10000, 0x10ffff, 0xe0001, 0x1d7ce, 0x2f800],   # non-BMP
    [0xb2, 0xb3, 0xb9, 0xbc, 0x660, 0x663, 0x2160, 0x3007, 0x2460, 0x9f4],       # No / Nl / Nd numerics
    [0x130, 0x131, 0x212a, 0x3a3, 0x3c2, 0x1c5, 0xdf, 0x1e9e, 0x149, 0xfb01],   # case-mapping oddities
    [0xe9, 0x4e2d, 0x3b1, 0x5d0, 0x627, 0x2028, 0x2029, 0xfeff, 0xa0, 0x3000, 0x85],  # letters, separators
]


def rand_str(rnd, maxlen, weights=None):
    n = rnd.randint(0, maxlen)
    bs = rnd.choices(range(len(BUCKETS)), weights=weights or [6, 4, 2, 1, 1, 1, 1, 1, 1, 2], k=3)
    return ''.join(chr(rnd.choice(BUCKETS[rnd.choice(bs)])) for _ in range(n))


def product_strs(alpha, maxlen):
    for n in range(maxlen + 1):
        for t in itertools.product(alpha, repeat=n):
            yield ''.join(t)


def gen_lexer_stream(rnd, n):
    """texts for the lexer-model correspondence: well-formed tokens of every modelled class and
    malformed variants (unterminated, bad escapes, bad prefixes, prohibited characters)"""
    starts = ["'", '"', "r'", 'r"', "b'", 'b"', "br'", 'rb"', "$$", "$a$", "$ab1$", "$", "`", "$`", "a", "_",
              "é", "1", "0", "x'", "rr'", "R'", "B'", "$1", "$1a", "$a1", "__", "select", "ORDER", "²", "$é$"]
    pieces = ["'", '"', '\\', '$', '`', 'a', 'b', '1', '_', ' ', '\n', '\r', '\t', '\\x41', '\\x85', '\\x00',
              '\\x+4', '\\u0041', '\\u202e', '\\ud800', '\\U0001F600', '\\U00110000', '\\n', '\\t', "\\'", '\\"',
              '\\\\', '\\/', '\\(', '\\\n  ', '\\\n  ab', '\\q', '‮', '\x00', 'é', '²', '$$', '$a$', '``',
              '::', '@', '__', 'e', '.', 'n', '\\x4', '\\u00e', '\x85', '\xa0', '\\\r\n\t']
    out = []
    for _ in range(n):
        s = rnd.choice(starts)
        for _ in range(rnd.randint(0, 6)):
            s += rnd.choice(pieces)
        if rnd.random() < 0.6:
            s += rnd.choice(["'", '"', '`', '$$', '$a$', '$ab1$', ''])
        if rnd.random() < 0.5:
            s += rnd.choice(K_QUOTED)
        out.append(('X', s, '', 0))
    return out


def corpus():
    p = os.path.join(lib.VERIF, 'corpus', PROP)
    out = []
    if os.path.isdir(p):
        for f in sorted(os.listdir(p)):
            if f.endswith('.json'):
                out.append(json.load(open(os.path.join(p, f)))['case'])
    return out


def gen_cases(tier):
    rnd = lib.rng('C18')
    thorough = tier == 'thorough'
    cases = [dec(c) for c in corpus()]
    ncorp = len(cases)
    n_ex = 4 if thorough else 3
    # ---- exhaustive small scope over the adversarial alphabets
    for s in product_strs(STR_ALPHA, n_ex):
        k = rnd.choice(K_QUOTED)
        cases.append(('C', s, k, 0))
        cases.append(('L', s, rnd.choice(K_QUOTED), 0))
        cases.append(('D', s, rnd.choice(K_QUOTED), 0))
        cases.append(('l', s, rnd.choice(K_PGLIT), 0))
    for s in product_strs(STR_ALPHA[:8], 2):
        cases.append(('E', s, '', 0))
    for s in product_strs(ID_ALPHA, n_ex):
        for fl in (0, 2, 4, 6, 1):
            if fl in (0, 6) or rnd.random() < 0.25:
                cases.append(('I', s, rnd.choice(K_BARE), fl))
        cases.append(('P', s, rnd.choice(K_BARE), 0))
        if rnd.random() < 0.3:
            cases.append(('T', s, rnd.choice(K_BARE), rnd.choice((0, 1))))
    for s in product_strs(PGID_ALPHA, n_ex):
        cases.append(('i', s, rnd.choice(K_PGID), rnd.choice((0, 0, 2, 1))))
    for t in itertools.chain.from_iterable(itertools.product(BYTE_ALPHA, repeat=n) for n in range(n_ex + 1)):
        cases.append(('B', bytes(t), rnd.choice(K_QUOTED), 0))
        if len(t) <= 2 or rnd.random() < 0.2:
            cases.append(('b', bytes(t), rnd.choice(K_PGLIT), 0))
    # ---- words: keywords, mixed case, leading digits
    from_kw = []
    G = TABLES.get('G') or {}
    for name in ('g_kw_unreserved', 'g_kw_partial', 'g_kw_future', 'g_kw_current'):
        from_kw += [''.join(map(chr, w)) for w in G.get(name, [])]
    pgkw = [''.join(map(chr, w)) for w, _ in G.get('g_pg_keywords', [])]
    for w in QL_WORDS + from_kw:
        for v in {w, w.upper(), w.capitalize(), w + '_', w[:-1] + w[-1:].upper()}:
            for fl in (0, 2, 4, 6):
                cases.append(('I', v, rnd.choice(K_BARE), fl))
            cases.append(('P', v, rnd.choice(K_BARE), 0))
            cases.append(('X', v + rnd.choice(K_BARE + [" by", " only", "'x'", '`'])  , '', 0))
    for w in PG_WORDS + pgkw:
        for v in {w, w.upper(), w.capitalize(), w + '_'}:
            for fl in (0, 2):
                cases.append(('i', v, rnd.choice(K_PGID), fl))
    # ---- every code point once (thorough) / a spread (quick) through the string and name forms
    step = 1 if thorough else 37
    for c in range(1, 0x110000, step):
        if 0xD800 <= c < 0xE000:
            continue
        ch = chr(c)
        cases.append(('C', ch, '', 0))
        cases.append(('I', ch + 'x', ' ', 0))
        cases.append(('I', 'x' + ch, ' ', 0))
        if thorough or c % 3 == 0:
            cases.append(('L', ch, '', 0))
            cases.append(('P', 'x' + ch, ' ', 0))
            cases.append(('i', 'x' + ch, ' ', 0))
            cases.append(('C', "\x01'" + ch, '', 0))
    # ---- random long strings by category buckets
    nr = 120000 if thorough else 6000
    for _ in range(nr):
        s = rand_str(rnd, 40)
        r = rnd.random()
        fn = 'C' if r < 0.4 else 'L' if r < 0.55 else 'D' if r < 0.7 else 'l'
        if fn in 'CD' and rnd.random() < 0.5:
            # force the dollar branches: both quotes, sometimes $$ and the first tags
            s += rnd.choice(["'\"", "'\"$$", "\"'$$ $a$", "'\"$$$a$$b$$c$$d$$e$$f$$a1$", "'\"$", "'\"$$$a", "'\"$$$"])
            if rnd.random() < 0.5:
                s = s[::-1]
        cases.append((fn, s, rnd.choice(K_PGLIT if fn == 'l' else K_QUOTED), 0))
    for _ in range(nr // 2):
        w = [8, 1, 0, 0, 1, 1, 1, 2, 2, 3]
        s = rand_str(rnd, 12, w)
        if rnd.random() < 0.7:
            s = ''.join(ch for ch in s if ch.isalnum() or ch == '_') or 'a'
        r = rnd.random()
        if r < 0.4:
            cases.append(('I', s, rnd.choice(K_BARE), rnd.randrange(8)))
        elif r < 0.55:
            cases.append(('P', s, rnd.choice(K_BARE), 0))
        elif r < 0.65:
            cases.append(('T', '::'.join(rand_str(rnd, 5, w) or 'a' for _ in range(rnd.randint(1, 3))),
                          rnd.choice(K_BARE), rnd.choice((0, 1))))
        elif r < 0.9:
            cases.append(('i', s, rnd.choice(K_PGID), rnd.randrange(4)))
        else:
            parts = [rand_str(rnd, 6, w) or 'a' for _ in range(rnd.randint(1, 3))]
            parts = [p.replace('\x1f', '') or 'a' for p in parts]
            cases.append((rnd.choice('qqt'), '\x1f'.join(parts), rnd.choice(['', ' ', ';', ')']), rnd.choice((0, 2))))
    for _ in range(nr // 4):
        n = rnd.randint(0, 24)
        bs = bytes(rnd.choice(BYTE_ALPHA) if rnd.random() < 0.5 else rnd.randrange(256) for _ in range(n))
        cases.append((rnd.choice('Bb'), bs, rnd.choice(K_QUOTED[:8]), 0))
    # ---- lexer stream (mostly well-formed tokens + malformed)
    cases += gen_lexer_stream(rnd, 60000 if thorough else 6000)
    return cases, ncorp


TABLES = {}
