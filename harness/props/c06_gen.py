"""C06 -- case language, generators, renderers (used by props/c06.py and impl/c06_impl.py).

A case is ONE line:   <schema> <expr> <db>*      three kinds of S-expressions.

  schema  (S (T tid (P pid kind multi req excl target) ...) ...)
            kind: i = int64 property, s = str property, l = link (target = tid, else 0)
  expr    the core calculus of coq/theories/C06/Model.v, binder-explicit:
            (lit v...) (empty k) (root tid) (var x) (ptr e pid) (back e pid tid)
            (tup e e) (proj e i) (arr e e) (call f e...) (union e e) (distinct e)
            (if e c e) (coal e e) (exists e) (filter x S p) (limit e n) (offset e n)
            (limitx e e) (offsetx e e) (for x S body) (sel e)
            (shape x S (el name qual e)...)
          values: 12 (int)  s3 (str "s3")  true/false  ; k: i s b o<tid>
  db      (D (O tid oid (pid v...)...) ...)   values as above, link targets #oid

Rendering: types `T<tid>`, pointers `p<pid>`, variables `v<x>`, every type root is
`(detached T<tid>)`, FILTER binds its subject with a result alias, shape sources are only
referenced by partial paths -- so EdgeQL's implicit path factoring coincides with the
binders of the calculus (DESIGN C06 "Scoping").  The generator also keeps every
`<var>.<pointer>` / `<var>.<index>` prefix unique inside the scope of that variable.
"""
from __future__ import annotations

import re

# ----------------------------------------------------------------------------- S-expressions

_TOK = re.compile(r'\(|\)|[^\s()]+')


def sx_parse_all(text):
    toks = _TOK.findall(text)
    pos = 0

    def rd():
        nonlocal pos
        t = toks[pos]
        pos += 1
        if t == '(':
            out = []
            while toks[pos] != ')':
                out.append(rd())
            pos += 1
            return out
        if t == ')':
            raise ValueError('unexpected )')
        return t
    res = []
    while pos < len(toks):
        res.append(rd())
    return res


def sx_str(x):
    if isinstance(x, (list, tuple)):
        return '(' + ' '.join(sx_str(y) for y in x) + ')'
    return str(x)


def enc_case(schema, expr, dbs):
    return ' '.join([sx_str(schema), sx_str(expr)] + [sx_str(d) for d in dbs])


def dec_case(line):
    parts = sx_parse_all(line)
    return parts[0], parts[1], parts[2:]


# ----------------------------------------------------------------------------- schema helpers

class Schema:
    def __init__(self, sx):
        assert sx[0] == 'S'
        self.types = {}      # tid -> [pid]
        self.ptrs = {}       # pid -> dict(src, kind, multi, req, excl, target)
        for t in sx[1:]:
            assert t[0] == 'T'
            tid = int(t[1])
            self.types[tid] = []
            for p in t[2:]:
                assert p[0] == 'P'
                pid = int(p[1])
                self.types[tid].append(pid)
                self.ptrs[pid] = dict(src=tid, kind=str(p[2]), multi=str(p[3]) == '1', req=str(p[4]) == '1',
                                      excl=str(p[5]) == '1', target=int(p[6]))

    def ptr_type(self, pid):
        p = self.ptrs[pid]
        return ('o', p['target']) if p['kind'] == 'l' else (p['kind'],)


def gen_schema(rnd):
    nt = rnd.choice((1, 2, 2, 3))
    pid = 0
    types = []
    for tid in range(1, nt + 1):
        ptrs = []
        np_ = rnd.randint(2, 5)
        for _ in range(np_):
            pid += 1
            kind = rnd.choice('isssil' if nt == 1 else 'isslll')
            multi = rnd.random() < 0.4
            req = rnd.random() < 0.4
            excl = rnd.random() < (0.45 if kind != 'l' else 0.3)
            target = rnd.randint(1, nt) if kind == 'l' else 0
            ptrs.append(['P', pid, kind, int(multi), int(req), int(excl), target])
        # make sure there is at least one single exclusive property (exclusive-filter rule)
        if not any(p[2] in 'is' and p[3] == 0 and p[5] == 1 for p in ptrs) and rnd.random() < 0.8:
            pid += 1
            ptrs.append(['P', pid, rnd.choice('is'), 0, int(rnd.random() < 0.6), 1, 0])
        types.append(['T', tid] + ptrs)
    return ['S'] + types


def render_sdl(sx):
    sch = Schema(sx)
    out = []
    for tid, pids in sch.types.items():
        lines = []
        for pid in pids:
            p = sch.ptrs[pid]
            q = ('required ' if p['req'] else '') + ('multi ' if p['multi'] else '')
            tgt = {'i': 'int64', 's': 'str'}.get(p['kind']) or f"T{p['target']}"
            body = ' { constraint exclusive; }' if p['excl'] else ''
            lines.append(f"  {q}p{pid}: {tgt}{body};")
        out.append(f"type T{tid} {{\n" + '\n'.join(lines) + "\n}")
    return '\n'.join(out)


# ----------------------------------------------------------------------------- databases

def gen_db(rnd, sx, size=None, sparse=False):
    """An instance conforming to the schema: single => <=1 value, required => >=1,
    exclusive => no value shared between (object, slot)s of that pointer, multi links are
    sets.  Returns None when `required` cannot be satisfied (then the type is left empty)."""
    sch = Schema(sx)
    if size is None:
        size = rnd.choice((0, 0, 1, 2, 2, 3, 3, 4))
    counts = {tid: (rnd.randint(0, size) if rnd.random() < 0.85 else 0) for tid in sch.types}
    for _ in range(6):
        oid = 0
        objs = {}
        for tid in sch.types:
            objs[tid] = []
            for _ in range(counts[tid]):
                oid += 1
                objs[tid].append(oid)
        ok = True
        rows = []
        used = {}
        small = rnd.random() < 0.6      # small value pools force collisions
        tiny = small and rnd.random() < 0.5
        for tid, pids in sch.types.items():
            for o in objs[tid]:
                row = ['O', tid, o]
                for pid in pids:
                    p = sch.ptrs[pid]
                    if p['kind'] == 'l':
                        pool = [f'#{x}' for x in objs[p['target']]]
                    elif p['kind'] == 'i':
                        pool = [str(x) for x in range(0, (2 if tiny else 3) if small else 6)]
                    else:
                        pool = [f's{x}' for x in range(0, (2 if tiny else 3) if small else 6)]
                    if p['excl']:
                        pool = [v for v in pool if v not in used.setdefault(pid, set())]
                    lo = 1 if p['req'] else 0
                    hi = rnd.choice((1, 2, 3)) if p['multi'] else 1
                    if p['multi'] and p['req']:
                        lo = 1
                    n = rnd.randint(lo, max(lo, hi))
                    if rnd.random() < (0.75 if sparse else 0.25):
                        n = lo
                    vals = []
                    for _ in range(n):
                        if not pool:
                            break
                        v = rnd.choice(pool)
                        if p['kind'] == 'l' or p['excl']:
                            pool = [x for x in pool if x != v]
                        vals.append(v)
                        if p['excl']:
                            used[pid].add(v)
                    if len(vals) < lo:
                        ok = False
                    if vals:
                        row.append([pid] + vals)
                rows.append(row)
        if ok:
            return ['D'] + rows
        # could not satisfy a required pointer: empty the offending instance and retry smaller
        counts = {tid: max(0, c - 1) for tid, c in counts.items()}
    return ['D']


def db_conforms(sx, db):
    sch = Schema(sx)
    objs = {int(r[2]): int(r[1]) for r in db[1:]}
    if len(objs) != len(db) - 1:
        return False
    seen = {}
    for r in db[1:]:
        tid = int(r[1])
        vals = {int(e[0]): e[1:] for e in r[3:]}
        for pid in sch.types[tid]:
            p = sch.ptrs[pid]
            vs = vals.get(pid, [])
            if not p['multi'] and len(vs) > 1:
                return False
            if p['req'] and not vs:
                return False
            if p['kind'] == 'l':
                if len(set(vs)) != len(vs):
                    return False
                if any(objs.get(int(v[1:])) != p['target'] for v in vs):
                    return False
            if p['excl']:
                for v in vs:
                    if v in seen.setdefault(pid, set()):
                        return False
                    seen[pid].add(v)
    return True


# ----------------------------------------------------------------------------- primitives
# name -> (param typemods, return typemod, EdgeQL rendering kind)
S_, O_, A_ = 'S', 'O', 'A'      # singleton / optional / set-of
PRIMS = {
    'eq':   ((S_, S_), S_, ('bin', '=')),
    'neq':  ((S_, S_), S_, ('bin', '!=')),
    'lt':   ((S_, S_), S_, ('bin', '<')),
    'add':  ((S_, S_), S_, ('bin', '+')),
    'mul':  ((S_, S_), S_, ('bin', '*')),
    'cat':  ((S_, S_), S_, ('bin', '++')),
    'and':  ((S_, S_), S_, ('bin', 'and')),
    'or':   ((S_, S_), S_, ('bin', 'or')),
    'not':  ((S_,), S_, ('pre', 'not')),
    'opteq': ((O_, O_), S_, ('bin', '?=')),
    'optneq': ((O_, O_), S_, ('bin', '?!=')),
    'in':   ((S_, A_), S_, ('bin', 'in')),
    'count': ((A_,), S_, ('fn', 'count')),
    'sum':  ((A_,), S_, ('fn', 'sum')),
    'min':  ((A_,), O_, ('fn', 'min')),
    'max':  ((A_,), O_, ('fn', 'max')),
    'any':  ((A_,), S_, ('fn', 'any')),
    'all':  ((A_,), S_, ('fn', 'all')),
    'len':  ((S_,), S_, ('fn', 'len')),
    'tostr': ((S_,), S_, ('cast', 'str')),
    'enumerate': ((A_,), A_, ('fn', 'enumerate')),
    'unpack': ((S_,), A_, ('fn', 'array_unpack')),
    'aget': ((S_, S_), O_, ('fn', 'array_get')),
    'asingle': ((A_,), O_, ('fn', 'assert_single')),
    'aexists': ((A_,), A_, ('fn', 'assert_exists')),
    'adistinct': ((A_,), A_, ('fn', 'assert_distinct')),
}


# ----------------------------------------------------------------------------- rendering

def render_val(v):
    if v in ('true', 'false'):
        return v
    if v.startswith('s'):
        return f"'{v}'"
    return v


LIBERAL = [False]      # exploration stream: type roots are NOT detached (implicit path factoring)


def render(e, partial=None):
    """EdgeQL text of an expression.  `partial` = the variable currently denoted by a
    partial path (shape source)."""
    k = e[0]
    r = lambda x: render(x, partial)

    def src(x):
        # source of a path step.  In the exploration stream a root INSIDE an expression that is the
        # source of a further step stays detached: the compiler keeps it inside that expression's
        # scope (the expression is the path's set), toy_eval_model would bind it at statement level
        if LIBERAL[0] and x[0] not in ('var', 'root', 'ptr', 'back', 'proj'):
            LIBERAL[0] = False
            try:
                return render(x, partial)
            finally:
                LIBERAL[0] = True
        return render(x, partial)
    if k == 'lit':
        vs = [render_val(v) for v in e[1:]]
        return vs[0] if len(vs) == 1 else '{' + ', '.join(vs) + '}'
    if k == 'empty':
        t = e[1]
        ty = {'i': 'int64', 's': 'str', 'b': 'bool'}.get(t) or f'T{t[1:]}'
        return f'(<{ty}>{{}})'
    if k == 'root':
        return f'T{e[1]}' if LIBERAL[0] else f'(detached T{e[1]})'
    if k == 'var':
        if partial is not None and str(e[1]) == str(partial):
            raise ValueError('bare reference to a shape source cannot be rendered')
        return f'v{e[1]}'
    if k == 'ptr':
        if e[1][0] == 'var' and partial is not None and str(e[1][1]) == str(partial):
            return f'.p{e[2]}'
        return f'{src(e[1])}.p{e[2]}'
    if k == 'back':
        if e[1][0] == 'var' and partial is not None and str(e[1][1]) == str(partial):
            return f'.<p{e[2]}[is T{e[3]}]'
        return f'{src(e[1])}.<p{e[2]}[is T{e[3]}]'
    if k == 'tup':
        return f'({r(e[1])}, {r(e[2])})'
    if k == 'arr':
        return f'[{r(e[1])}, {r(e[2])}]'
    if k == 'proj':
        return f'({src(e[1])}).{e[2]}'
    if k == 'call':
        kind, sym = PRIMS[e[1]][2]
        args = [r(a) for a in e[2:]]
        if kind == 'bin':
            return f'({args[0]} {sym} {args[1]})'
        if kind == 'pre':
            return f'({sym} {args[0]})'
        if kind == 'cast':
            return f'(<{sym}>{args[0]})'
        return f'{sym}({", ".join(args)})'
    if k == 'union':
        return f'({r(e[1])} union {r(e[2])})'
    if k == 'distinct':
        return f'(distinct {r(e[1])})'
    if k == 'if':
        return f'({r(e[1])} if {r(e[2])} else {r(e[3])})'
    if k == 'coal':
        return f'({r(e[1])} ?? {r(e[2])})'
    if k == 'exists':
        return f'(exists {r(e[1])})'
    if k == 'sel':
        return f'(select {r(e[1])})'
    if k == 'filter':
        # inside the predicate a partial path denotes the subject, not the shape source
        return f'(select v{e[1]} := {r(e[2])} filter {render(e[3], None)})'
    if k == 'filterp':
        # unaliased subject: partial paths in the predicate denote the subject
        return f'(select {r(e[2])} filter {render(e[3], e[1])})'
    if k == 'limit':
        return f'(select {r(e[1])} limit {e[2]})'
    if k == 'offset':
        return f'(select {r(e[1])} offset {e[2]})'
    if k == 'limitx':
        return f'(select {r(e[1])} limit {r(e[2])})'
    if k == 'offsetx':
        return f'(select {r(e[1])} offset {r(e[2])})'
    if k == 'for':
        return f'(for v{e[1]} in ({r(e[2])}) union ({r(e[3])}))'
    if k == 'shape':
        els = []
        for el in e[3:]:
            q = {'-': '', 'r': 'required ', 's': 'single ', 'm': 'multi ', 'rs': 'required single ',
                 'rm': 'required multi ', 'o': 'optional '}[el[2]]
            els.append(f'{q}{el[1]} := {render(el[3], e[1])}')
        return f'(select {r(e[2])} {{ {", ".join(els)} }})'
    raise ValueError('render: ' + str(k))


def render_query(e, liberal=False):
    LIBERAL[0] = liberal
    try:
        return 'select ' + render(e)
    finally:
        LIBERAL[0] = False


# ----------------------------------------------------------------------------- walking

CHILD_IDX = {
    'lit': (), 'empty': (), 'root': (), 'var': (), 'ptr': (1,), 'back': (1,), 'tup': (1, 2), 'arr': (1, 2),
    'proj': (1,), 'union': (1, 2), 'distinct': (1,), 'if': (1, 2, 3), 'coal': (1, 2), 'exists': (1,),
    'sel': (1,), 'filter': (2, 3), 'filterp': (2, 3), 'limit': (1,), 'offset': (1,), 'limitx': (1, 2), 'offsetx': (1, 2),
    'for': (2, 3),
}


def children(e):
    k = e[0]
    if k == 'call':
        return list(e[2:])
    if k == 'shape':
        return [e[2]] + [el[3] for el in e[3:]]
    return [e[i] for i in CHILD_IDX[k]]


def walk(e):
    yield e
    for c in children(e):
        yield from walk(c)


def size(e):
    return sum(1 for _ in walk(e))


def features(e):
    fs = set()
    for n in walk(e):
        fs.add(n[0] if n[0] != 'call' else 'call:' + n[1])
        if n[0] in ('filter', 'filterp'):
            for m in walk(n[3]):
                if m[0] == 'call' and m[1] == 'eq':
                    fs.add('filter-eq')
    return fs


def nontrivial(e):
    """>= 2 set-level operators (union / distinct / if / ?? / filter / limit / for / a set-of or
    optional primitive / a multi pointer hop) -- a bare literal, root or single path is trivial."""
    n = 0
    for x in walk(e):
        if x[0] in ('union', 'distinct', 'if', 'coal', 'exists', 'filter', 'filterp', 'limit', 'offset', 'limitx',
                    'offsetx', 'for', 'shape', 'back', 'ptr'):
            n += 1
        elif x[0] == 'call' and any(m != 'S' for m in PRIMS[x[1]][0] + (PRIMS[x[1]][1],)):
            n += 1
    return n >= 2


# ----------------------------------------------------------------------------- typed generator

class Gen:
    """Typed generator of binder-explicit expressions.

    types: ('i',) ('s',) ('b',) ('o', tid) ('t', ty, ty) ('a', ty)"""

    def __init__(self, rnd, schema_sx, liberal=False):
        self.rnd = rnd
        self.sch = Schema(schema_sx)
        self.nvar = 0
        self.nel = 0
        self.liberal = liberal      # exploration stream: repeated prefixes allowed
        self.used = set()           # (var, step) prefixes already used

    def fresh(self):
        self.nvar += 1
        return self.nvar

    # -- helpers
    def pick_type(self, depth):
        r = self.rnd.random()
        tids = list(self.sch.types)
        if r < 0.32:
            return ('o', self.rnd.choice(tids))
        if r < 0.37 and len(tids) > 1:
            return ('ou',)
        if r < 0.55:
            return ('i',)
        if r < 0.75:
            return ('s',)
        if r < 0.88:
            return ('b',)
        return ('t', self.pick_scalar_or_obj(), self.pick_scalar_or_obj())

    def pick_scalar_or_obj(self):
        r = self.rnd.random()
        if r < 0.4:
            return ('o', self.rnd.choice(list(self.sch.types)))
        return (self.rnd.choice('is'),)

    def lit(self, ty, many=None):
        rnd = self.rnd
        n = 1 if many is False else rnd.choice((1, 1, 2, 3))
        if ty == ('i',):
            return ['lit'] + [str(rnd.randint(0, 3)) for _ in range(n)]
        if ty == ('s',):
            return ['lit'] + [f's{rnd.randint(0, 3)}' for _ in range(n)]
        if ty == ('b',):
            return ['lit'] + [rnd.choice(('true', 'false')) for _ in range(n)]
        raise ValueError(ty)

    def vars_of(self, env, ty, pa=None, path=False):
        """variables of type ty usable here: a shape source only as the head of a path and
        only while partial paths still denote it (pa)"""
        return [x for x, t, k in env if t == ty and (k != 'shape' or (path and x == pa))]

    def path_ok(self, x, step):
        return self.liberal or (x, step) not in self.used

    def obj_sources(self, env, tid, depth, pa):
        """an expression of object type tid (for pointer access)"""
        return self.gen(('o', tid), env, depth, pa)

    # -- main
    def gen(self, ty, env, depth, pa=None):
        """env: list of (var, type, kind) ; pa: shape variable that may only be used as a partial path"""
        rnd = self.rnd
        if depth <= 0:
            return self.leaf(ty, env, pa)
        choices = self.productions(ty, env, pa)
        for _ in range(8):
            name = rnd.choice(choices)
            e = getattr(self, 'p_' + name)(ty, env, depth - 1, pa)
            if e is not None:
                return e
        return self.leaf(ty, env, pa)

    def leaf(self, ty, env, pa):
        rnd = self.rnd
        vs = self.vars_of(env, ty, pa)
        if vs and rnd.random() < 0.6:
            return ['var', rnd.choice(vs)]
        if ty[0] in 'isb':
            e = self.p_path(ty, env, 0, pa) if rnd.random() < 0.5 else None
            if e is not None:
                return e
            if rnd.random() < 0.08 and ty[0] in 'is':
                return ['empty', ty[0]]
            return self.lit(ty)
        if ty[0] == 'o':
            if rnd.random() < 0.06:
                return ['empty', f'o{ty[1]}']
            return ['root', ty[1]]
        if ty[0] == 't':
            return ['tup', self.leaf(ty[1], env, pa), self.leaf(ty[2], env, pa)]
        if ty[0] == 'a':
            return ['arr', self.leaf(ty[1], env, pa), self.leaf(ty[1], env, pa)]
        if ty[0] == 'ou':
            return self.p_mix(ty, env, 0, pa)
        raise ValueError(ty)

    def productions(self, ty, env, pa):
        common = ['leaf', 'leaf', 'union', 'distinct', 'if', 'coal', 'filter', 'filter', 'limit', 'for',
                  'forpat', 'forpat', 'sel', 'assert', 'proj', 'min']
        if ty[0] == 'i':
            return common + ['path', 'path', 'count', 'arith', 'sum', 'len', 'unpack', 'aget']
        if ty[0] == 's':
            return common + ['path', 'path', 'cat', 'tostr', 'unpack', 'aget']
        if ty[0] == 'b':
            return ['leaf', 'cmp', 'cmp', 'cmp', 'logic', 'exists', 'exists', 'in', 'opteq', 'anyall', 'if', 'coal',
                    'union', 'distinct', 'for']
        if ty[0] == 'o':
            return common + ['path', 'path', 'path', 'back', 'shape', 'unionmix']
        if ty[0] == 't':
            return ['tup', 'tup', 'tup', 'enumerate', 'union', 'distinct', 'filter', 'limit', 'for', 'sel', 'if',
                    'coal', 'assert', 'leaf']
        if ty[0] == 'a':
            return ['leaf']
        if ty[0] == 'ou':
            return ['mix', 'mix', 'mix', 'union', 'distinct', 'limit', 'sel', 'if', 'coal', 'assert']
        raise ValueError(ty)

    # -- productions (return None when not applicable)
    def p_leaf(self, ty, env, d, pa):
        return self.leaf(ty, env, pa)

    def p_union(self, ty, env, d, pa):
        return ['union', self.gen(ty, env, d, pa), self.gen(ty, env, d, pa)]

    def p_unionmix(self, ty, env, d, pa):
        return None

    def p_mix(self, ty, env, d, pa):
        """objects of two (mostly different) types united: a union type"""
        rnd = self.rnd
        tids = list(self.sch.types)
        t1 = rnd.choice(tids)
        t2 = rnd.choice([t for t in tids if t != t1] or tids) if rnd.random() < 0.85 else t1
        a = self.gen(('o', t1), env, d, pa)
        b = self.gen(('o', t2), env, d, pa)
        if rnd.random() < 0.35:
            c = self.gen(('o', rnd.choice(tids)), env, min(d, 1), pa)
            return rnd.choice((['union', ['union', a, b], c], ['union', c, ['union', a, b]]))
        return ['union', a, b]

    def p_distinct(self, ty, env, d, pa):
        return ['distinct', self.gen(ty, env, d, pa)]

    def p_if(self, ty, env, d, pa):
        return ['if', self.gen(ty, env, d, pa), self.gen(('b',), env, d, pa), self.gen(ty, env, d, pa)]

    def p_coal(self, ty, env, d, pa):
        return ['coal', self.gen(ty, env, d, pa), self.gen(ty, env, d, pa)]

    def p_sel(self, ty, env, d, pa):
        return ['sel', self.gen(ty, env, d, pa)]

    def p_assert(self, ty, env, d, pa):
        return ['call', self.rnd.choice(('asingle', 'aexists', 'adistinct')), self.gen(ty, env, d, pa)]

    def p_min(self, ty, env, d, pa):
        if ty[0] not in 'is':
            return None
        return ['call', self.rnd.choice(('min', 'max')), self.gen(ty, env, d, pa)]

    def p_limit(self, ty, env, d, pa):
        rnd = self.rnd
        s = self.gen(ty, env, d, pa)
        r = rnd.random()
        if r < 0.55:
            return ['limit', s, rnd.choice((0, 1, 1, 1, 2, 3))]
        if r < 0.75:
            return ['offset', s, rnd.choice((0, 1, 2))]
        # LIMIT / OFFSET expressions are outside the scope of partial paths
        lim = self.gen(('i',), env, min(d, 1), None) if rnd.random() < 0.3 else \
            ['call', 'count', self.gen(self.pick_scalar_or_obj(), env, min(d, 1), None)]
        return [rnd.choice(('limitx', 'offsetx')), s, lim]

    def p_for(self, ty, env, d, pa):
        x = self.fresh()
        ity = self.pick_type(d)
        if ity[0] in ('a', 'ou'):
            ity = ('i',)
        it = self.gen(ity, env, d, pa)
        body = self.gen(ty, env + [(x, ity, 'for')], d, pa)
        return ['for', x, it, body]

    def p_forpat(self, ty, env, d, pa):
        """FOR whose body depends on the iterator (disjointness rules of multiplicity.py)"""
        rnd = self.rnd
        x = self.fresh()
        r = rnd.random()
        if ty[0] == 'o' and r < 0.5:
            # for x in S union (select T filter .q = x[.p])
            tid = ty[1]
            qs = [p for p in self.sch.types[tid]]
            if not qs:
                return None
            q = rnd.choice(qs)
            qty = self.sch.ptr_type(q)
            y = self.fresh()
            if rnd.random() < 0.5:
                it = self.gen(qty, env, d, pa)
                key = ['var', x]
                ity = qty
            else:
                srcs = [pid for pid in self.sch.ptrs if self.sch.ptr_type(pid) == qty]
                pid = rnd.choice(srcs)
                ity = ('o', self.sch.ptrs[pid]['src'])
                it = self.gen(ity, env, d, pa)
                key = ['ptr', ['var', x], pid]
            subj = self.gen(ty, env + [(x, ity, 'for')], min(d, 1), pa)
            self.used.add((y, q))
            body = ['filter', y, subj, self.flip(['ptr', ['var', y], q], key)]
            return ['for', x, it, body]
        # iterator of a type from which ty is reachable in one step, or ty itself
        opts = [('self', None)]
        for pid in self.sch.ptrs:
            if self.sch.ptr_type(pid) == ty:
                opts.append(('ptr', pid))
        kind, pid = rnd.choice(opts)
        if kind == 'self':
            it = self.gen(ty, env, d, pa)
            v = ['var', x]
            body = rnd.choice((v, v, ['union', v, v], ['sel', v], ['distinct', v], ['limit', v, 1],
                               ['union', v, self.gen(ty, env, min(d, 1), pa)]))
            return ['for', x, it, body]
        ity = ('o', self.sch.ptrs[pid]['src'])
        it = self.gen(ity, env, d, pa)
        b = ['ptr', ['var', x], pid]
        body = rnd.choice((b, b, ['sel', b], ['distinct', b], ['limit', b, 1]))
        return ['for', x, it, body]

    def p_filter(self, ty, env, d, pa):
        x = self.fresh()
        s = self.gen(ty, env, d, pa)
        if ty[0] == 'o' and self.rnd.random() < 0.35:
            pred = self.pred(x, ty, env + [(x, ty, 'shape')], d, partial=True)
            return ['filterp', x, s, pred]
        pred = self.pred(x, ty, env + [(x, ty, 'flt')], d)
        return ['filter', x, s, pred]

    def pred(self, x, ty, env, d, partial=False):
        """predicate over subject x; inside it no partial path may refer to an outer shape"""
        rnd = self.rnd
        self.cur_partial = x if partial else None
        if ty[0] == 'o' and rnd.random() < 0.18:
            a = self.opt_atom(x, ty, env, d, x if partial else None)
            if a is not None:
                if rnd.random() < 0.25:
                    e2 = self.excl_atom(x, ty, env, d)
                    if e2 is not None:
                        a = ['call', rnd.choice(('and', 'or')), a, e2]
                return a
        if ty[0] == 'o' and rnd.random() < 0.75:
            atoms = []
            for _ in range(rnd.choice((1, 1, 2))):
                a = self.excl_atom(x, ty, env, d)
                if a is not None:
                    atoms.append(a)
            if atoms:
                p = atoms[0]
                for a in atoms[1:]:
                    p = ['call', rnd.choice(('and', 'and', 'or')), p, a]
                if rnd.random() < 0.15:
                    p = ['call', 'and', p, self.gen(('b',), env, min(d, 1), x if partial else None)]
                return p
        return self.gen(('b',), env, d, x if partial else None)

    def opt_atom(self, x, ty, env, d, ppa):
        """x.p ?= rhs / x.p ?!= rhs  with p a (mostly optional, often exclusive) scalar pointer and a
        right-hand side that is empty at run time for some or all objects"""
        rnd = self.rnd
        tid = ty[1]
        cands = [p for p in self.sch.types[tid] if self.sch.ptrs[p]['kind'] != 'l' and self.path_ok(x, p)]
        if not cands:
            return None
        pref = [p for p in cands if not self.sch.ptrs[p]['req'] and not self.sch.ptrs[p]['multi']]
        best = [p for p in pref if self.sch.ptrs[p]['excl']]
        pid = rnd.choice(best) if best and rnd.random() < 0.6 else rnd.choice(pref or cands)
        self.used.add((x, pid))
        pty = self.sch.ptr_type(pid)
        lhs = ['ptr', ['var', x], pid]
        r = rnd.random()
        rhs = None
        if r < 0.4:
            rhs = ['empty', pty[0]]
        elif r < 0.6:
            # the object's own other optional pointer of the same kind
            others = [p for p in self.sch.types[tid] if p != pid and self.sch.ptr_type(p) == pty
                      and not self.sch.ptrs[p]['multi'] and self.path_ok(x, p)]
            if others:
                p2 = rnd.choice(others)
                self.used.add((x, p2))
                rhs = ['ptr', ['var', x], p2]
        elif r < 0.75:
            # an outer variable's optional pointer
            for y, yt, k in env:
                if y != x and yt[0] == 'o' and k != 'shape':
                    ps = [p for p in self.sch.types[yt[1]] if self.sch.ptr_type(p) == pty
                          and not self.sch.ptrs[p]['multi'] and self.path_ok(y, p)]
                    if ps:
                        p2 = rnd.choice(ps)
                        self.used.add((y, p2))
                        rhs = ['ptr', ['var', y], p2]
                        break
        if rhs is None:
            rhs = self.gen(pty, [v for v in env if v[0] != x], min(d, 1), ppa)
            if rnd.random() < 0.6:
                rhs = ['limit', rhs, 1]
        op = rnd.choice(('opteq', 'opteq', 'opteq', 'optneq'))
        return ['call', op, rhs, lhs] if rnd.random() < 0.25 else ['call', op, lhs, rhs]

    def excl_atom(self, x, ty, env, d):
        rnd = self.rnd
        tid = ty[1]
        r = rnd.random()
        ppa = x if any(v == x and k == 'shape' for v, _, k in env) else None
        if r < 0.12 and ppa is None:
            # self reference:  x = <single object>
            rhs = self.gen(('o', tid), env, min(d, 1), None)
            if rnd.random() < 0.7:
                rhs = ['limit', rhs, 1]
            return self.flip(['var', x], rhs)
        cands = [p for p in self.sch.types[tid] if self.path_ok(x, p)]
        if not cands:
            return None
        # prefer exclusive single pointers
        best = [p for p in cands if self.sch.ptrs[p]['excl'] and not self.sch.ptrs[p]['multi']]
        pid = rnd.choice(best) if best and rnd.random() < 0.55 else rnd.choice(cands)
        self.used.add((x, pid))
        pty = self.sch.ptr_type(pid)
        lhs = ['ptr', ['var', x], pid]
        if pty[0] == 'o' and rnd.random() < 0.5:
            # two-step path  x.link.prop
            p2s = [p for p in self.sch.types[pty[1]] if self.sch.ptrs[p]['kind'] != 'l']
            if p2s:
                p2 = rnd.choice(p2s)
                lhs = ['ptr', lhs, p2]
                pty = self.sch.ptr_type(p2)
        rr = rnd.random()
        if rr < 0.5 and pty[0] in 'is':
            rhs = self.lit(pty, many=False)
        elif rr < 0.8:
            rhs = self.gen(pty, [v for v in env if v[0] != x] if rnd.random() < 0.7 else env, min(d, 1), ppa)
            if rnd.random() < 0.5:
                rhs = ['limit', rhs, 1]
        else:
            rhs = self.gen(pty, env, min(d, 1), ppa)
        return self.flip(lhs, rhs)

    def flip(self, a, b):
        return ['call', 'eq', b, a] if self.rnd.random() < 0.25 else ['call', 'eq', a, b]

    def p_path(self, ty, env, d, pa):
        """e.p with target type ty"""
        rnd = self.rnd
        cands = [pid for pid, p in self.sch.ptrs.items() if self.sch.ptr_type(pid) == ty]
        if not cands:
            return None
        pid = rnd.choice(cands)
        src_t = self.sch.ptrs[pid]['src']
        vs = [x for x in self.vars_of(env, ('o', src_t), pa, True) if self.path_ok(x, pid)]
        if vs and rnd.random() < 0.7:
            x = rnd.choice(vs)
            self.used.add((x, pid))
            return ['ptr', ['var', x], pid]
        src = self.gen(('o', src_t), env, d, pa)
        if src[0] == 'var':
            if not self.path_ok(src[1], pid):
                return None
            self.used.add((src[1], pid))
        return ['ptr', src, pid]

    def p_back(self, ty, env, d, pa):
        rnd = self.rnd
        tid = ty[1]
        cands = [pid for pid in self.sch.types[tid] if self.sch.ptrs[pid]['kind'] == 'l']
        if not cands:
            return None
        pid = rnd.choice(cands)
        tgt = self.sch.ptrs[pid]['target']
        vs = [x for x in self.vars_of(env, ('o', tgt), pa, True) if self.path_ok(x, -pid)]
        if vs and rnd.random() < 0.6:
            x = rnd.choice(vs)
            self.used.add((x, -pid))
            return ['back', ['var', x], pid, tid]
        src = self.gen(('o', tgt), env, d, pa)
        if src[0] == 'var':
            if not self.path_ok(src[1], -pid):
                return None
            self.used.add((src[1], -pid))
        elif rnd.random() < 0.35:
            src = ['limit', src, 1]          # backlink of a single object
        return ['back', src, pid, tid]

    def p_proj(self, ty, env, d, pa):
        rnd = self.rnd
        if ty[0] == 't' or ty[0] == 'a':
            return None
        other = self.pick_scalar_or_obj()
        i = rnd.choice((0, 1))
        tty = ('t', ty, other) if i == 0 else ('t', other, ty)
        vs = [x for x in self.vars_of(env, tty, pa) if self.path_ok(x, ('ix', i))]
        if vs and rnd.random() < 0.7:
            x = rnd.choice(vs)
            self.used.add((x, ('ix', i)))
            return ['proj', ['var', x], i]
        src = self.gen(tty, env, d, pa)
        if src[0] == 'var':
            if not self.path_ok(src[1], ('ix', i)):
                return None
            self.used.add((src[1], ('ix', i)))
        return ['proj', src, i]

    def p_tup(self, ty, env, d, pa):
        return ['tup', self.gen(ty[1], env, d, pa), self.gen(ty[2], env, d, pa)]

    def p_enumerate(self, ty, env, d, pa):
        if ty[1] != ('i',):
            return None
        return ['call', 'enumerate', self.gen(ty[2], env, d, pa)]

    def p_count(self, ty, env, d, pa):
        return ['call', 'count', self.gen(self.pick_type(d), env, d, pa)]

    def p_sum(self, ty, env, d, pa):
        return ['call', 'sum', self.gen(('i',), env, d, pa)]

    def p_len(self, ty, env, d, pa):
        return ['call', 'len', self.gen(('s',), env, d, pa)]

    def p_arith(self, ty, env, d, pa):
        return ['call', self.rnd.choice(('add', 'add', 'mul')), self.gen(ty, env, d, pa), self.gen(ty, env, d, pa)]

    def p_cat(self, ty, env, d, pa):
        return ['call', 'cat', self.gen(ty, env, d, pa), self.gen(ty, env, d, pa)]

    def p_tostr(self, ty, env, d, pa):
        return ['call', 'tostr', self.gen(('i',), env, d, pa)]

    def p_unpack(self, ty, env, d, pa):
        return ['call', 'unpack', ['arr', self.gen(ty, env, d, pa), self.gen(ty, env, d, pa)]]

    def p_aget(self, ty, env, d, pa):
        return ['call', 'aget', ['arr', self.gen(ty, env, d, pa), self.gen(ty, env, d, pa)],
                self.gen(('i',), env, min(d, 1), pa)]

    def p_cmp(self, ty, env, d, pa):
        rnd = self.rnd
        t = rnd.choice((('i',), ('i',), ('s',), ('s',), ('o', rnd.choice(list(self.sch.types)))))
        op = rnd.choice(('eq', 'eq', 'neq', 'lt')) if t[0] == 'i' else rnd.choice(('eq', 'eq', 'neq'))
        return ['call', op, self.gen(t, env, d, pa), self.gen(t, env, d, pa)]

    def p_logic(self, ty, env, d, pa):
        rnd = self.rnd
        if rnd.random() < 0.3:
            return ['call', 'not', self.gen(ty, env, d, pa)]
        return ['call', rnd.choice(('and', 'or')), self.gen(ty, env, d, pa), self.gen(ty, env, d, pa)]

    def p_exists(self, ty, env, d, pa):
        return ['exists', self.gen(self.pick_type(d), env, d, pa)]

    def p_in(self, ty, env, d, pa):
        t = (self.rnd.choice('is'),)
        return ['call', 'in', self.gen(t, env, d, pa), self.gen(t, env, d, pa)]

    def p_opteq(self, ty, env, d, pa):
        # the harness makes toy_eval_model's `?=` / `?!=` exact on optional and multi operands
        t = (self.rnd.choice('is'),)
        return ['call', self.rnd.choice(('opteq', 'opteq', 'optneq')), self.gen(t, env, d, pa), self.gen(t, env, d, pa)]

    def p_anyall(self, ty, env, d, pa):
        return ['call', self.rnd.choice(('any', 'all')), self.gen(ty, env, d, pa)]

    def p_shape(self, ty, env, d, pa):
        rnd = self.rnd
        x = self.fresh()
        s = self.gen(ty, env, d, pa)
        els = []
        for i in range(rnd.choice((1, 1, 2, 3))):
            ety = self.pick_type(d)
            if ety[0] in ('a', 'ou'):
                ety = ('i',)
            q = rnd.choice(('-', '-', '-', '-', 'r', 's', 'm', 'rs', 'rm', 'o'))
            body = self.gen(ety, env + [(x, ty, 'shape')], min(d, 2), x)
            self.nel += 1
            els.append(['el', f'z{self.nel}', q, body])
        return ['shape', x, s] + els


def gen_expr(rnd, schema_sx, depth=None, liberal=False, want=None):
    g = Gen(rnd, schema_sx, liberal=liberal)
    if depth is None:
        depth = rnd.choice((1, 2, 2, 3, 3, 4))
    ty = want or g.pick_type(depth)
    if ty[0] == 'a':
        ty = ('i',)
    if ty[0] == 't' and (ty[1][0] == 'o' or ty[2][0] == 'o'):
        # a top-level tuple that contains objects is eta-expanded by the compiler
        # (stmtctx.fini_expression); that output rewriting is outside the calculus
        ty = ('t', ('i',) if ty[1][0] == 'o' else ty[1], ('s',) if ty[2][0] == 'o' else ty[2])
    for _ in range(20):
        try:
            e = g.gen(ty, [], depth, None)
            render(e)
            return e
        except ValueError:
            continue
    return ['lit', '1']


# ----------------------------------------------------------------------------- shrinking

def shrink_candidates(e):
    """smaller expressions: a child hoisted in place of its parent, anywhere in the tree"""
    def rebuild(node, path, new):
        if not path:
            return new
        i = path[0]
        node = list(node)
        if node[0] == 'shape' and i >= 3:
            el = list(node[i])
            el[3] = rebuild(el[3], path[1:], new)
            node[i] = el
        else:
            node[i] = rebuild(node[i], path[1:], new)
        return node

    def positions(node, path):
        yield path, node
        k = node[0]
        if k == 'call':
            idx = range(2, len(node))
        elif k == 'shape':
            idx = [2] + list(range(3, len(node)))
        else:
            idx = CHILD_IDX[k]
        for i in idx:
            child = node[i][3] if (k == 'shape' and i >= 3) else node[i]
            yield from positions(child, path + [i])

    out = []
    for path, node in positions(e, []):
        for c in children(node):
            out.append(rebuild(e, path, c))
        if node[0] == 'lit' and len(node) > 2:
            out.append(rebuild(e, path, node[:2]))
        if node[0] == 'shape' and len(node) > 4:
            for i in range(3, len(node)):
                out.append(rebuild(e, path, node[:i] + node[i + 1:]))
    out.sort(key=size)
    return out
