"""C05 -- backend tables and columns track the schema through every migration.

Proof : coq/theories/C05 -- executable model of the table/column decisions of edb/pgsql/delta.py
        (one flat command per adapted schema command and object) running on a PostgreSQL-like
        catalog; theorems for EVERY sequence of flat commands (hence every DDL history the user
        layer of the model expands), see Props.v.  Gen_Layout.v is regenerated from
        edb/pgsql/types.py by harness/translate/c05_layout.py (fail-closed).
Tie   : correspondence -- generated DDL histories run through the REAL parser, schema delta,
        pgsql/delta adaptation and dbops generation (harness/impl/c05_impl.py); the dbops command
        stream is interpreted by a catalog simulator; per step the acceptance verdict, the
        structural effects and the resulting catalog are compared with the OCaml-extracted model.
Monitors (on the real code only, independent of the model): simulated catalog == what
        edb.pgsql.types.{has_table,get_pointer_storage_info} say for the resulting schema; no
        emitted command would fail in PostgreSQL; renames emit no structural command; the
        compiler's ptrref variant of the storage function agrees; the walked command stream equals
        the structural statements of the generated SQL text; (sampled) the SQL the real query
        compiler emits only addresses tables/columns that exist in the simulated catalog.
"""
from __future__ import annotations

import json
import os
import re
import sys
import time

import lib

PROP = 'C05'
THEOREMS = [
    'C05_tracks', 'C05_layout_spec', 'C05_tracks_layout', 'C05_no_backend_error', 'C05_no_orphans', 'C05_no_missing', 'C05_safe_run_is_run',
    'C05_history_tracks', 'C05_empty_ok', 'C05_rename_free', 'C05_ptrref_agrees', 'C05_named_column_dunder',
]
REFUTED = ['C05_full_refuted']
IMPL = os.path.join(lib.VERIF, 'harness', 'impl', 'c05_impl.py')
sys.path.insert(0, os.path.join(lib.VERIF, 'harness', 'translate'))

NT, NPROP, NLINK, NLP = 6, 4, 4, 3      # name pools: T0..T5, p0..p3 properties, p4..p7 links, q0..q2


def is_link(p):
    return p >= NPROP


# the identifiers behind the numeric names of the model: plain, one leading underscore, needs quoting
# (upper case + dash), two leading underscores (the column is then named after the pointer, not its id:
# Model.dunder = index % 4 == 3)
PNAMES = ['p0', '_p1', 'P-2', '__p3', 'p4', '_p5', 'L-6', '__p7']
LPNAMES = ['q0', '_q1', 'Q-2']
_PLAIN = re.compile(r'[A-Za-z_][A-Za-z0-9_]*$')


def _q(name):
    return name if _PLAIN.match(name) else '`' + name + '`'


def PN(i):
    return _q(PNAMES[i]) if 0 <= i < len(PNAMES) else f'p{i}'


def QN(i):
    return _q(LPNAMES[i]) if 0 <= i < len(LPNAMES) else f'q{i}'


_CANON = {n: f'p{i}' for i, n in enumerate(PNAMES)}
_CANON.update({n: f'q{i}' for i, n in enumerate(LPNAMES)})
_CANON_RE = re.compile(r'(?<![A-Za-z0-9_-])(' + '|'.join(
    re.escape(n) for n in sorted(_CANON, key=len, reverse=True) if _CANON[n] != n) + r')(?![A-Za-z0-9_-])')


def canon_names(x):
    """real identifiers -> the model's p<i> / q<i>, in strings and nested lists"""
    if isinstance(x, str):
        return _CANON_RE.sub(lambda m: _CANON[m.group(1)], x)
    if isinstance(x, list):
        return [canon_names(y) for y in x]
    if isinstance(x, dict):
        return {canon_names(k): canon_names(v) for k, v in x.items()}
    return x


def dunder(p):
    return p % 4 == 3


# ---------------------------------------------------------------- events
# ('CT', n, abstract, [bases]) ('DT', n) ('RT', n, m) ('SA', n, b) ('AB', n, b) ('DB', n, b)
# ('CP', n, p, link, target, multi, req, comp) ('DP', n, p) ('RP', n, p, p2) ('SM', n, p, b)
# ('SR', n, p, b) ('SC', n, p, b, em, tg) ('CL', n, p, q, comp) ('DL', n, p, q) ('RL', n, p, q, q2)
# ('SL', n, p, q, b) ('ST', n, p, tg)     and ('X', text, tag): opaque DDL outside the model's vocabulary

def enc_event(e):
    k = e[0]
    b = lambda x: '1' if x else '0'
    if k == 'CT':
        return f'CT {e[1]} {b(e[2])} ' + (','.join(map(str, e[3])) if e[3] else '-')
    if k in ('DT',):
        return f'DT {e[1]}'
    if k in ('RT', 'AB', 'DB'):
        return f'{k} {e[1]} {e[2]}'
    if k == 'SA':
        return f'SA {e[1]} {b(e[2])}'
    if k == 'CP':
        return f'CP {e[1]} {e[2]} {b(e[3])} {e[4]} {b(e[5])} {b(e[6])} {b(e[7])}'
    if k == 'DP':
        return f'DP {e[1]} {e[2]}'
    if k == 'RP':
        return f'RP {e[1]} {e[2]} {e[3]}'
    if k in ('SM', 'SR'):
        return f'{k} {e[1]} {e[2]} {b(e[3])}'
    if k == 'SC':
        return f'SC {e[1]} {e[2]} {b(e[3])} {b(e[4])} {e[5]}'
    if k == 'CL':
        return f'CL {e[1]} {e[2]} {e[3]} {b(e[4])}'
    if k == 'DL':
        return f'DL {e[1]} {e[2]} {e[3]}'
    if k == 'RL':
        return f'RL {e[1]} {e[2]} {e[3]} {e[4]}'
    if k == 'SL':
        return f'SL {e[1]} {e[2]} {e[3]} {b(e[4])}'
    if k == 'ST':
        return f'ST {e[1]} {e[2]} {e[3]}'
    raise ValueError(e)


def dec_event(s):
    a = s.split()
    k = a[0]
    i = lambda j: int(a[j])
    bb = lambda j: a[j] == '1'
    if k == 'CT':
        return ('CT', i(1), bb(2), [] if a[3] == '-' else [int(x) for x in a[3].split(',')])
    if k == 'DT':
        return ('DT', i(1))
    if k in ('RT', 'AB', 'DB'):
        return (k, i(1), i(2))
    if k == 'SA':
        return ('SA', i(1), bb(2))
    if k == 'CP':
        return ('CP', i(1), i(2), bb(3), i(4), bb(5), bb(6), bb(7))
    if k == 'DP':
        return ('DP', i(1), i(2))
    if k == 'RP':
        return ('RP', i(1), i(2), i(3))
    if k in ('SM', 'SR'):
        return (k, i(1), i(2), bb(3))
    if k == 'SC':
        return ('SC', i(1), i(2), bb(3), bb(4), i(5))
    if k == 'CL':
        return ('CL', i(1), i(2), i(3), bb(4))
    if k == 'DL':
        return ('DL', i(1), i(2), i(3))
    if k == 'RL':
        return ('RL', i(1), i(2), i(3), i(4))
    if k == 'SL':
        return ('SL', i(1), i(2), i(3), bb(4))
    if k == 'ST':
        return ('ST', i(1), i(2), i(3))
    raise ValueError(s)


def coq_event(e):
    k = e[0]
    b = lambda x: 'true' if x else 'false'
    n = lambda x: f'{x}%N'
    if k == 'CT':
        return f'UCreateType {n(e[1])} {b(e[2])} [' + '; '.join(n(x) for x in e[3]) + ']'
    if k == 'DT':
        return f'UDropType {n(e[1])}'
    if k == 'RT':
        return f'URenameType {n(e[1])} {n(e[2])}'
    if k == 'SA':
        return f'USetAbstract {n(e[1])} {b(e[2])}'
    if k == 'AB':
        return f'UAddBase {n(e[1])} {n(e[2])}'
    if k == 'DB':
        return f'UDropBase {n(e[1])} {n(e[2])}'
    if k == 'CP':
        return f'UCreatePtr {n(e[1])} {n(e[2])} {b(e[3])} {n(e[4])} {b(e[5])} {b(e[6])} {b(e[7])}'
    if k == 'DP':
        return f'UDropPtr {n(e[1])} {n(e[2])}'
    if k == 'RP':
        return f'URenamePtr {n(e[1])} {n(e[2])} {n(e[3])}'
    if k == 'SM':
        return f'USetMulti {n(e[1])} {n(e[2])} {b(e[3])}'
    if k == 'SR':
        return f'USetReq {n(e[1])} {n(e[2])} {b(e[3])}'
    if k == 'SC':
        return f'USetComp {n(e[1])} {n(e[2])} {b(e[3])} {b(e[4])} {n(e[5])}'
    if k == 'CL':
        return f'UCreateLP {n(e[1])} {n(e[2])} {n(e[3])} {b(e[4])}'
    if k == 'DL':
        return f'UDropLP {n(e[1])} {n(e[2])} {n(e[3])}'
    if k == 'RL':
        return f'URenameLP {n(e[1])} {n(e[2])} {n(e[3])} {n(e[4])}'
    if k == 'SL':
        return f'USetLPComp {n(e[1])} {n(e[2])} {n(e[3])} {b(e[4])}'
    if k == 'ST':
        return f'USetType {n(e[1])} {n(e[2])} {n(e[3])}'
    raise ValueError(e)


def kw(p):
    return 'link' if is_link(p) else 'property'


def ddl(e):
    """the DDL statement of one event"""
    k = e[0]
    if k == 'X':
        return e[1]
    if k == 'CT':
        ext = (' extending ' + ', '.join(f'T{b}' for b in e[3])) if e[3] else ''
        return f'create {"abstract " if e[2] else ""}type T{e[1]}{ext};'
    if k == 'DT':
        return f'drop type T{e[1]};'
    if k == 'RT':
        return f'alter type T{e[1]} rename to T{e[2]};'
    if k == 'SA':
        return f'alter type T{e[1]} {"set" if e[2] else "reset"} abstract;'
    if k == 'AB':
        return f'alter type T{e[1]} extending T{e[2]} last;'
    if k == 'DB':
        return f'alter type T{e[1]} drop extending T{e[2]};'
    if k == 'CP':
        _, n, p, link, tg, multi, req, comp = e
        quals = ('required ' if req and not comp else '') + ('multi ' if multi else '')
        if comp:
            if link:
                ex = f'T{tg}' if multi else f'(select T{tg} limit 1)'
            else:
                ex = "{'x', 'y'}" if multi else "'x'"
            return f'alter type T{n} {{ create {quals}{"link" if link else "property"} {PN(p)} := {ex}; }};'
        tgt = f'T{tg}' if link else 'str'
        return f'alter type T{n} {{ create {quals}{"link" if link else "property"} {PN(p)}: {tgt}; }};'
    if k == 'DP':
        return f'alter type T{e[1]} {{ drop {kw(e[2])} {PN(e[2])}; }};'
    if k == 'RP':
        return f'alter type T{e[1]} {{ alter {kw(e[2])} {PN(e[2])} rename to {PN(e[3])}; }};'
    if k == 'SM':
        if e[3]:
            return f'alter type T{e[1]} {{ alter {kw(e[2])} {PN(e[2])} set multi; }};'
        return (f'alter type T{e[1]} {{ alter {kw(e[2])} {PN(e[2])} '
                f'set single using (select .{PN(e[2])} limit 1); }};')
    if k == 'SR':
        return f'alter type T{e[1]} {{ alter {kw(e[2])} {PN(e[2])} set {"required" if e[3] else "optional"}; }};'
    if k == 'SC':
        _, n, p, b, em, tg = e
        if not b:
            return f'alter type T{n} {{ alter {kw(p)} {PN(p)} reset expression; }};'
        if is_link(p):
            ex = f'T{tg}' if em else f'(select T{tg} limit 1)'
        else:
            ex = "{'x', 'y'}" if em else "'x'"
        return f'alter type T{n} {{ alter {kw(p)} {PN(p)} using ({ex}); }};'
    if k == 'CL':
        body = f"{QN(e[3])} := 'x'" if e[4] else f'{QN(e[3])}: str'
        return f'alter type T{e[1]} {{ alter link {PN(e[2])} {{ create property {body}; }} }};'
    if k == 'DL':
        return f'alter type T{e[1]} {{ alter link {PN(e[2])} {{ drop property {QN(e[3])}; }} }};'
    if k == 'RL':
        return f'alter type T{e[1]} {{ alter link {PN(e[2])} {{ alter property {QN(e[3])} rename to {QN(e[4])}; }} }};'
    if k == 'SL':
        act = "using ('x')" if e[4] else 'reset expression'
        return f'alter type T{e[1]} {{ alter link {PN(e[2])} {{ alter property {QN(e[3])} {act}; }} }};'
    if k == 'ST':
        _, n, p, tg = e
        if is_link(p):
            ex = f'(select T{tg} limit 1)' if (n + p + tg) % 2 == 0 else f'.{PN(p)}[is T{tg}]'
            return f'alter type T{n} {{ alter link {PN(p)} set type T{tg} using ({ex}); }};'
        return f'alter type T{n} {{ alter property {PN(p)} set type str using (<str>.{PN(p)}); }};'
    raise ValueError(e)


# ---------------------------------------------------------------- generator guidance / finding tracker

class Guide:
    """approximate abstract state used (a) to steer the generator towards applicable events and
    (b) to evaluate the known-finding predicates over the history.  It is NOT an oracle: verdicts
    come from the real code (monitors) and from the Coq model (correspondence)."""

    def __init__(self):
        self.types = {}          # n -> {'abs', 'bases': [n], 'own': {p: {...}}}
        self.lost = set()        # (owner type n, p): link that went computed->stored holding stored lprops
        self.cardusing = set()   # (owner type n, p): stored single property given a multi USING expression
        self.orphan_types = set()  # types whose table keeps a column of such a property after it was dropped
        self.f4 = {}             # (owner type n, current name p) -> names the pointer had since a rename
        #                          from / to a `__` name (its column is named after the pointer: C05-F4)
        self.f4_dead = set()     # (owner type n, frozenset(names)) after the pointer itself was dropped

    def anc(self, n, seen=None):
        seen = seen if seen is not None else []
        for b in self.types.get(n, {}).get('bases', []):
            if b not in seen and b in self.types:
                seen.append(b)
                self.anc(b, seen)
        return seen

    def desc(self, n):
        return [m for m in self.types if n in self.anc(m)]

    def cone(self, n):
        return [n] + self.desc(n)

    def vis(self, n):
        out = dict(self.types[n]['own'])
        for a in self.anc(n):
            for p, v in self.types[a]['own'].items():
                out.setdefault(p, v)
        return out

    def owner(self, n, p):
        if p in self.types[n]['own']:
            return n
        for a in self.anc(n):
            if p in self.types[a]['own']:
                return a
        return None

    def targeted(self, n):
        return any(v['link'] and v['tg'] == n for m, t in self.types.items() if m != n for v in t['own'].values())

    def rename_key(self, s, old, new):
        for x in list(s):
            if x == old:
                s.discard(x)
                s.add(new)

    def apply(self, e):
        """update for an event the real code accepted"""
        k = e[0]
        T = self.types
        try:
            if k == 'CT':
                T[e[1]] = {'abs': e[2], 'bases': [b for b in e[3] if b in T], 'own': {}}
            elif k == 'DT':
                T.pop(e[1], None)
                self.lost = {x for x in self.lost if x[0] != e[1]}
                self.cardusing = {x for x in self.cardusing if x[0] != e[1]}
                self.orphan_types.discard(e[1])
                self.f4 = {k2: v for k2, v in self.f4.items() if k2[0] != e[1]}
                self.f4_dead = {x for x in self.f4_dead if x[0] != e[1]}
            elif k == 'RT':
                T[e[2]] = T.pop(e[1])
                for t in T.values():
                    t['bases'] = [e[2] if b == e[1] else b for b in t['bases']]
                    for v in t['own'].values():
                        if v['link'] and v['tg'] == e[1]:
                            v['tg'] = e[2]
                self.lost = {(e[2] if a == e[1] else a, p) for a, p in self.lost}
                self.cardusing = {(e[2] if a == e[1] else a, p) for a, p in self.cardusing}
                self.orphan_types = {(e[2] if a == e[1] else a) for a in self.orphan_types}
                self.f4 = {((e[2] if a == e[1] else a), pp): v for (a, pp), v in self.f4.items()}
                self.f4_dead = {((e[2] if a == e[1] else a), v) for a, v in self.f4_dead}
            elif k == 'SA':
                T[e[1]]['abs'] = e[2]
            elif k == 'AB':
                if e[2] not in T[e[1]]['bases']:
                    T[e[1]]['bases'].append(e[2])
            elif k == 'DB':
                T[e[1]]['bases'] = [b for b in T[e[1]]['bases'] if b != e[2]]
            elif k == 'CP':
                _, n, p, link, tg, multi, req, comp = e
                T[n]['own'][p] = {'link': link, 'tg': tg, 'multi': multi, 'req': req, 'comp': comp, 'lps': {}}
            elif k == 'DP':
                T[e[1]]['own'].pop(e[2], None)
                self.lost.discard((e[1], e[2]))
                if (e[1], e[2]) in self.cardusing:
                    self.orphan_types.add(e[1])     # the column outlives the property, nameless
                if (e[1], e[2]) in self.f4:
                    self.f4_dead.add((e[1], frozenset(self.f4.pop((e[1], e[2])))))
                self.cardusing.discard((e[1], e[2]))
            elif k == 'RP':
                T[e[1]]['own'][e[3]] = T[e[1]]['own'].pop(e[2])
                self.rename_key(self.lost, (e[1], e[2]), (e[1], e[3]))
                self.rename_key(self.cardusing, (e[1], e[2]), (e[1], e[3]))
                names = self.f4.pop((e[1], e[2]), None)
                if names is not None or ((dunder(e[2]) or dunder(e[3])) and e[2] != e[3]):
                    self.f4[(e[1], e[3])] = (names or set()) | {e[2], e[3]}
            elif k == 'ST':
                o = self.owner(e[1], e[2])
                if T[o]['own'][e[2]]['link']:
                    T[o]['own'][e[2]]['tg'] = e[3]
            elif k == 'SM':
                o = self.owner(e[1], e[2])
                T[o]['own'][e[2]]['multi'] = e[3]
            elif k == 'SR':
                o = self.owner(e[1], e[2])
                T[o]['own'][e[2]]['req'] = e[3]
            elif k == 'SC':
                _, n, p, b, em, tg = e
                o = self.owner(n, p)
                v = T[o]['own'][p]
                if b:
                    if not v['comp'] and not v['link'] and em and not v['multi']:
                        self.cardusing.add((o, p))
                    v['comp'] = True
                    v['multi'] = em
                else:
                    if v['comp'] and v['link'] and any(not c for c in v['lps'].values()):
                        self.lost.add((o, p))
                    v['comp'] = False
            elif k == 'CL':
                o = self.owner(e[1], e[2])
                T[o]['own'][e[2]]['lps'][e[3]] = e[4]
            elif k == 'DL':
                o = self.owner(e[1], e[2])
                T[o]['own'][e[2]]['lps'].pop(e[3], None)
            elif k == 'RL':
                o = self.owner(e[1], e[2])
                l = T[o]['own'][e[2]]['lps']
                l[e[4]] = l.pop(e[3])
            elif k == 'SL':
                o = self.owner(e[1], e[2])
                T[o]['own'][e[2]]['lps'][e[3]] = e[4]
        except (KeyError, TypeError):
            pass

    # ---- known-finding predicates: does a monitor failure fall under a recorded defect?
    def lost_tables(self):
        """names of the link tables whose link-property columns were lost (C05-F1)"""
        out = set()
        for (o, p) in self.lost:
            if o in self.types:
                for d in self.cone(o):
                    out.add(f'P:T{d}.p{p}')
        return out

    def computed_links_with_stored_lps(self):
        """(type name in the owner's cone, link name) of computed links that own a stored link property (C05-F3)"""
        out = set()
        for o, t in self.types.items():
            for p, v in t['own'].items():
                if v['link'] and v['comp'] and any(not c for c in v['lps'].values()):
                    for d in self.cone(o):
                        out.add((d, p))
        return out

    def f4_cols(self):
        """{table: names} of the columns that may be missing / orphaned / nameless because of C05-F4"""
        out = {}
        for (o, _p), names in list(self.f4.items()) + [((o, None), set(n)) for o, n in self.f4_dead]:
            if o in self.types:
                for d in self.cone(o):
                    out.setdefault(f'T:T{d}', set()).update(f'p{x}' for x in names)
        return out

    def orphan_cols(self):
        """(table, column) left behind by C05-F2"""
        out = set()
        for (o, p) in self.cardusing:
            if o in self.types:
                out.add((f'T:T{o}', f'p{p}'))
        for o in self.orphan_types:
            out.add((f'T:T{o}', '?'))
        return out


def pick(rnd, xs):
    xs = list(xs)
    return rnd.choice(xs) if xs else None


def gen_event(rnd, g: Guide, prof):
    """one event, mostly applicable to the guidance state"""
    T = g.types
    wild = rnd.random() < prof.get('wild', 0.06)
    names = list(T)
    anyT = lambda: rnd.randrange(NT) if (wild or not names) else rnd.choice(names)
    kinds = prof['kinds']
    k = rnd.choices([x for x, _ in kinds], [w for _, w in kinds])[0]
    if not names and k not in ('CT',):
        k = 'CT'
    if not wild:
        # steer towards events that can apply: fall back to creating what is missing
        has_ptr = [n for n in names if T[n]['own']]
        has_link = [n for n in names if any(v['link'] for v in T[n]['own'].values())]
        has_lp = [n for n in names if any(v['link'] and v['lps'] for v in T[n]['own'].values())]
        if k in ('DP', 'RP', 'SM', 'SR', 'SC', 'ST') and not has_ptr:
            k = 'CP'
        if k == 'CL' and not has_link:
            k = 'CP'
        if k in ('DL', 'RL', 'SL') and not has_lp:
            k = 'CL' if has_link else 'CP'
        if k == 'DB' and not any(T[n]['bases'] for n in names):
            k = 'CT'
        if k == 'AB' and len(names) < 2:
            k = 'CT'
    if k == 'CT':
        free = [n for n in range(NT) if n not in T]
        n = pick(rnd, free) if (free and not wild) else rnd.randrange(NT)
        bases = []
        if names and rnd.random() < prof.get('inherit', 0.5):
            cand = list(names)
            rnd.shuffle(cand)
            used = set()
            for b in cand[: rnd.choice((1, 1, 2, 2, 3))]:
                vn = set(g.vis(b))
                if wild or not (vn & used):
                    bases.append(b)
                    used |= vn
        return ('CT', n, rnd.random() < 0.2, bases)
    if k == 'DT':
        cand = [n for n in names if not g.desc(n) and not g.targeted(n)]
        n = pick(rnd, cand) if (cand and not wild and rnd.random() < 0.85) else anyT()
        return ('DT', n)
    if k == 'RT':
        free = [n for n in range(NT) if n not in T]
        m = pick(rnd, free) if (free and not wild) else rnd.randrange(NT)
        return ('RT', anyT(), m)
    if k == 'SA':
        n = anyT()
        return ('SA', n, (not T[n]['abs']) if n in T and rnd.random() < 0.8 else rnd.random() < 0.5)
    if k == 'AB':
        n = anyT()
        cand = [b for b in names if n in T and b not in g.cone(n) and b not in T[n]['bases']
                and all(not (set(g.vis(b)) & set(g.vis(d))) for d in g.cone(n))]
        if not cand and not wild:
            for n2 in rnd.sample(names, len(names)):
                cand = [b for b in names if b not in g.cone(n2) and b not in T[n2]['bases']
                        and all(not (set(g.vis(b)) & set(g.vis(d))) for d in g.cone(n2))]
                if cand:
                    n = n2
                    break
        b = pick(rnd, cand) if (cand and not wild and rnd.random() < 0.95) else anyT()
        return ('AB', n, b)
    if k == 'DB':
        cand = [(n, b) for n in names for b in T[n]['bases']]
        if cand and not wild:
            return ('DB',) + rnd.choice(cand)
        return ('DB', anyT(), anyT())
    # pointer-level events
    n = anyT()
    if not wild:
        if k in ('DP', 'RP', 'SM', 'SR', 'SC', 'ST') and has_ptr:
            n = rnd.choice(has_ptr)
        elif k == 'CL' and has_link:
            n = rnd.choice(has_link)
        elif k in ('DL', 'RL', 'SL') and has_lp:
            n = rnd.choice(has_lp)
    own = dict(T[n]['own']) if n in T else {}
    vis = g.vis(n) if n in T else {}
    if k == 'CP':
        taken = set()
        if n in T:
            for d in g.cone(n):
                taken |= set(g.vis(d))
        link = rnd.random() < 0.5 and bool(names)
        pool = [p for p in (range(NPROP, NPROP + NLINK) if link else range(NPROP)) if wild or p not in taken]
        p = pick(rnd, pool)
        if p is None:
            p = rnd.randrange(NPROP, NPROP + NLINK) if link else rnd.randrange(NPROP)
        comp = rnd.random() < prof.get('comp', 0.2)
        multi = rnd.random() < 0.4
        req = (not comp) and rnd.random() < 0.2
        return ('CP', n, p, link, anyT() if link else 0, multi, req, comp)
    ownp = list(own)
    if prof.get('inherited_alter', 0.08) > rnd.random() or wild:
        ownp = list(vis) or ownp
    if k in ('CL', 'DL', 'RL', 'SL'):
        links = [p for p in ownp if vis.get(p, own.get(p, {})).get('link')]
        if k != 'CL' and not wild:
            links = [p for p in links if vis.get(p, {}).get('lps')] or links
        p = pick(rnd, links) if (links and not wild) else rnd.randrange(NPROP, NPROP + NLINK)
        lps = dict(vis.get(p, {}).get('lps', {})) if p in vis else {}
        if k == 'CL':
            free = [q for q in range(NLP) if q not in lps]
            q = pick(rnd, free) if (free and not wild) else rnd.randrange(NLP)
            return ('CL', n, p, q, rnd.random() < prof.get('lpcomp', 0.2))
        q = pick(rnd, lps) if (lps and not wild) else rnd.randrange(NLP)
        if k == 'DL':
            return ('DL', n, p, q)
        if k == 'RL':
            free = [x for x in range(NLP) if x not in lps]
            q2 = pick(rnd, free) if (free and not wild) else rnd.randrange(NLP)
            return ('RL', n, p, q, q2)
        cur = lps.get(q, False)
        return ('SL', n, p, q, (not cur) if rnd.random() < 0.9 else cur)
    p = pick(rnd, ownp) if (ownp and not wild) else rnd.randrange(NPROP + NLINK)
    v = vis.get(p) or {'link': is_link(p), 'tg': 0, 'multi': False, 'comp': False, 'req': False, 'lps': {}}
    if k == 'DP':
        return ('DP', n, p)
    if k == 'RP':
        taken = set()
        if n in T:
            for d in g.cone(n):
                taken |= set(g.vis(d))
        pool = [x for x in (range(NPROP, NPROP + NLINK) if is_link(p) else range(NPROP)) if wild or x not in taken]
        p2 = pick(rnd, pool)
        if p2 is None:
            p2 = p
        return ('RP', n, p, p2)
    if k == 'SM':
        return ('SM', n, p, (not v['multi']) if rnd.random() < 0.95 else v['multi'])
    if k == 'SR':
        return ('SR', n, p, (not v['req']) if rnd.random() < 0.9 else v['req'])
    if k == 'ST':
        if not wild:
            stored = [x for x in ownp if not vis.get(x, {}).get('comp')]
            if stored:
                p = rnd.choice(stored)
        return ('ST', n, p, anyT())
    if k == 'SC':
        b = (not v['comp']) if rnd.random() < 0.9 else v['comp']
        em = v['multi']
        if rnd.random() < prof.get('cardusing', 0.0):
            em = not em
        tg = v['tg'] if (v['link'] and v['tg'] in T) else (pick(rnd, names) or 0)
        return ('SC', n, p, b, em, tg)
    raise ValueError(k)


PROFILES = {
    # the model's fragment, mostly applicable events
    'model': {'kinds': [('CT', 10), ('DT', 4), ('RT', 3), ('SA', 2), ('AB', 4), ('DB', 4), ('CP', 22), ('DP', 6),
                        ('RP', 4), ('SM', 12), ('SR', 4), ('SC', 12), ('CL', 10), ('DL', 5), ('RL', 2),
                        ('SL', 6), ('ST', 7)],
              'wild': 0.04, 'inherit': 0.55, 'comp': 0.2},
    # link-property heavy
    'lprops': {'kinds': [('CT', 6), ('DT', 2), ('AB', 2), ('DB', 2), ('CP', 16), ('DP', 5), ('SM', 14), ('SC', 14),
                         ('CL', 18), ('DL', 9), ('RL', 2), ('SL', 10), ('RP', 3), ('RT', 1), ('ST', 8)],
               'wild': 0.02, 'inherit': 0.6, 'comp': 0.15, 'lpcomp': 0.3},
    # inheritance heavy
    'bases': {'kinds': [('CT', 16), ('DT', 6), ('AB', 12), ('DB', 12), ('CP', 20), ('DP', 6), ('SM', 8),
                        ('SC', 8), ('CL', 6), ('DL', 3), ('SL', 3), ('RT', 3), ('RP', 4), ('SA', 3), ('ST', 6)],
              'wild': 0.03, 'inherit': 0.85, 'comp': 0.15},
    # malformed / edge stream: names that do not exist, inherited pointers altered, clashes
    'wild': {'kinds': [('CT', 10), ('DT', 8), ('RT', 5), ('SA', 2), ('AB', 8), ('DB', 6), ('CP', 16), ('DP', 8),
                       ('RP', 6), ('SM', 8), ('SR', 3), ('SC', 8), ('CL', 6), ('DL', 4), ('RL', 2), ('SL', 4), ('ST', 5)],
             'wild': 0.35, 'inherit': 0.7, 'comp': 0.25, 'inherited_alter': 0.4, 'cardusing': 0.25},
}


def gen_history(rnd, prof_name, nsteps):
    g = Guide()
    prof = PROFILES[prof_name]
    evs = []
    for _ in range(nsteps):
        e = gen_event(rnd, g, prof)
        evs.append(e)
        # optimistic guidance: assume applicable events are accepted (the verdict run re-tracks
        # with the real acceptance)
        if plausible(g, e):
            g.apply(e)
    return evs


def plausible(g, e):
    T = g.types
    k = e[0]
    if k == 'CT':
        return e[1] not in T and all(b in T for b in e[3])
    if k == 'X':
        return False
    n = e[1]
    if n not in T:
        return False
    if k == 'DT':
        return not g.desc(n) and not g.targeted(n)
    if k == 'RT':
        return e[2] not in T
    if k in ('AB',):
        return e[2] in T and e[2] not in g.cone(n)
    if k == 'DB':
        return e[2] in T[n]['bases']
    if k == 'SA':
        return True
    if k == 'CP':
        return e[2] not in g.vis(n) and (not e[3] or e[4] in T)
    p = e[2]
    if p not in T[n]['own']:
        return False
    v = T[n]['own'][p]
    if k in ('DP', 'SM', 'SR', 'SC'):
        return True
    if k == 'ST':
        return not v['comp'] and (not v['link'] or e[3] in T)
    if k == 'RP':
        return e[3] not in g.vis(n)
    if k == 'CL':
        return v['link'] and e[3] not in v['lps']
    if k in ('DL', 'SL'):
        return e[3] in v['lps']
    if k == 'RL':
        return e[3] in v['lps'] and e[4] not in v['lps']
    return False


# opaque DDL outside the model's vocabulary (monitors only); {T}/{P}/{L} are filled with names that
# exist in the guidance state
RICH_TEMPLATES = [
    ('constraint', 'alter type T{T} {{ alter property p{P} {{ create constraint exclusive; }} }};'),
    ('constraint-drop', 'alter type T{T} {{ alter property p{P} {{ drop constraint exclusive; }} }};'),
    ('index', 'alter type T{T} {{ create index on (.p{P}); }};'),
    ('index-drop', 'alter type T{T} {{ drop index on (.p{P}); }};'),
    ('default', "alter type T{T} {{ alter property p{P} {{ set default := 'd'; }} }};"),
    ('default-reset', 'alter type T{T} {{ alter property p{P} {{ reset default; }} }};'),
    ('settype', 'alter type T{T} {{ alter property p{P} {{ set type int64 using (1); }} }};'),
    ('settype-back', "alter type T{T} {{ alter property p{P} {{ set type str using ('s'); }} }};"),
    ('settype-multi', 'alter type T{T} {{ alter property p{P} {{ set type int64 using (<int64>{{1, 2}}); }} }};'),
    ('settype-link-self', 'alter type T{T} {{ alter link p{L} {{ set type T{T2} using (<T{T2}>{{}}); }} }};'),
    ('required-using', "alter type T{T} {{ alter property p{P} {{ set required using ('r'); }} }};"),
    ('optional', 'alter type T{T} {{ alter {K} p{A} {{ set optional; }} }};'),
    ('readonly', 'alter type T{T} {{ alter {K} p{A} {{ set readonly := true; }} }};'),
    ('annotation', "alter type T{T} {{ create annotation title := 'x'; }};"),
    ('otd', 'alter type T{T} {{ alter link p{L} {{ on target delete allow; }} }};'),
    ('otd2', 'alter type T{T} {{ alter link p{L} {{ on target delete delete source; }} }};'),
    ('osd', 'alter type T{T} {{ alter link p{L} {{ on source delete delete target; }} }};'),
    ('abslink', 'create abstract link al{N} {{ create property aq: str; }};'),
    ('abslink-prop', 'alter abstract link al{N} {{ create property aq2: int64; }};'),
    ('abslink-dropprop', 'alter abstract link al{N} {{ drop property aq2; }};'),
    ('abslink-use', 'alter type T{T} {{ create link xl{N} extending al{N}: T{T2}; }};'),
    ('abslink-use-multi', 'alter type T{T} {{ create multi link xm{N} extending al{N}: T{T2}; }};'),
    ('abslink-unuse', 'alter type T{T} {{ drop link xl{N}; }};'),
    ('abslink-drop', 'drop abstract link al{N};'),
    ('absprop', 'create abstract property ap{N};'),
    ('absprop-use', 'alter type T{T} {{ create multi property xp{N} extending ap{N}: str; }};'),
    ('absprop-drop', 'drop abstract property ap{N};'),
    ('scalar', 'create scalar type sc{N} extending str;'),
    ('scalar-prop', 'alter type T{T} {{ create property xs{N}: sc{N}; }};'),
    ('enum', 'create scalar type en{N} extending enum<a, b>;'),
    ('enum-prop', 'alter type T{T} {{ create multi property xe{N}: en{N}; }};'),
    ('array-prop', 'alter type T{T} {{ create property xa{N}: array<str>; }};'),
    ('tuple-prop', 'alter type T{T} {{ create property xt{N}: tuple<a: str, b: int64>; }};'),
    ('drop-x', 'alter type T{T} {{ drop property xa{N}; }};'),
    ('alias', 'create alias Al{N} := T{T} {{ z := 1 }};'),
    ('alias-drop', 'drop alias Al{N};'),
    ('overload', 'alter type T{T} {{ alter {K} p{A} {{ set owned; }} }};'),
    ('unoverload', 'alter type T{T} {{ alter {K} p{A} {{ drop owned; }} }};'),
    ('overloaded-create', 'alter type T{T} {{ create overloaded required property p{P}: str; }};'),
    ('single-using-count', 'alter type T{T} {{ alter property p{P} {{ set single using (assert_single(.p{P})); }} }};'),
    ('multi', 'alter type T{T} {{ alter {K} p{A} {{ set multi; }} }};'),
    ('module', 'create module m{N};'),
    ('module-type', 'create type m{N}::MT {{ create multi property tags: str; create link self: m{N}::MT {{ create property w: str; }} }};'),
    ('module-type-drop', 'drop type m{N}::MT;'),
    ('access-policy', 'alter type T{T} {{ create access policy ap allow all using (true); }};'),
    ('trigger', "alter type T{T} {{ create trigger tr after insert for each do (select 1); }};"),
    ('rewrite', "alter type T{T} {{ alter property p{P} {{ create rewrite insert using ('w'); }} }};"),
    ('global', 'create global g{N} -> str;'),
    ('function', "create function f{N}(x: str) -> str using (x ++ 'a');"),
    ('computed-backlink', 'alter type T{T} {{ create multi link xb{N} := .<p{L}[is T{T2}]; }};'),
]


def gen_rich_history(rnd, nsteps):
    """vocabulary events interleaved with opaque statements; monitors only"""
    g = Guide()
    prof = dict(PROFILES['model'])
    prof['cardusing'] = 0.15
    prof['inherited_alter'] = 0.2
    evs = []
    for _ in range(nsteps):
        if g.types and rnd.random() < 0.4:
            tag, tmpl = rnd.choice(RICH_TEMPLATES)
            n = rnd.choice(list(g.types))
            vis = g.vis(n)
            props = [p for p, v in vis.items() if not v['link']] or list(range(NPROP))
            links = [p for p, v in vis.items() if v['link']] or list(range(NPROP, NPROP + NLINK))
            anyp = list(vis) or list(range(NPROP + NLINK))
            a = rnd.choice(anyp)
            tmpl = tmpl.replace('p{P}', '{P}').replace('p{L}', '{L}').replace('p{A}', '{A}')
            txt = tmpl.format(T=n, T2=rnd.choice(list(g.types)), P=PN(rnd.choice(props)),
                              L=PN(rnd.choice(links)), A=PN(a), K=kw(a), N=rnd.randrange(3))
            evs.append(('X', txt, tag))
        else:
            e = gen_event(rnd, g, prof)
            evs.append(e)
            if plausible(g, e):
                g.apply(e)
    return evs


# ---------------------------------------------------------------- cases

def enc_case(evs):
    """model line (vocabulary events only)"""
    return ';'.join(enc_event(e) for e in evs)


def dec_case(line):
    return [dec_event(x) for x in line.split(';') if x.strip()]


def impl_case(cid, evs, sql=False, mig=False):
    steps = []
    for e in evs:
        st = {'ddl': ddl(e), 'k': 'rename' if e[0] in ('RT', 'RP', 'RL') else e[0]}
        steps.append(st)
    return json.dumps({'id': cid, 'steps': steps, 'sql': sql, 'mig': mig})


def corpus():
    p = os.path.join(lib.VERIF, 'corpus', PROP)
    out = []
    if os.path.isdir(p):
        for f in sorted(os.listdir(p)):
            if f.endswith('.json'):
                out.append(json.load(open(os.path.join(p, f)))['case'])
    return out


def exhaustive_small():
    """every ordering-relevant combination on ONE pointer: create it as (kind, multi, computed), in a
    type with one subtype, then every sequence of two alterations, then drop"""
    alts = ['SM', 'SC', 'CL', 'DL', 'SL', 'DP', 'ST']
    out = []
    for link in (False, True):
        p = NPROP if link else 0
        for multi in (False, True):
            for comp in (False, True):
                for a1 in alts:
                    for a2 in alts:
                        evs = [('CT', 0, False, []), ('CT', 1, False, []),
                               ('CP', 1, p, link, 0, multi, False, comp), ('CT', 2, False, [1])]
                        g = Guide()
                        for e in evs:
                            g.apply(e)
                        ok = True
                        for a in (a1, a2):
                            v = g.types[1]['own'].get(p)
                            if v is None:
                                ok = False
                                break
                            if a == 'SM':
                                e = ('SM', 1, p, not v['multi'])
                            elif a == 'SC':
                                e = ('SC', 1, p, not v['comp'], v['multi'], 0)
                            elif a == 'CL':
                                if not link:
                                    ok = False
                                    break
                                e = ('CL', 1, p, len(v['lps']), False)
                            elif a == 'DL':
                                if not v['lps']:
                                    ok = False
                                    break
                                e = ('DL', 1, p, list(v['lps'])[0])
                            elif a == 'SL':
                                if not v['lps']:
                                    ok = False
                                    break
                                q = list(v['lps'])[0]
                                e = ('SL', 1, p, q, not v['lps'][q])
                            elif a == 'ST':
                                if v['comp']:
                                    ok = False
                                    break
                                e = ('ST', 1, p, 0)
                            else:
                                e = ('DP', 1, p)
                            evs.append(e)
                            g.apply(e)
                        if not ok:
                            continue
                        evs += [('DT', 2), ('DT', 1)]
                        out.append(evs)
    # the same with one stored link property present from the start
    for multi in (False, True):
        for a1 in alts:
            for a2 in alts:
                for a3 in ('SM', 'SC', 'DL', 'DP', 'ST'):
                    p = NPROP
                    evs = [('CT', 0, False, []), ('CT', 1, False, []), ('CP', 1, p, True, 0, multi, False, False),
                           ('CL', 1, p, 0, False), ('CT', 2, False, [1])]
                    g = Guide()
                    for e in evs:
                        g.apply(e)
                    ok = True
                    for a in (a1, a2, a3):
                        v = g.types[1]['own'].get(p)
                        if v is None:
                            ok = False
                            break
                        if a == 'SM':
                            e = ('SM', 1, p, not v['multi'])
                        elif a == 'SC':
                            e = ('SC', 1, p, not v['comp'], v['multi'], 0)
                        elif a == 'CL':
                            e = ('CL', 1, p, max(list(v['lps']) + [0]) + 1, False)
                        elif a == 'DL':
                            if not v['lps']:
                                ok = False
                                break
                            e = ('DL', 1, p, list(v['lps'])[0])
                        elif a == 'SL':
                            if not v['lps']:
                                ok = False
                                break
                            q = list(v['lps'])[0]
                            e = ('SL', 1, p, q, not v['lps'][q])
                        elif a == 'ST':
                            if v['comp']:
                                ok = False
                                break
                            e = ('ST', 1, p, 0)
                        else:
                            e = ('DP', 1, p)
                        evs.append(e)
                        g.apply(e)
                    if ok:
                        evs += [('DT', 2), ('DT', 1)]
                        out.append(evs)
    return out


def gen_cases(tier):
    rnd = lib.rng('C05')
    model_cases = [dec_case(c) for c in corpus()]
    ex = exhaustive_small()
    if tier == 'quick':
        # a seeded sample of the exhaustive family + all of it in the thorough tier
        idx = sorted(rnd.sample(range(len(ex)), min(len(ex), 60)))
        model_cases += [ex[i] for i in idx]
        plan = [('model', 45, (8, 18)), ('lprops', 40, (8, 18)), ('bases', 40, (8, 18)), ('wild', 30, (6, 16))]
        nrich = 35
    else:
        model_cases += ex
        plan = [('model', 450, (8, 28)), ('lprops', 350, (8, 24)), ('bases', 350, (8, 24)), ('wild', 220, (6, 20))]
        nrich = 280
    profs = ['corpus/exhaustive'] * len(model_cases)
    for name, cnt, (lo, hi) in plan:
        for _ in range(cnt):
            model_cases.append(gen_history(rnd, name, rnd.randint(lo, hi)))
            profs.append(name)
    rich = [gen_rich_history(rnd, rnd.randint(8, 24)) for _ in range(nrich)]
    return model_cases, profs, rich


# ---------------------------------------------------------------- running

def run_impl(lines, nproc=8):
    """like lib.parallel_lines, but the chunking is by cost (a case is a whole history, ~0.1 s per
    step), not by 200 lines"""
    import subprocess
    from concurrent.futures import ThreadPoolExecutor
    if not lines:
        return []
    nproc = max(1, min(nproc, len(lines) // 6 or 1))
    # round-robin so that every worker gets the same mix of cheap and expensive histories
    buckets = [[] for _ in range(nproc)]
    for i, l in enumerate(lines):
        buckets[i % nproc].append((i, l))

    def one(bucket):
        argv = [lib.PY, IMPL, lib.REPO, 'hist']
        p = subprocess.run(argv, input='\n'.join(l for _, l in bucket) + '\n', env=lib.impl_env(),
                           stdout=subprocess.PIPE, stderr=subprocess.PIPE, text=True, timeout=7200)
        if p.returncode != 0:
            raise RuntimeError(f'{argv}: rc={p.returncode}\n{p.stderr[-3000:]}')
        out = p.stdout.split('\n')
        if out and out[-1] == '':
            out.pop()
        if len(out) != len(bucket):
            raise RuntimeError(f'{argv}: {len(out)} results for {len(bucket)} cases\n{p.stderr[-2000:]}')
        return out
    with ThreadPoolExecutor(nproc) as ex:
        res = list(ex.map(one, buckets))
    final = [None] * len(lines)
    for bucket, outs in zip(buckets, res):
        for (i, _), o in zip(bucket, outs):
            final[i] = o
    return final


def impl_canon(step):
    """canonical 'ok <effects> # <catalog>' of an accepted impl step: identifiers mapped to the model's
    p<i>/q<i>; the temporary `??<id>_<rand>` column of _alter_pointer_type is removed when it was both
    added and dropped within the step (the model does not have it; a leftover stays and is reported)"""
    ops = list(step.get('ops', []))
    temps = {}
    for o in ops:
        a = o.split(' ')
        if len(a) == 3 and a[2].startswith('??'):
            temps.setdefault((a[1], a[2]), []).append(a[0])
    balanced = {k2 for k2, v in temps.items() if sorted(v) == ['AC', 'DC']}
    ops = [o for o in ops if not (len(o.split(' ')) == 3 and (o.split(' ')[1], o.split(' ')[2]) in balanced)]
    effs = ','.join(sorted(canon_names(ops)))
    cat = '&'.join(f'{t}={",".join(sorted(cols))}' for t, cols in sorted(canon_names(step.get('cat', {})).items()))
    return f'ok {effs} # {cat}'.strip()


REJ = ('rejected', 'rejected-ise', 'pg-rejected', 'pg-ise')


def compare_case(evs, impl, model_line):
    """-> dict(status=..., first=index of first disagreement or None, compared=n steps compared,
               oos=bool, detail=...)"""
    msteps = [x.strip() for x in model_line.split('|')]
    isteps = impl.get('steps', [])
    res = {'compared': 0, 'mismatch': None, 'oos': False, 'abstain': False, 'model_stuck': False}
    if 'harness_error' in impl or len(isteps) != len(evs) or len(msteps) != len(evs):
        res['mismatch'] = (0, 'harness', json.dumps(impl)[:300], model_line[:300])
        return res
    for i, (ms, st) in enumerate(zip(msteps, isteps)):
        s = st['status']
        if ms in ('oos', '-'):
            res['oos'] = True
            break
        if s in ('abstain', 'skipped', 'harness-error'):
            res['abstain'] = True
            break
        if ms == 'stuck':
            res['model_stuck'] = True
            res['mismatch'] = (i, 'model-stuck', s, ms)
            break
        if ms == 'pgerr':
            mon = st.get('mon', [])
            if s == 'ok' and any(m[0] == 'pg-error' for m in mon):
                res['compared'] += 1
            else:
                res['mismatch'] = (i, 'model-pgerr-impl-not', s, ms)
            break
        if ms == 'rej':
            if s in REJ:
                res['compared'] += 1
                continue
            res['mismatch'] = (i, 'status', s, ms)
            break
        # model ok
        if s != 'ok':
            res['mismatch'] = (i, 'status', s + ' ' + json.dumps(st.get('err', {}))[:200], ms[:120])
            break
        ic = impl_canon(st)
        if ic != ms:
            res['mismatch'] = (i, 'effects/catalog', ic, ms)
            break
        res['compared'] += 1
    return res


# monitor failures that are the recorded defects
NAMELESS = re.compile(r'\?[0-9a-f]{8}-[0-9a-f-]{27}')   # the id-named column of a pointer that is gone


def classify_failure(mon_entry, lost, orphans, clinks=frozenset(), f4=None):
    """lost: link tables hit by C05-F1 (computed -> stored on a link holding stored link properties, for
    every type of the owner's cone, names before or after the step); orphans: (table, column) left by
    C05-F2 (USING with a multi expression on a stored single property)"""
    kind = mon_entry[0]
    f4 = f4 or {}
    # C05-F4: a pointer renamed from / to a name starting with `__` -- its column in the source table is
    # named after the pointer for such names, after its id otherwise, and RENAME emits no storage command
    if kind in ('missing-column', 'orphan-column') and mon_entry[1] in f4 and \
            (mon_entry[2] in f4[mon_entry[1]] or NAMELESS.fullmatch(str(mon_entry[2]))):
        return 'C05-F4'
    if kind == 'pg-error' and mon_entry[1] in ('drop-missing-column', 'alter-missing-column', 'add-existing-column') \
            and mon_entry[2] in f4 and mon_entry[3] in f4[mon_entry[2]]:
        return 'C05-F4'      # incl. a NEW pointer that takes the `__` name whose column was left behind
    if kind == 'sql-addresses-missing-column' and any(mon_entry[1] in v for v in f4.values()):
        return 'C05-F4'
    if kind == 'missing-column' and mon_entry[1] in lost and re.fullmatch(r'q\d+', str(mon_entry[2])):
        return 'C05-F1'
    if kind == 'pg-error' and mon_entry[1] in ('drop-missing-column', 'alter-missing-column') \
            and mon_entry[2] in lost and re.fullmatch(r'q\d+', str(mon_entry[3])):
        return 'C05-F1'
    if kind == 'orphan-column' and (mon_entry[1], mon_entry[2]) in orphans:
        return 'C05-F2'
    if kind == 'orphan-column' and NAMELESS.fullmatch(str(mon_entry[2])) and (mon_entry[1], '?') in orphans:
        return 'C05-F2'      # the property itself was dropped later: its column has no name any more
    if kind in ('sql-addresses-missing-table', 'sql-addresses-missing-column'):
        text = str(mon_entry[2])
        m = re.match(r'select `default`::`T(\d+)` ', text)
        if m:
            n = int(m.group(1))
            for (d, p) in clinks:
                # the query on T<n> reads the link tables of every subtype of T<n> as well
                if (n, p) in clinks and f'`p{p}`: {{' in text:
                    if kind.endswith('table') and mon_entry[1] == f'P:T{d}.p{p}':
                        return 'C05-F3'
                    if kind.endswith('column') and re.fullmatch(r'q\d+', str(mon_entry[1])):
                        return 'C05-F3'
            for tname in lost:
                mm = re.fullmatch(r'P:T(\d+)\.p(\d+)', tname)
                if mm and int(mm.group(1)) == n and f'`p{mm.group(2)}`: {{' in text and kind.endswith('column'):
                    return 'C05-F1'
    return None


def track_case(evs, impl):
    """re-track the history with the REAL acceptance verdicts; returns per-step list of
    (unexplained monitor failures, explained ones as (finding id, entry))"""
    g = Guide()
    out = []
    for e, st in zip(evs, impl.get('steps', [])):
        before = (g.lost_tables(), g.orphan_cols(), g.f4_cols())
        if st.get('status') == 'ok' and e[0] != 'X':
            g.apply(e)
        after = (g.lost_tables(), g.orphan_cols())
        lost, orph = before[0] | after[0], before[1] | after[1]
        clinks = g.computed_links_with_stored_lps()
        f4b = before[2]
        f4 = g.f4_cols()
        for t2, v2 in f4b.items():
            f4.setdefault(t2, set()).update(v2)
        bad, known = [], []
        for m in canon_names(st.get('mon', []) or []):
            fid = classify_failure(m, lost, orph, clinks, f4)
            if fid:
                known.append((fid, m))
            else:
                bad.append(m)
        out.append((bad, known))
    return out


def shrink_history(evs, fails, rounds=4):
    """delta-debugging by rounds: all single-event deletions of the current history are run in ONE
    batch of the implementation (a process start costs ~10 s); the shortest still-failing candidate
    is kept.  `fails(list of histories) -> list of bool`."""
    cur = list(evs)
    for _ in range(rounds):
        cands = [cur[:i] + cur[i + 1:] for i in range(len(cur) - 1, -1, -1) if len(cur) > 1]
        if not cands:
            break
        try:
            verdicts = fails(cands)
        except Exception:  # noqa
            break
        keep = [c for c, v in zip(cands, verdicts) if v]
        if not keep:
            break
        # greedy: apply as many of the successful deletions as still fail together
        cur = keep[0]
    return cur


def one_impl(evs, sql=False, mig=False):
    return json.loads(run_impl([impl_case('x', evs, sql=sql, mig=mig)], nproc=1)[0])


def nontrivial(evs, impl):
    """>= 3 accepted steps with a structural effect, at least one of them an alteration (not a
    plain create type / create pointer)"""
    n_eff, alt = 0, False
    for e, st in zip(evs, impl.get('steps', [])):
        if st.get('status') == 'ok' and st.get('ops'):
            n_eff += 1
            if e[0] not in ('CT', 'CP'):
                alt = True
    return n_eff >= 3 and alt


def coq_summary_line(s):
    """'[[0%N]; [0%N; 1%N; 0%N]]' -> '0;0,1,0'"""
    s = s.strip()
    rows = re.findall(r'\[([^\[\]]*)\]', s[1:-1] if s.startswith('[') else s)
    return ';'.join(','.join(x.replace('%N', '').strip() for x in r.split(';') if x.strip()) for r in rows)


def run(tier):
    rep = lib.Report(PROP, tier, 'proof')
    thorough = tier == 'thorough'
    known = {k['id']: k for k in lib.known_findings(PROP)}

    # ---- 1. translator (fail-closed)
    tr_err, manifest = None, None
    try:
        import c05_layout
        manifest = c05_layout.write(lib.REPO, lib.COQ)
    except Exception as e:  # noqa
        tr_err = f'{type(e).__name__}: {e}'

    # ---- 2. proofs, 3. model
    pf = lib.proof_stage(rep, 'C05', THEOREMS,
                         extra_targets=['theories/C05/Refuted.vo'], thorough=thorough)
    exe, blog = lib.build_model('c05', 'ExtractC05.v', 'c05_main.ml', 'C05_ext')

    # ---- 4. cases
    t0 = time.time()
    model_cases, profs, rich = gen_cases(tier)
    mlines = [enc_case(evs) for evs in model_cases]
    rnd = lib.rng('C05opts')
    ilines = []
    for i, evs in enumerate(model_cases):
        ilines.append(impl_case(f'm{i}', evs, sql=(rnd.random() < (0.25 if thorough else 0.12)),
                                mig=(rnd.random() < 0.1)))
    for i, evs in enumerate(rich):
        ilines.append(impl_case(f'r{i}', evs, sql=(rnd.random() < 0.2), mig=(rnd.random() < 0.1)))
    t1 = time.time()
    impl_raw = run_impl(ilines)
    t_impl = time.time() - t1
    impl = [json.loads(x) for x in impl_raw]
    impl_m, impl_r = impl[:len(model_cases)], impl[len(model_cases):]
    model = lib.run_model(exe, mlines) if exe else None

    # ---- correspondence
    mism, compared_steps, oos_cases, abst_cases = [], 0, 0, 0
    cmp_cases = 0
    if model is not None:
        for i, (evs, im, ml) in enumerate(zip(model_cases, impl_m, model)):
            r = compare_case(evs, im, ml)
            compared_steps += r['compared']
            cmp_cases += 1 if r['compared'] else 0
            oos_cases += r['oos']
            abst_cases += r['abstain']
            if r['mismatch']:
                mism.append((i, r['mismatch']))

    # ---- monitors
    mon_fail = []      # (stream, case index, step, entries)
    kf_hits = {}
    n_steps = n_ok = n_rej = n_abst = 0
    status_hist, kind_hist, abst_hist, ign_hist, rej_hist = {}, {}, {}, {}, {}
    eff_hist = {}
    nsql = nref = 0
    for stream, cases, res in (('m', model_cases, impl_m), ('r', rich, impl_r)):
        for ci, (evs, im) in enumerate(zip(cases, res)):
            if 'harness_error' in im:
                mon_fail.append((stream, ci, 0, [['harness-error', im['harness_error']]]))
                continue
            tracked = track_case(evs, im)
            for si, (e, st) in enumerate(zip(evs, im['steps'])):
                n_steps += 1
                s = st['status']
                status_hist[s] = status_hist.get(s, 0) + 1
                kk = e[0] if e[0] != 'X' else 'X:' + e[2]
                if s == 'ok':
                    n_ok += 1
                    kind_hist[kk] = kind_hist.get(kk, 0) + 1
                    for o in st.get('ops', []):
                        eff_hist[o[:2]] = eff_hist.get(o[:2], 0) + 1
                    for c, v in (st.get('ign') or {}).items():
                        ign_hist[c] = ign_hist.get(c, 0) + v
                    nsql += st.get('nsql', 0)
                    nref += st.get('nref', 0)
                elif s in REJ:
                    n_rej += 1
                    rej_hist[kk] = rej_hist.get(kk, 0) + 1
                elif s == 'abstain':
                    n_abst += 1
                    a = st.get('abstain', '')[:60]
                    abst_hist[a] = abst_hist.get(a, 0) + 1
                elif s == 'harness-error':
                    mon_fail.append((stream, ci, si, [['harness-error', st.get('err'), st.get('tb', '')[-300:]]]))
                bad, kn = tracked[si]
                for fid, m in kn:
                    kf_hits.setdefault(fid, []).append((stream, ci, si, m))
                if bad:
                    mon_fail.append((stream, ci, si, bad))

    # ---- 5. Coq vm_compute cross-check of a sample
    coq_diff, n_coq = [], 0
    if model is not None and pf['ok']:
        r2 = lib.rng('C05coq')
        idx = sorted(r2.sample(range(len(model_cases)), min(60 if not thorough else 300, len(model_cases))))
        try:
            outs = lib.coq_eval('C05', 'From Coq Require Import List NArith Bool. Import ListNotations.\n'
                                       'From Verif.C05 Require Import Model.',
                                ['final_summary [' + '; '.join(coq_event(e) for e in model_cases[i]) + ']'
                                 for i in idx])
            sums = lib.run_model_args(exe, [mlines[i] for i in idx], ['sum']) if hasattr(lib, 'run_model_args') \
                else run_model_sum(exe, [mlines[i] for i in idx])
            n_coq = len(outs)
            coq_diff = [i for i, o, s in zip(idx, outs, sums) if coq_summary_line(o) != s]
        except Exception as e:  # noqa
            coq_diff = [('coq_eval failed', str(e)[-600:])]

    # ---- 6. verdict
    def replay_payload(stream, ci, si, what):
        evs = (model_cases if stream == 'm' else rich)[ci]
        first = what[0]

        def fails(hs):
            ims = [json.loads(x) for x in run_impl([impl_case('s', h) for h in hs])]
            out = []
            for h, im in zip(hs, ims):
                tr = track_case(h, im) if 'steps' in im else []
                out.append(any(any(m[0] == first[0] for m in bad) for bad, _ in tr) or
                           any(any(m[:2] == first[:2] for _, m in kn) for _, kn in tr))
            return out
        small = shrink_history(evs[:si + 1], fails)
        im = one_impl(small)
        return {'history_ddl': [ddl(e) for e in small],
                'case': enc_case(small) if all(e[0] != 'X' for e in small) else None,
                'events': [list(map(str, e)) for e in small],
                'monitor_failures': what[:6],
                'impl_last_step': (im['steps'][-1] if im.get('steps') else im),
                'how': 'printf "%s\\n" <ddl statements, one per line> | PYTHONPATH=/repo:/verif/harness '
                       '/venv/bin/python harness/impl/c05_impl.py /repo script'}

    seen_kinds = set()
    for stream, ci, si, what in mon_fail:
        key = what[0][0] if what and what[0] else 'unknown'
        if key in seen_kinds or len(seen_kinds) >= 4:
            continue
        seen_kinds.add(key)
        rep.violation(f'monitor failed on the real pgsql/delta command stream: {what[0]}',
                      replay_payload(stream, ci, si, what))
    for fid, hits in kf_hits.items():
        if fid in known:
            stream, ci, si, m = hits[0]
            rep.known_finding(fid, known[fid].get('what', '') + f' ({len(hits)} monitor failures in '
                              f'{len({(h[0], h[1]) for h in hits})} generated histories fall under it, e.g. {m})')
        else:
            stream, ci, si, m = hits[0]
            rep.violation(f'monitor failed (defect {fid} found by this check; not listed in known_findings.json): {m}',
                          replay_payload(stream, ci, si, [m]))
    if not mon_fail:
        if tr_err:
            rep.violation('translator failed closed: ' + tr_err,
                          {'broken': 'harness/translate/c05_layout.py (source shape of edb/pgsql/types.py '
                                     'not recognised)', 'error': tr_err}, False)
        if model is None:
            rep.violation('model does not build: ' + (blog or '')[-1500:],
                          {'broken': 'extraction of theories/C05/Model.v'}, False)
        elif mism:
            i, (si, why, a, b) = mism[0]
            evs = model_cases[i]

            def fails(hs):
                ims = [json.loads(x) for x in run_impl([impl_case('s', h) for h in hs])]
                mls = lib.run_model(exe, [enc_case(h) for h in hs])
                return [compare_case(h, im, ml)['mismatch'] is not None for h, im, ml in zip(hs, ims, mls)]
            small = shrink_history(evs[:si + 1], fails)
            im = one_impl(small)
            ml = lib.run_model(exe, [enc_case(small)])[0]
            rep.violation(f'correspondence broken ({why}): model and implementation disagree on {len(mism)} of '
                          f'{len(model_cases)} histories; no monitor failed',
                          {'broken': 'correspondence C05 Model vs edb/pgsql/delta.py',
                           'case': enc_case(small), 'history_ddl': [ddl(e) for e in small],
                           'impl': [(s['status'], s.get('ops'), s.get('cat'), s.get('err')) for s in im['steps']][-3:],
                           'model': ml.split(' | ')[-3:], 'first_difference': [a, b],
                           'disagreements': len(mism)}, False)
        if coq_diff:
            rep.violation('extracted model disagrees with vm_compute inside Coq',
                          {'broken': 'extraction', 'case': str(coq_diff[0])}, False)
        if not pf['ok']:
            rep.violation('proof obligations no longer check: ' + '; '.join(pf['broken'][:6]),
                          {'broken': pf['broken'], 'log_tail': pf['log'][-3000:]}, False)

    # ---- 7. evidence
    distinct = set()
    for evs, im in list(zip(model_cases, impl_m)) + list(zip(rich, impl_r)):
        if 'steps' in im and nontrivial(evs, im):
            distinct.add(';'.join(ddl(e) for e in evs))
    lens = {}
    for evs in model_cases + rich:
        b = (len(evs) // 5) * 5
        lens[f'{b}-{b + 4}'] = lens.get(f'{b}-{b + 4}', 0) + 1
    prof_hist = {}
    for p in profs:
        prof_hist[p] = prof_hist.get(p, 0) + 1
    prof_hist['rich (monitors only)'] = len(rich)
    rep.coverage.update({
        'evaluations': len(model_cases) + len(rich),
        'distinct_nontrivial': len(distinct),
        'rule': 'DDL histories: a seeded sample (quick) / all (thorough) of the exhaustive family "one pointer of '
                'every (kind, cardinality, computed) in a type with a subtype x every sequence of 2-3 alterations '
                '(set multi/single, computed<->stored, add/drop/alter link property, drop)"; seeded random histories '
                'over 6 type names, 8 pointer names, 3 link-property names in four profiles (model fragment, '
                'link-property heavy, inheritance heavy, malformed/edge); "rich" histories interleaving the same '
                'events with 50 statement templates outside the model (constraints, indexes, defaults, set type, '
                'abstract links/properties, scalars, enums, arrays, tuples, aliases, policies, triggers, modules, '
                'overloading). non-trivial = >= 3 accepted steps with a structural effect on the catalog, at least '
                'one of them an alteration (not create type / create pointer); distinct = distinct DDL text',
        'exhaustive': False,
        'samples': [[ddl(e) for e in model_cases[len(model_cases) // 2][:8]],
                    [ddl(e) for e in rich[0][:8]] if rich else []],
        'traces_validated_against_impl': cmp_cases,
        'steps_total': n_steps,
        'steps_accepted': n_ok,
        'steps_rejected': n_rej,
        'steps_abstained': n_abst,
        'abstain_reasons': abst_hist,
        'model_vs_impl_steps_compared': compared_steps,
        'model_vs_impl_disagreements': len(mism),
        'model_vs_impl_disagreement_kinds': [[enc_event(model_cases[i][m[0]]), m[1], str(m[2])[:120]] for i, m in mism[:8]],
        'model_vs_impl_first_disagreement': ({'history': [ddl(e) for e in model_cases[mism[0][0]][:mism[0][1][0] + 1]],
                                              'case': enc_case(model_cases[mism[0][0]][:mism[0][1][0] + 1]),
                                              'why': mism[0][1][1], 'impl': str(mism[0][1][2])[:400],
                                              'model': str(mism[0][1][3])[:400]} if mism else None),
        'model_out_of_scope_histories': oos_cases,
        'coq_vm_compute_cross_checked': n_coq,
        'monitor_failures': len(mon_fail),
        'known_finding_hits': {k: len(v) for k, v in kf_hits.items()},
        'status_distribution': status_hist,
        'accepted_event_kinds': dict(sorted(kind_hist.items())),
        'rejected_event_kinds': dict(sorted(rej_hist.items())),
        'structural_effects': eff_hist,
        'ignored_dbops_commands': ign_hist,
        'history_lengths': dict(sorted(lens.items())),
        'profiles': prof_hist,
        'ptrref_storage_comparisons': nref,
        'sql_queries_compiled_and_checked': nsql,
        'translator_manifest': manifest,
        'impl_wall_s': round(t_impl, 1),
        'trusted_base': [
            'Coq 8.16.1 kernel (coqc; coqchk in the thorough tier); vm_compute only in cases.v evaluation',
            'extraction: ExtrOcamlBasic only; OCaml 4.13.1; ocaml/conv.ml + c05_main.ml',
            'translator harness/translate/c05_layout.py (fail-closed; two boolean functions of types.py)',
            'correspondence harness: harness/props/c05.py (generators, canonicalisation, finding predicates) + '
            'harness/impl/c05_impl.py (catalog simulator for dbops command streams, name canonicalisation)',
            'runtime substrate harness/rt (parser substitute, std schema) for running the real code',
            'modelled, not verified: the schema layer (edb/schema: inheritance expansion, acceptance) is mirrored '
            'by Model.ustep and only tested; PostgreSQL is replaced by the simulator (CREATE/DROP/ALTER strictness '
            'as documented); data-copy queries, constraints, indexes, triggers, views are ignored',
        ],
    })
    rep.assumptions = [
        'PostgreSQL DDL semantics as implemented by the simulator (harness/impl/c05_impl.py::Sim) and Model.apply_op',
        'the dbops command stream walked from pgdelta.pgops is what generate() emits (checked per step against the '
        'structural statements of the generated SQL text)',
    ]
    if tr_err:
        rep.notes.append('translator: ' + tr_err)
    return rep.finish()


def run_model_sum(exe, lines):
    import subprocess
    p = subprocess.run([exe, 'sum'], input='\n'.join(lines) + '\n', stdout=subprocess.PIPE,
                       stderr=subprocess.PIPE, text=True, timeout=600)
    if p.returncode != 0:
        raise RuntimeError(p.stderr[-500:])
    out = p.stdout.split('\n')
    if out and out[-1] == '':
        out.pop()
    return out


def replay(path):
    d = json.load(open(path))
    rp = d['replay']
    exe, _ = lib.build_model('c05', 'ExtractC05.v', 'c05_main.ml', 'C05_ext')
    if rp.get('case'):
        evs = dec_case(rp['case'])
        stmts = [ddl(e) for e in evs]
    else:
        evs = None
        stmts = rp.get('history_ddl', [])
    case = json.dumps({'id': 'replay', 'steps': [{'ddl': s} for s in stmts], 'sql': True})
    im = json.loads(run_impl([case], nproc=1)[0])
    ml = lib.run_model(exe, [rp['case']])[0].split(' | ') if (exe and rp.get('case')) else None
    for i, s in enumerate(stmts):
        st = im['steps'][i]
        print('>>>', s)
        print('   impl :', st['status'], st.get('err', {}).get('msg', ''), st.get('ops', ''), st.get('abstain', ''))
        if st.get('mon'):
            print('   MONITOR FAILURES:', json.dumps(st['mon']))
        if st.get('cat') is not None:
            print('   cat  :', st['cat'])
        if ml:
            print('   model:', ml[i])
    return 0


if __name__ == '__main__':
    # debugging helpers:  c05.py gen <profile> <n>  |  c05.py cmp <n-per-profile>
    if len(sys.argv) > 1 and sys.argv[1] == 'cmp':
        exe, log = lib.build_model('c05', 'ExtractC05.v', 'c05_main.ml', 'C05_ext')
        assert exe, log
        rnd = lib.rng('C05dbg' + (sys.argv[3] if len(sys.argv) > 3 else ''))
        n = int(sys.argv[2])
        cases = []
        for name in ('model', 'lprops', 'bases', 'wild'):
            cases += [gen_history(rnd, name, rnd.randint(6, 18)) for _ in range(n)]
        if len(sys.argv) > 4 and sys.argv[4] == 'ex':
            cases = exhaustive_small()
        t0 = time.time()
        impl = [json.loads(x) for x in run_impl([impl_case(i, e) for i, e in enumerate(cases)])]
        print('impl', round(time.time() - t0, 1), 's for', sum(len(c) for c in cases), 'steps')
        model = lib.run_model(exe, [enc_case(e) for e in cases])
        nm = 0
        stats = {}
        for evs, im, ml in zip(cases, impl, model):
            r = compare_case(evs, im, ml)
            for k in ('oos', 'abstain'):
                stats[k] = stats.get(k, 0) + r[k]
            stats['compared'] = stats.get('compared', 0) + r['compared']
            tr = track_case(evs, im)
            for si, (bad, kn) in enumerate(tr):
                if bad:
                    print('MON', [ddl(e) for e in evs[:si + 1]], bad[:3])
                    break
            if r['mismatch']:
                nm += 1
                mm = r['mismatch']
                key = (mm[1], enc_event(evs[mm[0]]).split()[0], str(mm[2])[:90] if mm[1] == 'status' else '')
                cats = stats.setdefault('cats', {})
                cats[key] = cats.get(key, 0) + 1
                if cats[key] <= 1:
                    si = r['mismatch'][0]
                    print('MISMATCH', r['mismatch'])
                    for e in evs[:si + 1]:
                        print('     ', ddl(e), '   --', enc_event(e))
        for k2, v2 in sorted(stats.pop('cats', {}).items(), key=lambda kv: -kv[1]):
            print('  CAT', v2, k2)
        print('mismatches', nm, 'of', len(cases), stats)
