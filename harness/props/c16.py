"""C16 — Every connection request is eventually served (edb/server/connpool/pool.py).  PARTIAL.

Same model, proofs and deterministic harness as C15 (see props/c15.py).  Proved
(coq/theories/C16/Props.v): no-lost-wake-up invariant, retry-or-abort on connect failure, tick chain
never stops while an acquire() is pending (Pool/TickProofs.v).
The full liveness statement is false of the faithful model: coq/theories/C16/Refuted.v proves
`~ C16_full` from a recorded trace of the real pool; that schedule and every generated schedule
are DRIVEN TO QUIESCENCE on the real code by a fair scheduler (all ready callbacks run, every
connect / disconnect succeeds, every holder releases, timers fire; as long as anything progresses, up to 1500 rounds) and every
acquire() must have returned - or have failed with the connect error after a connect failure on
its database.  Starved requests are classified by a predicate over the final state; classes
recorded in /verif/known_findings.json print KNOWN-FINDING, everything else is a VIOLATION.
"""
from __future__ import annotations

import json
import os

import lib
from props import c15

PROP = 'C16'
THEOREMS = ['C16_no_lost_wakeup', 'C16_quiescent_no_idle_with_waiters', 'C16_retry_or_abort',
            'C16_block_ids_distinct', 'C16_tick_chain_alive', 'C16_tick_rearms']
REFUTED = ['C16_full_refuted', 'C16_late_cancel_passes_wakeup_on']
WITNESS = '4,50,1;a1 x x o1 p1'      # the schedule behind Refuted.w_trace


def classify(st):
    """finding id for one starved request (state at the end of the fair drain)"""
    nothing = st.get('nconns', 0) + st.get('pending_conns', 0) == 0
    if st.get('tick_armed') is False:
        # on the pinned code a pending acquire() keeps the tick timer armed (Pool.TickProofs /
        # C16_tick_chain_alive); every known finding starves WITH the ticks still firing
        return 'unclassified: the tick chain stopped while acquire() calls are pending (no tick timer armed)'
    if st.get('tick_crashing') == '_drop_block':
        return 'C16-prune-suppressed-waiters-tick-crash'
    if st.get('tick_crashing'):
        return 'unclassified: _tick raises in ' + str(st.get('tick_crashing'))
    if st.get('stack', 0) > 0 and st.get('late_cancel'):
        return 'C16-cancel-after-wakeup-loses-wakeup'
    if st.get('pending_conns', 0) > 0:
        return 'unclassified: pending_conns > 0 with no connect in flight (phantom pending)'
    if st.get('orphans', 0) > 0:
        return 'unclassified: the block holds connections that are neither lent nor on the stack (orphans)'
    if nothing and st.get('cur', 0) < st.get('max', 0):
        return 'C16-connectionless-block-not-served'
    if nothing and st.get('starving') and st.get('cur') == st.get('max') and st.get('idle_elsewhere'):
        return 'C16-mode-D-idle-connection-stuck'
    return 'unclassified'


def starved_classes(r):
    c = r.get('c16') or {}
    if c.get('exhausted'):
        return ['unclassified: requests still pending after 1500 fair rounds with the pool still busy (livelock?)'
                for _ in c.get('starved', [])]
    return [classify(st) for st in c.get('starved', [])]


def run(tier):
    rep, pf, exe, blog, lines, res, traces, model, herr, mism, n_coq, coq_bad = \
        c15.pipeline(PROP, tier, 1, THEOREMS)
    thorough = tier == 'thorough'
    # the refutation theorem
    okm, logm, _ = lib.coq_make(['theories/C16/Refuted.vo'], timeout=900)
    rok, rproved, rlog = lib.coq_props('C16', 'Refuted.v') if okm else (False, {}, logm)
    refuted_ok = rok and all(rproved.get(t) == [] for t in REFUTED)
    known = {e['id']: e for e in lib.known_findings(PROP)}

    classes = {}
    examples = {}
    nstarved_cases = 0
    unexpected = []
    for i, r in enumerate(res):
        c = r.get('c16') or {}
        if c.get('starved'):
            nstarved_cases += 1
        for st in c.get('starved', []):
            k = classify(st) if not c.get('exhausted') else 'unclassified: requests still pending after 1500 fair rounds with the pool still busy (livelock?)'
            classes[k] = classes.get(k, 0) + 1
            if k not in examples or len(lines[i]) < len(lines[examples[k][0]]):
                examples[k] = (i, st)
        for u in c.get('unexpected_failures', []):
            unexpected.append((i, u))

    nviol = 0
    for k, (i, st) in sorted(examples.items()):
        if k in known:
            rep.known_finding(k, known[k].get('what', '')[:300] + f' [{classes[k]} starved requests in this run; e.g. `{lines[i]}`]')
            continue
        if nviol >= 3:
            continue
        nviol += 1
        small = c15.shrink(lines[i], lambda r, kk=k: kk in starved_classes(r))
        rr = c15.run_impl([small])[0]
        rep.violation(f'an acquire() never returns in a fair schedule driven to quiescence on the real Pool ({k})',
                      {'case': small, 'original_case': lines[i], 'class': k,
                       'starved': (rr.get('c16') or {}).get('starved'), 'final_state': (rr.get('c16') or {}).get('final'),
                       'trace': rr.get('trace'),
                       'how': f'echo CASE | PYTHONPATH={lib.REPO}:harness /venv/bin/python harness/impl/c15_impl.py {lib.REPO}   (field c16.starved)'})
    l2 = [(i, m) for i, r in enumerate(res) for m in r.get('mon', []) if m[0] == 'L2']
    if l2:
        i, m = min(l2, key=lambda t: len(lines[t[0]]))
        small = c15.shrink(lines[i], lambda r: any(x[0] == 'L2' for x in r.get('mon', [])))
        rr = c15.run_impl([small])[0]
        rep.violation('a connect failure leaves requests blocked instead of retrying / reporting the error: '
                      + str(([x for x in rr.get('mon', []) if x[0] == 'L2'] or [m])[0][1]),
                      {'case': small, 'original_case': lines[i], 'monitor': 'L2', 'trace': rr.get('trace'),
                       'occurrences': len(l2)})
    runaway = [i for i, r in enumerate(res) if r.get('runaway')]
    if runaway:
        i = min(runaway, key=lambda j: len(lines[j]))
        rep.violation('the real Pool does not return control: ' + res[i]['runaway'],
                      {'case': lines[i], 'monitor': 'RUNAWAY', 'occurrences': len(runaway)})
    for i, u in unexpected[:2]:
        rep.violation('acquire() failed although no connect failure was delivered for its database',
                      {'case': lines[i], 'failure': u})
    # C15 monitors run here too: a safety failure is also reported under C16's run only as a note
    mon = [(i, m) for i, r in enumerate(res) for m in r.get('mon', [])]

    # the witness of Refuted.v must still starve on the implementation
    wr = c15.run_impl([WITNESS])[0]
    witness_starves = bool((wr.get('c16') or {}).get('starved'))

    if not rep.violations:
        if herr:
            i = herr[0]
            rep.violation('the harness could not drive the real Pool: ' + res[i]['harness_error'][-600:],
                          {'broken': 'harness/impl/c15_impl.py vs edb/server/connpool/pool.py', 'case': lines[i]}, False)
        if model is None:
            rep.violation('model does not build: ' + blog[-1500:], {'broken': 'extraction of theories/Pool/Model.v'}, False)
        elif mism:
            i, k = min(mism, key=lambda t: len(lines[t[0]]))
            rep.violation('correspondence broken: the real Pool and the Coq model disagree '
                          f'({len(mism)} of {len(lines)} schedules) and no acquire() starved outside the known findings',
                          dict(c15.explain_mismatch(lines, res, model, i, k),
                               broken='correspondence Pool.Model.step vs edb.server.connpool.pool.Pool',
                               disagreements=len(mism)), False)
        if coq_bad:
            rep.violation('extracted model disagrees with vm_compute inside Coq',
                          {'broken': 'extraction', 'detail': str(coq_bad[0])[:1500]}, False)
        if not pf['ok']:
            rep.violation('proof obligations no longer check: ' + '; '.join(pf['broken'][:6]),
                          {'broken': pf['broken'], 'log_tail': pf['log'][-3000:]}, False)
        if not refuted_ok:
            rep.violation('Refuted.v (C16_full_refuted) no longer checks', {'broken': 'theories/C16/Refuted.v',
                                                                           'log_tail': (rlog or '')[-2000:]}, False)

    rounds = [(r.get('c16') or {}).get('rounds', 0) for r in res]
    c15.coverage(rep, PROP, tier, lines, res, traces, model, mism, n_coq, {
        'level_note': 'PARTIAL: invariants proved; full liveness refuted (Refuted.v) and violated by the real code '
                      '(known findings); modes A/B/C/D progress theorems of DESIGN not attempted',
        'refuted_theorems': {t: ('closed under the global context' if rproved.get(t) == [] else 'NOT CHECKED') for t in REFUTED},
        'refutation_witness_schedule': WITNESS,
        'refutation_witness_starves_on_impl': witness_starves,
        'schedules_driven_to_quiescence': len([r for r in res if r.get('c16')]),
        'schedules_with_a_starved_acquire': nstarved_cases,
        'starved_requests_by_class': classes,
        'acquire_failures_reported_after_connect_failure': sum((r.get('stats') or {}).get('afail', 0) for r in res),
        'unexpected_acquire_failures': len(unexpected),
        'connect_failure_monitor_L2_failures': len(l2),
        'drain_rounds_max': max(rounds) if rounds else 0,
        'c15_monitor_failures_seen': len(mon),
    })
    rep.coverage['obligations'] = len(THEOREMS) + len(REFUTED)
    rep.coverage['discharged'] = rep.coverage.get('discharged', 0) + (len(REFUTED) if refuted_ok else 0)
    rep.assumptions = [
        'fair scheduler of the harness: every ready callback runs, every connect / disconnect completes '
        'successfully, every holder releases, 50 ms pass per round and every due timer fires; the drain goes on while '
        'anything progresses (up to 1500 rounds) and stops after 12 consecutive rounds in which only timers fired and '
        'nothing is in flight, lent or ready',
        'asyncio FIFO ready queue; no new requests and no cancellations arrive during the drain (cancellations are '
        'part of the schedules; a cancelled request counts as answered)',
    ]
    if not witness_starves:
        rep.notes.append('the schedule behind Refuted.v no longer starves on the implementation')
    return rep.finish()


def replay(path):
    return c15.replay(path)
