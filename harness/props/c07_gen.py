"""C07 generators: the skeleton schema, policy placements, read-only queries over every access
path, a malformed/edge stream, and registration (new_set) cases.  All randomness comes from the
lib.rng instance passed in."""
from __future__ import annotations

import re

SKELETON = '''
abstract type Named { required name: str; flag: bool; num: int64; }
type R extending Named {
    multi link ms -> T;
    link s -> T;
    multi link us -> U;
    multi mp: str;
    link self -> R;
    link comp_s := .s;
    multi link comp_ts := (select T filter .num ?= 1);
    property comp_cnt := count(.ms);
    multi link ms_lp -> T { lp: str };
    link tu -> T1 | U;
    multi link items -> T2 | U1 | V;
}
type T extending Named {
    link u -> U;
    multi link rs -> R;
    multi link rback := .<ms[is R];
}
type T1 extending T { extra1: str; link t1u -> U; }
type T2 extending T { extra2: str; }
type T12 extending T1, T2 { extra12: str; }
type U extending Named { link back -> T; }
type U1 extending U { extra_u: str; }
type V { required name: str; link vt -> T; }
type W { required name: str; required link rq -> T; }
alias AT := T { name, uname := .u.name };
alias AR := (select R filter .flag ?= true);
global g_name -> str;
global g_t := (select T filter .name = 'gx' limit 1);
global g_ts := (select T filter exists .flag);
'''

TYPES = ['Named', 'R', 'T', 'T1', 'T2', 'T12', 'U', 'U1', 'V', 'W']
TNUM = {t: i for i, t in enumerate(TYPES)}
PARENTS = {'Named': [], 'R': ['Named'], 'T': ['Named'], 'T1': ['T'], 'T2': ['T'], 'T12': ['T1', 'T2'],
           'U': ['Named'], 'U1': ['U'], 'V': [], 'W': []}
ABSTRACT = {'Named'}


UNION_TARGETS = {'TU': ['T1', 'U'], 'ITEM': ['T2', 'U1', 'V']}


def ancestors(t):
    if t in UNION_TARGETS:
        return []
    out = []
    for p in PARENTS[t]:
        if p not in out:
            out.append(p)
        for a in ancestors(p):
            if a not in out:
                out.append(a)
    return out


def descendants(t):
    if t in UNION_TARGETS:
        return list(UNION_TARGETS[t])
    return [x for x in TYPES if t in ancestors(x)]


# own pointers: name -> (target, 'single'|'multi')
OWN_LINKS = {
    'Named': {},
    'R': {'ms': ('T', 'multi'), 's': ('T', 'single'), 'us': ('U', 'multi'), 'self': ('R', 'single'),
          'comp_s': ('T', 'single'), 'comp_ts': ('T', 'multi'), 'ms_lp': ('T', 'multi'),
          'tu': ('TU', 'single'), 'items': ('ITEM', 'multi')},
    'T': {'u': ('U', 'single'), 'rs': ('R', 'multi'), 'rback': ('R', 'multi')},
    'T1': {'t1u': ('U', 'single')},
    'T2': {}, 'T12': {}, 'U': {'back': ('T', 'single')}, 'U1': {},
    'V': {'vt': ('T', 'single')}, 'W': {'rq': ('T', 'single')},
}
STORED_LINKS = {('R', 'ms'), ('R', 's'), ('R', 'us'), ('R', 'self'), ('R', 'ms_lp'), ('R', 'tu'), ('R', 'items'),
                ('T', 'u'), ('T', 'rs'),
                ('T1', 't1u'), ('U', 'back'), ('V', 'vt'), ('W', 'rq')}
OWN_PROPS = {'Named': ['name', 'flag', 'num'], 'R': ['comp_cnt'], 'T': [], 'T1': ['extra1'], 'T2': ['extra2'],
             'T12': ['extra12'], 'U': [], 'U1': ['extra_u'], 'V': ['name'], 'W': ['name']}
STR_PROPS = {'name', 'extra1', 'extra2', 'extra12', 'extra_u'}


def links_of(t):
    if t in UNION_TARGETS:
        return {}
    out = {}
    for a in reversed([t] + ancestors(t)):
        out.update(OWN_LINKS[a])
    return out


def props_of(t):
    if t in UNION_TARGETS:
        return ['name']
    out = []
    for a in [t] + ancestors(t):
        for p in OWN_PROPS[a]:
            if p not in out:
                out.append(p)
    return out


def backlinks_of(t, for_policy=False):
    """(link, source type) pairs whose stored link can point at an object of type t"""
    out = []
    if t in UNION_TARGETS:
        return out
    mine = set([t] + ancestors(t))
    for (src, l) in sorted(STORED_LINKS):
        tgt = OWN_LINKS[src][l][0]
        if tgt in mine or (not for_policy and tgt in UNION_TARGETS and t in UNION_TARGETS[tgt]):
            # (a backlink over a union-typed link does not resolve on a descendant of a member,
            # so policies -- which descendants inherit -- never use one)
            out.append((l, src))
    return out


# ------------------------------------------------------------------------- placements

KINDS = ['select', 'select', 'select', 'all', 'all', 'select, update read', 'insert', 'update write',
         'delete', 'insert, delete', 'update read']


def atom_text(rnd, subj, n, allow_std=False):
    """(edgeql text, marker text) of a two-valued policy clause for subject type subj"""
    tok = f'tok{n}'
    forms = ['name', 'name', 'glob', 'exists']
    if 'Named' in [subj] + ancestors(subj):
        forms.append('num')
    ls = links_of(subj)
    single = [l for l, (tg, c) in ls.items() if c == 'single' and (subj, l) in STORED_LINKS
              or any((a, l) in STORED_LINKS for a in ancestors(subj)) and c == 'single']
    multi = [l for l, (tg, c) in ls.items() if c == 'multi' and
             any((a, l) in STORED_LINKS for a in [subj] + ancestors(subj))]
    if single:
        forms.append('link')
    if multi:
        forms.append('mlink')
    if backlinks_of(subj, True):
        forms.append('back')
    forms += ['globalobj', 'aliasobj']
    if allow_std == 'typeof':
        forms = ['typeof']
    elif allow_std:
        forms += ['stdobj'] * 4
    f = rnd.choice(forms)
    if f == 'typeof':
        return f".name = '{tok}' and (.name is typeof .name)", tok
    if f == 'globalobj':
        gl = rnd.choice(['g_t', 'g_ts'])
        return f"exists (select (global default::{gl}) filter .name = '{tok}')", tok
    if f == 'aliasobj':
        al = rnd.choice(['AT', 'AR'])
        return f"exists (select default::{al} filter .name = '{tok}')", tok
    if f == 'name':
        return f".name = '{tok}'", tok
    if f == 'num':
        return f'.num ?= {7700 + n}', str(7700 + n)
    if f == 'glob':
        return f"(global default::g_name ?? '') = '{tok}'", tok
    if f == 'exists':
        x = rnd.choice([t for t in TYPES if t != 'Named'])
        return f"exists (select default::{x} filter .name = '{tok}')", tok
    if f == 'link':
        return f".{rnd.choice(sorted(single))}.name ?= '{tok}'", tok
    if f == 'mlink':
        return f"exists (select .{rnd.choice(sorted(multi))} filter .name = '{tok}')", tok
    if f == 'back':
        l, src = rnd.choice(backlinks_of(subj, True))
        return f"exists (select .<{l}[is default::{src}] filter .name = '{tok}')", tok
    u = f'00000000-0000-0000-0000-0000000000{n:02d}'
    std = rnd.choice(['Object', 'BaseObject'])
    return f"exists (select std::{std} filter .id = <uuid>'{u}')", u


def gen_cond(rnd, subj, counter, markers, allow_std=False):
    """-> (edgeql text, cond) ; counter is a 1-element list holding the next atom number"""
    def atom():
        n = counter[0]
        counter[0] += 1
        txt, mk = atom_text(rnd, subj, n, allow_std)
        markers[mk] = n
        return f'({txt})', ['a', n]
    r = rnd.random()
    if r < 0.50:
        return atom()
    if r < 0.62:
        (a, ca), (b, cb) = atom(), atom()
        return f'({a} and {b})', ['&', ca, cb]
    if r < 0.74:
        (a, ca), (b, cb) = atom(), atom()
        return f'({a} or {b})', ['|', ca, cb]
    if r < 0.82:
        a, ca = atom()
        return f'(not {a})', ['!', ca]
    if r < 0.90:
        (a, ca), (b, cb) = atom(), atom()
        return f'({a} and not {b})', ['&', ca, ['!', cb]]
    if r < 0.96:
        return 'true', ['k', True]
    return 'false', ['k', False]


PLACEMENT_PATTERNS = ['type', 'ancestor', 'descendant_extra', 'linktarget', 'diamond', 'mixed', 'descendant',
                      'mixed', 'uniontargets', 'mixed', 'writeonly', 'leafonly']


def gen_placement(rnd, pid, pattern=None, stdobj=False):
    pattern = pattern or rnd.choice(PLACEMENT_PATTERNS)
    if pattern == 'typeof':
        stdobj = 'typeof'
    if pattern == 'type':
        where = ['T']
    elif pattern == 'ancestor':
        where = ['Named']
    elif pattern == 'descendant':
        where = [rnd.choice(['T1', 'T2', 'T12', 'U1'])]
    elif pattern == 'descendant_extra':
        where = ['U', 'U1'] if rnd.random() < 0.6 else ['T', rnd.choice(['T1', 'T2'])]
    elif pattern == 'uniontargets':
        where = rnd.choice([['T1', 'U'], ['T2', 'U1', 'V'], ['T2', 'U1'], ['Named', 'V']])
    elif pattern == 'linktarget':
        where = ['U']
    elif pattern == 'diamond':
        where = ['T', rnd.choice(['T1', 'T2', 'T12'])]
    elif pattern == 'writeonly':
        where = [rnd.choice(['T', 'U', 'R'])]
    elif pattern == 'leafonly':
        where = [rnd.choice(['V', 'W', 'T12', 'U1'])]
    elif pattern == 'typeof':
        where = [rnd.choice(['T', 'U', 'Named'])]
    else:
        where = rnd.sample(TYPES, rnd.randint(2, 4))
    counter, markers, pols, ddl = [1], {}, {}, []
    pn = 1
    for t in where:
        k = rnd.choice((1, 1, 2, 2, 3))
        lst = []
        for j in range(k):
            allow = rnd.random() < (0.75 if j == 0 else 0.5)
            kinds = rnd.choice(['insert', 'update write', 'delete', 'insert, delete']) \
                if pattern == 'writeonly' else rnd.choice(KINDS)
            txt, c = gen_cond(rnd, t, counter, markers, allow_std=stdobj)
            name = f'p{pn}'
            pn += 1
            lst.append({'name': name, 'allow': allow, 'kinds': kinds, 'text': txt, 'cond': c})
            ddl.append(f'alter type default::{t} {{ create access policy {name} '
                       f'{"allow" if allow else "deny"} {kinds} using ({txt}); }};')
        pols[t] = lst
    spec = []
    for t in TYPES:
        sel, any_pol = [], False
        for a in [t] + ancestors(t):
            for p in pols.get(a, []):
                any_pol = True
                ks = [x.strip() for x in p['kinds'].split(',')]
                if 'select' in ks or 'all' in ks:
                    sel.append([p['allow'], p['cond']])
        if any_pol:
            spec.append([TNUM[t], sel])
    return {'pid': pid, 'pattern': pattern + ('+stdobj' if stdobj is True else ''), 'ddl': '\n'.join(ddl),
            'markers': markers, 'spec': spec, 'pols': pols, 'own': sorted(pols)}


def spec_line(pl):
    if not pl['spec']:
        return '-'
    return ';'.join(f'T{t}:' + ','.join(('+' if al else '-') + cond_str(c) for al, c in ps) for t, ps in pl['spec'])


def cond_str(c):
    k = c[0]
    if k == 'a':
        return f'a{c[1]}'
    if k == 'k':
        return 't' if c[1] else 'f'
    if k == '!':
        return '!(' + cond_str(c[1]) + ')'
    return k + '(' + cond_str(c[1]) + ')(' + cond_str(c[2]) + ')'


# ------------------------------------------------------------------------- queries

class QGen:
    def __init__(self, rnd, union_overlap=0.03, stdobj=0.0):
        self.r = rnd
        self.feats = set()
        self.p_union_overlap = union_overlap
        self.p_stdobj = stdobj
        self.nvar = 0

    def var(self):
        self.nvar += 1
        return f'x{self.nvar}'

    def leaf(self, want=None):
        r = self.r
        if want is None:
            want = r.choice(['T', 'T', 'T', 'R', 'R', 'U', 'T1', 'T2', 'T12', 'U1', 'V', 'W', 'Named'])
        forms = ['type', 'type', 'type']
        if want == 'T':
            forms += ['AT', 'g_t', 'g_ts']
        if want == 'R':
            forms += ['AR']
        forms += ['detached']
        f = r.choice(forms)
        if f == 'type':
            self.feats.add('direct')
            return want, want
        if f == 'detached':
            self.feats.add('direct')
            return f'(detached {want})', want
        if f in ('AT', 'AR'):
            self.feats.add('alias')
            return f, want
        self.feats.add('global')
        return f'(global {f})', want

    def boolexpr(self, t, depth, prefix=''):
        """boolean expression about an object of type t reachable as `<prefix>.`"""
        r = self.r
        ls = links_of(t)
        forms = ['name', 'name', 'id']
        if ls:
            forms += ['exists_link', 'link_name', 'count']
        if depth > 0:
            forms += ['in_sub', 'exists_sub']
        f = r.choice(forms)
        p = prefix
        if f == 'name':
            return f"{p}.name = '{r.choice(['a', 'b', 'tok1', 'gx'])}'"
        if f == 'id':
            return f"{p}.id = <uuid>'00000000-0000-0000-0000-00000000000{r.randint(1, 9)}'"
        if f == 'exists_link':
            self.feats.add('link')
            return f'exists {p}.{r.choice(sorted(ls))}'
        if f == 'link_name':
            self.feats.add('link')
            return f"'{r.choice('abc')}' in {p}.{r.choice(sorted(ls))}.name"
        if f == 'count':
            self.feats.update(('link', 'agg'))
            return f'count({p}.{r.choice(sorted(ls))}) > {r.randint(0, 2)}'
        e, _ = self.obj(depth - 1)
        self.feats.add('subq')
        if f == 'in_sub':
            return f'{p}.id in ({e}).id' if r.random() < 0.5 else f'{p}.name in ({e}).name'
        return f'exists (select {e} filter .name = {p or ".".rstrip(".")}.name)' if p else \
            f'exists ({e})'

    def obj(self, depth, want=None):
        """-> (edgeql text of a set of objects, its static type)"""
        r = self.r
        if depth <= 0:
            return self.leaf(want)
        forms = ['link', 'link', 'backlink', 'isect', 'subq', 'subq', 'union', 'coalesce', 'for', 'wrap',
                 'ifelse', 'leaf']
        if r.random() < self.p_union_overlap:
            forms = ['typeunion_overlap']
        elif r.random() < 0.06:
            forms = ['typeunion']
        if self.p_stdobj and r.random() < self.p_stdobj:
            forms = ['stdobj']
        f = r.choice(forms)
        if want is not None and f in ('link', 'backlink', 'for', 'typeunion', 'typeunion_overlap', 'stdobj'):
            f = r.choice(['subq', 'union', 'coalesce', 'wrap', 'isect_to'])
        if f == 'leaf':
            return self.leaf(want)
        if f == 'link':
            e, t = self.obj(depth - 1)
            ls = links_of(t)
            if not ls:
                return e, t
            l = r.choice(sorted(ls))
            self.feats.add('computed' if l.startswith('comp_') or l == 'rback' else 'link')
            return f'({e}).{l}', ls[l][0]
        if f == 'backlink':
            e, t = self.obj(depth - 1)
            bl = backlinks_of(t)
            if not bl:
                return e, t
            l, src = r.choice(bl)
            self.feats.add('backlink')
            return f'({e}).<{l}[is {src}]', src
        if f == 'isect':
            e, t = self.obj(depth - 1)
            cands = descendants(t) or [t]
            s = r.choice(cands)
            self.feats.add('isect')
            return f'({e})[is {s}]', s
        if f == 'isect_to':
            sup = r.choice(ancestors(want) or [want])
            e, _ = self.obj(depth - 1, sup if sup != want else None) if sup != want else self.obj(depth - 1, want)
            self.feats.add('isect')
            return f'({e})[is {want}]', want
        if f == 'typeunion':
            e, t = self.obj(depth - 1, r.choice(['Named', 'T', 'Named']))
            a, b = r.choice([('T1', 'U'), ('R', 'U'), ('T2', 'U1'), ('R', 'T')]) if t == 'Named' \
                else r.choice([('T1', 'T12'), ('T2', 'T12')])
            self.feats.add('typeunion')
            return f'({e})[is {a} | {b}]', a if t != 'Named' else 'Named'
        if f == 'typeunion_overlap':
            e, t = self.obj(depth - 1, r.choice(['Named', 'T']))
            self.feats.add('typeunion_overlap')
            return f'({e})[is T1 | T2]', 'T'
        if f == 'stdobj':
            self.feats.add('stdobj')
            std = r.choice(['Object', 'BaseObject'])
            s = r.choice(['T', 'U', 'R', 'T1'])
            return f'({std})[is {s}]', s
        if f == 'subq':
            e, t = self.obj(depth - 1, want)
            self.feats.add('subq')
            tail = r.choice(['', '', ' order by .name', ' limit 2', ' order by .name limit 1', ' offset 1'])
            return f'(select {e} filter {self.boolexpr(t, depth - 1)}{tail})', t
        if f in ('union', 'coalesce', 'ifelse'):
            t = want or r.choice(['T', 'R', 'U', 'T1', 'Named'])
            e1, _ = self.obj(depth - 1, t)
            e2, _ = self.obj(max(0, depth - 2), t)
            self.feats.add('union')
            if f == 'union':
                return (f'{{{e1}, {e2}}}' if r.random() < 0.5 else f'({e1} union {e2})'), t
            if f == 'coalesce':
                return f'({e1} ?? {e2})', t
            return f"({e1} if {r.choice(['true', 'false', 'exists (' + e2 + ')'])} else {e2})", t
        if f == 'for':
            e, t = self.obj(depth - 1)
            ls = links_of(t)
            v = self.var()
            self.feats.add('for')
            if ls and r.random() < 0.7:
                l = r.choice(sorted(ls))
                self.feats.add('computed' if l.startswith('comp_') or l == 'rback' else 'link')
                return f'(for {v} in {e} union ({v}.{l}))', ls[l][0]
            return f'(for {v} in {e} union ({v}))', t
        # wrap
        e, t = self.obj(depth - 1, want)
        w = r.choice(['assert_exists', 'distinct', 'assert_distinct', 'assert_single_lim'])
        self.feats.add('wrap')
        if w == 'distinct':
            return f'(distinct {e})', t
        if w == 'assert_single_lim':
            return f'assert_single((select {e} limit 1))', t
        return f'{w}({e})', t

    def shape(self, t, depth):
        r = self.r
        self.feats.add('shape')
        els = []
        ps = props_of(t)
        for p in r.sample(ps, min(len(ps), r.randint(0, 2))):
            els.append(p)
        ls = links_of(t)
        for l in r.sample(sorted(ls), min(len(ls), r.randint(0, 2))):
            tg = ls[l][0]
            self.feats.add('computed' if l.startswith('comp_') or l == 'rback' else 'link')
            if depth > 0 and r.random() < 0.7:
                tail = r.choice(['', '', f' filter {self.boolexpr(tg, 0)}', ' order by .name', ' limit 1'])
                inner = self.shape(tg, depth - 1)
                if l == 'ms_lp' and r.random() < 0.6:
                    inner = inner[:-1].rstrip() + (', ' if inner.strip('{} ') else '') + '@lp }'
                els.append(f'{l}: {inner}{tail}')
            else:
                els.append(f'{l}: {{name}}')
        if depth > 0:
            for _ in range(r.randint(0, 2)):
                k = r.choice(['count', 'back', 'exists', 'poly', 'sub', 'type', 'linkname'])
                nm = f'c{r.randint(1, 99)}'
                if k == 'count' and ls:
                    self.feats.add('agg')
                    els.append(f'{nm} := count(.{r.choice(sorted(ls))})')
                elif k == 'back' and backlinks_of(t):
                    l, src = r.choice(backlinks_of(t))
                    self.feats.add('backlink')
                    els.append(f'{nm} := .<{l}[is {src}] {{name}}')
                elif k == 'exists' and ls:
                    els.append(f'{nm} := exists .{r.choice(sorted(ls))}')
                elif k == 'poly' and descendants(t):
                    s = r.choice(descendants(t))
                    own = [p for p in props_of(s) if p not in ps] or ['name']
                    self.feats.add('isect')
                    els.append(f'[is {s}].{r.choice(own)}')
                elif k == 'sub':
                    e, t2 = self.obj(depth - 1)
                    self.feats.add('subq')
                    els.append(f'{nm} := (select {e} limit 1) {{name}}' if r.random() < 0.5
                               else f'{nm} := count({e})')
                elif k == 'type':
                    els.append(f'{nm} := .__type__.name')
                elif k == 'linkname' and ls:
                    els.append(f'{nm} := .{r.choice(sorted(ls))}.name')
        if not els:
            els = ['name']
        return '{ ' + ', '.join(els) + ' }'

    def query(self, depth):
        r = self.r
        self.feats = set()
        self.nvar = 0
        f = r.choice(['plain', 'plain', 'shape', 'shape', 'shape', 'agg', 'agg', 'tuple', 'filter', 'with',
                      'free', 'group', 'json', 'scalar', 'is', 'cast', 'for', 'orderlink'])
        e, t = self.obj(depth)
        if f == 'plain':
            q = f'select {e}'
        elif f == 'shape':
            tail = r.choice(['', '', f' filter {self.boolexpr(t, min(depth, 1))}', ' order by .name', ' limit 3'])
            q = f'select {e} {self.shape(t, min(depth, 2))}{tail}'
        elif f == 'agg':
            self.feats.add('agg')
            q = r.choice([f'select count({e})', f'select exists {e}', f'select array_agg(({e}).name)',
                          f'select min(({e}).name)', f'select count(distinct ({e}).name)'])
        elif f == 'tuple':
            e2, _ = self.obj(max(0, depth - 1))
            self.feats.add('agg')
            q = f'select (({e}).name, count({e2}))'
        elif f == 'filter':
            q = f'select {e} filter {self.boolexpr(t, depth)} order by .name limit 5'
        elif f == 'with':
            self.feats.add('with')
            ls = links_of(t)
            if ls and r.random() < 0.6:
                l = r.choice(sorted(ls))
                self.feats.add('computed' if l.startswith('comp_') or l == 'rback' else 'link')
                q = f'with w := {e} select w.{l}'
            else:
                q = r.choice([f'with w := {e} select w {self.shape(t, 1)}', f'with w := {e} select count(w)',
                              f'with w := {e}, v := (select w filter .name = "a") select (count(w), count(v))'])
        elif f == 'free':
            e2, _ = self.obj(max(0, depth - 1))
            self.feats.update(('free', 'agg'))
            q = f'select {{ a := {e} {{name}}, b := count({e2}) }}'
        elif f == 'group':
            self.feats.add('group')
            q = r.choice([f'group {e} by .name', f'select (group {e} {{name}} by .name) {{ key: {{name}}, n := count(.elements) }}'])
        elif f == 'json':
            q = f'select <json>({e} {self.shape(t, 1)})'
        elif f == 'scalar':
            q = r.choice([f"select ({e}).name ++ '!'", f'select ({e}).id', f'select ({e}).__type__.name'])
        elif f == 'is':
            s = r.choice(descendants(t) or [t])
            q = f'select ({e}) is {s}'
        elif f == 'cast':
            self.feats.add('cast')
            q = r.choice([f"select <{t}><uuid>'00000000-0000-0000-0000-000000000001'",
                          f'select <{t}><uuid>$0', f'select {t} filter .id = <uuid>$0',
                          f'select <{t}>{{}}', f"select <{t}>to_json('\"00000000-0000-0000-0000-000000000001\"')"])
        elif f == 'for':
            self.feats.add('for')
            v = self.var()
            ls = links_of(t)
            if ls:
                l = r.choice(sorted(ls))
                self.feats.update(('agg', 'computed' if l.startswith('comp_') or l == 'rback' else 'link'))
                q = f'for {v} in {e} union ({v}.name, count({v}.{l}))'
            else:
                q = f'for {v} in {e} union ({v}.name)'
        else:
            ls = links_of(t)
            if ls:
                l = r.choice(sorted(ls))
                self.feats.add('computed' if l.startswith('comp_') or l == 'rback' else 'link')
                q = r.choice([f'select {e} order by count(.{l})', f'select {e} filter exists .{l} order by .name'])
            else:
                q = f'select {e} order by .name'
        return q, sorted(self.feats)


SEED_QUERIES = [
    # adapted from tests/test_edgeql_policies.py and tests/test_edgeql_sql_codegen.py shapes
    'select T', 'select T { name }', 'select R { name, ms: { name } }', 'select R.ms', 'select T.<ms[is R]',
    'select count(T)', 'select T filter .name = "a"', 'select R { s: {name}, n := count(.ms) }',
    'select U.<u[is T]', 'select AT', 'select AR.s', 'select global g_t', 'select global g_ts',
    'select R.comp_ts', 'select R { comp_cnt }', 'select T.rback', 'select W.rq', 'select V.vt.u',
    'select (select T filter .name = "x")', 'with x := T select x.u', 'select Named', 'select Object',
    'select BaseObject', 'select R { ms_lp: {name, @lp} }', 'select T2 union T1', 'select (T1 union U).name',
    'select {T1, U}', 'for x in R union (x.ms)', 'select T { n := .name } filter .n = "tok1"',
    'select (group T by .flag)', 'select T12.u', 'select R.ms[is T12].t1u', 'select BaseObject[is T]',
    'select (R.s ?? R.ms)', 'select exists T', 'select T limit 1', 'select T order by .name',
    'select <T>{}', 'select T filter .id = <uuid>"00000000-0000-0000-0000-000000000000"',
    'select introspect T', 'select T.__type__.name', 'select R.s.__type__', 'select T is T1',
    'select T[is T1 | U]', 'select R.tu', 'select R.tu[is U]', 'select R { tu: {name} }',
    'select Named[is R | U].name', 'select (T, U)', 'select (U, T)', 'select T { u: { back: { u: {name} } } }',
    'select W { rq: { name } }', 'select assert_exists(W.rq)', 'select R filter .s.name = "a"',
    'select R filter .ms.name = "a"', 'select T filter exists .<ms[is R]', 'select R order by .s.name',
    'select count(R.ms) + count(R.us)', 'select R { x := (select .ms filter .name = "a" limit 1) }',
    'select Object[is Named].name', 'select T1 { extra1, t1u: {name} }', 'select U1 { extra_u, back: {name} }',
    'select (select R limit 1).ms', 'select array_agg(T)', 'select to_json("1")', 'select 1',
    'select <str>count(T)', 'select DISTINCT T.u', 'select R.ms@lp' if False else 'select R.ms_lp@lp',
    'select T { rback: {name} }', 'select U { ts := .<u[is T] { name } }',
    'select R.items', 'select R { items: {name} }', 'select R.items[is U1]', 'select count(R.items)',
    'select R { tu: {name}, items: {name} } filter exists .tu', 'select T2.<items[is R]',
    'select (count(U), (global g_t).name)', 'select ((global g_t).name, count(U))', 'select (U, AT)',
    'select (AT, U)', 'select (count(T), count(global g_ts))', 'select (count(global g_ts), count(U))',
    'select (AR, T)', 'select (T, AR)', 'select U1', 'select U[is U1]', 'select T.u[is U1]', 'select U1.<u[is T]',
    'select sum(T.num)', 'select T.num', 'select T { isT1 := T is T1 }', 'select enumerate(T)',
    'select (for t in T union t.u) { name }', 'select T filter .u in U', 'select T filter .u not in U',
    'select R.ms intersect T1', 'select T except T1',
]

OVERLAP_SEEDS = ['select R.ms[is T1 | T2]', 'select count(T[is T1 | T2])', 'select Named[is T1 | T2].name',
                 'select T[is T1 | T2]', 'select R { x := .ms[is T1 | T2] { name } }']
STDOBJ_SEEDS = ['select (count(T), count(Object))', 'select (exists U, count(Object[is U]))',
                'select {T, Object}', 'select T { o := (select Object limit 1) }',
                'select (count(Object), count(T))', 'select Object', 'select BaseObject[is T]']

MALFORMED = [
    'select T.nosuchlink', 'select NoSuchType', 'select T.name + 1', 'select T[is V]', 'select T filter .name',
    'select T { nosuch }', 'select T limit "a"', 'select R.ms.ms', 'select <T>1', 'select T.<nosuch[is R]',
    'insert V { name := "x" }', 'update T set { name := "x" }', 'delete T', 'select (insert V { name := "y" })',
    'select (update U set { name := "z" })', 'select (delete W)', 'with x := (insert V {name := "q"}) select T',
    'select T filter', 'select', 'select T {', 'select T order by', 'select count(', 'select T union 1',
    'select (T, 1).0.nope', 'select T offset -1', 'select T[is ]', 'select global nosuch', 'select AT.uname.x',
    'select T { name := 1 }', 'select R { ms: { name } filter 1 }', 'for x in T union x.nosuch',
    'select <uuid>T', 'select T ?? 1', 'select T if 1 else U', 'select array_agg(T).name',
    'select sys::get_version() { x }', 'create type X', 'start transaction', 'select T filter .u = 1',
    'select assert_single(T, message := 1)', 'select T.id.id', 'select R.ms_lp@nolp', 'select T.rback.rback.x',
    'group T by .nosuch', 'select (group T by .name).nosuch', 'select {T, 1}', 'select T[0]', 'select T.name[0:',
]


def mutate_text(rnd, q):
    """token-level damage: mostly produces rejected queries, sometimes still valid ones"""
    toks = re.findall(r"[A-Za-z_][A-Za-z_0-9]*|'[^']*'|\"[^\"]*\"|\S", q)
    if not toks:
        return q
    k = rnd.choice(['drop', 'dup', 'swap', 'ident', 'brace'])
    i = rnd.randrange(len(toks))
    if k == 'drop':
        del toks[i]
    elif k == 'dup':
        toks.insert(i, toks[i])
    elif k == 'swap' and len(toks) > 1:
        j = rnd.randrange(len(toks))
        toks[i], toks[j] = toks[j], toks[i]
    elif k == 'ident':
        toks[i] = rnd.choice(['T', 'R', 'U', 'V', 'name', 'ms', 'u', 'select', 'filter', 'count', 'T1', 'Object'])
    else:
        toks.insert(i, rnd.choice(['{', '}', '(', ')', '[', ']', '.', '.<', ':=', '|']))
    return ' '.join(toks)


OPTS = ['-', '-', '-', '-', '-', 'J', 'J', 'L', 'I', 'IL', 'E', 'JE', 'N']


# ------------------------------------------------------------------------- registration cases

def gen_reg_cases(rnd, pl, n):
    out = []
    names = [t for t in TYPES]
    for _ in range(n):
        t = rnd.choice(names + ['T', 'T', 'Named', 'std::Object', 'std::BaseObject'])
        flags = rnd.choice(['11', '11', '11', '11', '10', '01', '00'])
        sup = rnd.choice(['-', '-', '-', 'R', 'T', 'T,T1,T2,T12', 'U', 'std::Object', 'V'])
        skip = rnd.choice('001')
        ign = rnd.choice('0001')
        out.append(f'R\t{pl["pid"]}\t{flags}\t{sup}\t{skip}\t{ign}\t{t}')
    return out
