"""C04 — schema stays referentially intact; earlier versions stay frozen.

Proof: coq/theories/C04 — executable model of edb/schema/schema.py::FlatSchema's raw API
       (add_raw/add, update_obj, set_obj_field, unset_obj_field, delete, discard, delist) and of
       the ChainedSchema router; theorems for every class table, every shortname function and
       every finite operation sequence (Props.v); computed counter-examples (Refuted.v).
       A guarded command layer (create/alter/drop with reference guards) is proved to keep
       references resolvable — MODEL ONLY, it is not tied to edb/schema/delta.py.
Tie, layer 1: correspondence — the real FlatSchema / ChainedSchema (real schema object classes,
       loaded under the stub installer) and the OCaml-extracted model run on the same operation
       sequences; the status of every op and the canonical dump of all six indexes after every op
       are compared.  Monitors (harness/impl/c04_impl.py) evaluate the property directly on the
       real schema values: indexes recomputed from scratch, public lookups vs object data,
       dropped objects unreachable, rejected op => identical schema, earlier values frozen.
Layer 2: generated DDL histories applied through the REAL delta commands (runtime substrate
       harness/rt: parser substitute + real std schema); monitors only: every reference of every
       user object resolves, indexes recomputed, lookups agree, dropped objects unreachable,
       rejected statement => identical schema, earlier schema values frozen.
"""
from __future__ import annotations

import itertools
import json
import os
import re
import sys

import lib

PROP = 'C04'
THEOREMS = [
    'C04_index_inv', 'C04_index_inv_reachable', 'C04_name_index_complete',
    'C04_lookup_unique_global', 'C04_lookup_unique_name', 'C04_deleted_unreachable',
    'C04_rejected_noop', 'C04_persistent', 'C04_chained_inv', 'C04_chained_base_frozen',
    'C04_cmd_index_inv', 'C04_cmd_refint', 'C04_cmd_refint_reachable',
]
REFUTED = ['C04_index_inv_without_wf_op_refuted', 'C04_raw_api_refint_refuted']
IMPL = os.path.join(lib.VERIF, 'harness', 'impl', 'c04_impl.py')

_DESC = None


def desc():
    global _DESC
    if _DESC is None:
        rc, out, err = lib.impl_python(IMPL, [lib.REPO, 'describe'])
        if rc != 0:
            raise RuntimeError('c04_impl describe failed:\n' + err[-3000:])
        _DESC = json.loads(out)
    return _DESC


# ---------------------------------------------------------------- case representation
# name: ('U', s) | ('Q', m, s);  value: ('N', name) | ('R', [ids]) | ('P', n) | None
# op: ('A', how, id, cls, [(f, val)]) | ('U', hc, id, [(f, val|None)]) | ('S', hc, id, f, val|None)
#     ('X', hc, id, f) | ('D', hc, id) | ('K', hc, id) | ('L', name)
# case: (mode, base_ops, ops)       mode 'F' | 'C' | 'X' (out of model: monitors only, flat)

def s_name(n):
    return f'U{n[1]}' if n[0] == 'U' else f'Q{n[1]}.{n[2]}'


def s_val(v):
    if v is None:
        return '-'
    if v[0] == 'N':
        return 'N' + s_name(v[1])
    if v[0] == 'R':
        return 'R' + '+'.join(map(str, v[1]))
    return 'P' + str(v[1])


def s_fields(fs):
    return ','.join(f'{f}={s_val(v)}' for f, v in fs)


def s_op(op):
    k = op[0]
    if k == 'A':
        return f'A{op[1]}:{op[2]}:{op[3]}:{s_fields(op[4])}'
    if k == 'U':
        return f'U:{op[1]}:{op[2]}:{s_fields(op[3])}'
    if k == 'S':
        return f'S:{op[1]}:{op[2]}:{op[3]}:{s_val(op[4])}'
    if k == 'X':
        return f'X:{op[1]}:{op[2]}:{op[3]}'
    if k in ('D', 'K'):
        return f'{k}:{op[1]}:{op[2]}'
    return 'L:' + s_name(op[1])


def names_in(ops):
    for op in ops:
        if op[0] == 'A':
            fs = op[4]
        elif op[0] == 'U':
            fs = op[3]
        elif op[0] == 'S':
            fs = [(op[3], op[4])]
        elif op[0] == 'L':
            yield op[1]
            continue
        else:
            continue
        for _, v in fs:
            if v is not None and v[0] == 'N':
                yield v[1]


def classes_in(ops):
    for op in ops:
        if op[0] == 'A':
            yield op[3]
        elif op[0] != 'L':
            yield op[1]


def extra_of(case):
    return case[3] if len(case) > 3 else None


def enc(case):
    """extra (optional 4th component): {'strs': [str,...] (codes 100+i), 'shorts': {name: name},
    'intended': [(full, want, kf)]}  -- names in the s_name() spelling"""
    mode, base, ops = case[:3]
    extra = extra_of(case)
    d = desc()
    cl = sorted(set(classes_in(ops)) | set(classes_in(base)) | {d['module_cls']})
    cparts = []
    for c in cl:
        x = d['classes'][c]
        cparts.append(f"{c}:{int(x['qual'])}{int(x['sn'])}{int(x['gobj'])}:{x['nf']}:{x['nameidx']}:"
                      + '+'.join(str(r['idx']) for r in x['refs']))
    table = dict(d['shorts'])
    if extra:
        table.update(extra['shorts'])
    shorts = sorted({(s_name(n), table[s_name(n)]) for n in itertools.chain(names_in(ops), names_in(base))
                     if s_name(n) in table})
    env = '/'.join(cparts) + '|' + str(d['module_cls']) + '|' + '+'.join(map(str, d['special'])) + '|' + \
          ','.join(f'{a}>{b}' for a, b in shorts)
    if mode == 'C' or extra:
        env += '|' + (';'.join(s_op(o) for o in base) if mode == 'C' else '')
    if extra:
        used = {s_name(n) for n in itertools.chain(names_in(ops), names_in(base))}
        env += '|' + ','.join(x.encode('utf-8').hex() for x in extra['strs'])
        env += '|' + ','.join(f'{a}>{b}>{int(k)}' for a, b, k in extra['intended'] if a in used)
    return ('F' if mode == 'X' else mode) + '#' + env + '#' + ';'.join(s_op(o) for o in ops)


def p_name(s):
    if s[0] == 'U':
        return ('U', int(s[1:]))
    m, x = s[1:].split('.')
    return ('Q', int(m), int(x))


def p_val(s):
    if s == '-':
        return None
    if s[0] == 'N':
        return ('N', p_name(s[1:]))
    if s[0] == 'R':
        return ('R', [int(x) for x in s[1:].split('+')] if s[1:] else [])
    return ('P', int(s[1:]))


def p_fields(s):
    out = []
    for kv in (s.split(',') if s else []):
        k, v = kv.split('=', 1)
        out.append((int(k), p_val(v)))
    return out


def p_op(s):
    p = s.split(':')
    k = p[0]
    if k[0] == 'A':
        return ('A', k[1], int(p[1]), int(p[2]), p_fields(p[3]))
    if k == 'U':
        return ('U', int(p[1]), int(p[2]), p_fields(p[3]))
    if k == 'S':
        return ('S', int(p[1]), int(p[2]), int(p[3]), p_val(p[4]))
    if k == 'X':
        return ('X', int(p[1]), int(p[2]), int(p[3]))
    if k in ('D', 'K'):
        return (k, int(p[1]), int(p[2]))
    return ('L', p_name(p[1]))


def dec(line, mode=None):
    m, env, ops = line.split('#')
    parts = env.split('|')
    base = [p_op(x) for x in parts[4].split(';') if x] if len(parts) > 4 else []
    case = (mode or m[0], base, [p_op(x) for x in ops.split(';') if x])
    if len(parts) > 5 and parts[5]:
        extra = {'strs': [bytes.fromhex(h).decode('utf-8') for h in parts[5].split(',')],
                 'shorts': dict(e.split('>') for e in parts[3].split(',') if e),
                 'intended': [(a, b, c == '1') for a, b, c in
                              (e.split('>') for e in (parts[6].split(',') if len(parts) > 6 and parts[6] else []))]}
        case = case + (extra,)
    return case


# ---------------------------------------------------------------- generators
COMMON = ['ObjectType', 'ScalarType', 'Property', 'Link', 'Constraint', 'Index', 'Annotation',
          'AnnotationValue', 'Function', 'Operator', 'Parameter', 'Role', 'Branch', 'Extension',
          'ExtensionPackage', 'Migration', 'Tuple', 'Array', 'Alias', 'Global', 'Trigger',
          'Rewrite', 'AccessPolicy', 'Cast', 'Function', 'Operator', 'ObjectType']


class Gen:
    """valid-biased generator of raw-API histories with an approximate shadow of the schema"""

    def __init__(self, rnd, mode='F', wild=0.12, base=None):
        d = desc()
        self.d = d
        self.rnd = rnd
        self.mode = mode
        self.wild = wild                     # probability of a deliberately invalid choice
        by = {c['name']: c['code'] for c in d['classes']}
        self.modc = d['module_cls']
        k = rnd.randint(2, 4)
        cs = [by[rnd.choice(COMMON)] for _ in range(k)]
        if rnd.random() < 0.25:
            cs.append(rnd.randrange(len(d['classes'])))
        self.classes = sorted(set(cs))
        self.ids = list(range(1, rnd.randint(4, 9)))
        # every id keeps ONE class for the whole history (uuids are never reused across classes);
        # handles are always built with it, as get_by_id would
        self.cls_of = {}
        for i in self.ids:
            self.cls_of[i] = self.modc if (i <= 2 and rnd.random() < 0.8) or rnd.random() < 0.1 \
                else rnd.choice(self.classes)
        self.live = {}       # id -> [cls, name, {f: ids}]
        self.modules = set()
        self.delisted = set()
        self.base_live = {}
        if base:
            for op in base:
                if op[0] == 'A':
                    nm = next((v[1] for f, v in op[4] if v and v[0] == 'N'), None)
                    self.base_live[op[2]] = [op[3], nm, {}]
                    self.cls_of[op[2]] = op[3]

    # -- names
    def mod_code(self):
        r = self.rnd
        if self.modules and r.random() > self.wild:
            return r.choice(sorted(self.modules))
        return r.choice([0, 1, 2, 2, 3, 4])

    def local_code(self, c):
        r = self.rnd
        xl = getattr(self, 'xlocals', None)
        if xl and r.random() < 0.65:
            return r.choice(xl)
        if self.d['classes'][c]['sn'] and r.random() < 0.75:
            return r.choice([10, 11, 12, 13, 14, 10, 11])
        return r.choice([5, 6, 7, 8, 9, 10, 14])

    def used_names(self):
        return {tuple(v[1]) for v in self.live.values() if v[1] is not None}

    def new_name(self, c):
        r = self.rnd
        ci = self.d['classes'][c]
        for _ in range(6):
            if c == self.modc:
                n = ('U', r.choice([0, 1, 0, 1, 3, 4]))
            elif not ci['qual']:
                n = ('U', r.choice([5, 6, 7, 10, 11, 0])) if r.random() > 0.03 else ('Q', 0, 5)
            else:
                n = ('Q', self.mod_code(), self.local_code(c)) if r.random() > 0.02 else ('U', 5)
            if n not in self.used_names() or r.random() < self.wild:
                return n
        return n

    def refs_value(self, c, ref):
        r = self.rnd
        pool = (sorted(self.live) + sorted(self.base_live)) if (self.live or self.base_live) else self.ids
        pick = lambda: r.choice(pool) if r.random() < 0.8 else r.choice(self.ids)
        if ref['kind'] == 'single':
            return ('R', [pick()])
        n = r.choice([0, 1, 1, 2, 2, 3])
        ids = [pick() for _ in range(n)]
        if ref['setlike']:
            ids = sorted(set(ids))
        elif ids and r.random() < 0.1:
            ids.append(ids[0])
        return ('R', ids)

    def plain_field(self, c):
        ci = self.d['classes'][c]
        refs = {x['idx'] for x in ci['refs']}
        cand = [i for i in range(ci['nf']) if i not in refs and i != ci['nameidx']]
        return self.rnd.choice(cand)

    def pick_live(self):
        r = self.rnd
        if self.live and r.random() > self.wild:
            i = r.choice(sorted(self.live))
            return i, self.live[i][0]
        if self.base_live and r.random() < 0.5:
            i = r.choice(sorted(self.base_live))
            return i, self.base_live[i][0]
        i = r.choice(self.ids)
        return i, self.cls_of[i]

    # -- ops
    def op_add(self):
        r = self.rnd
        free = [i for i in self.ids if i not in self.live]
        if not self.modules and r.random() < 0.85:
            mfree = [i for i in free if self.cls_of[i] == self.modc]
            if mfree:
                free = mfree
        i = r.choice(free) if free and r.random() > self.wild * 0.7 else r.choice(self.ids)
        c = self.cls_of[i]
        ci = self.d['classes'][c]
        fs = []
        n = self.new_name(c) if r.random() > 0.02 else None
        if n is not None:
            fs.append((ci['nameidx'], ('N', n)))
        refd = {}
        for ref in ci['refs']:
            if r.random() < min(0.6, 1.6 / max(1, len(ci['refs']))):
                v = self.refs_value(c, ref)
                if r.random() < 0.01:
                    v = ('P', 7)                      # ill-kinded: TypeError in add_raw
                fs.append((ref['idx'], v))
                refd[ref['idx']] = v[1] if v[0] == 'R' else []
        if r.random() < 0.3:
            fs.append((self.plain_field(c), ('P', r.randrange(4))))
        r.shuffle(fs)
        ok = (i not in self.live and n is not None and n not in self.used_names()
              and (not ci['qual'] or (n[0] == 'Q' and (n[1] in self.modules or n[1] == 2))))
        if ok:
            self.live[i] = [c, n, refd]
            if c == self.modc:
                self.modules.add(n[1])
        return ('A', r.choice('ra'), i, c, fs)

    def field_update(self, c, allow_none=True):
        """one (field, value) pair for class c"""
        r = self.rnd
        ci = self.d['classes'][c]
        x = r.random()
        if x < 0.3 or not ci['refs']:
            if x < 0.22:
                n = self.new_name(c)
                return ci['nameidx'], (('N', n) if r.random() > 0.04 or not allow_none else None)
            return self.plain_field(c), (('P', r.randrange(4)) if r.random() > 0.1 else None)
        ref = r.choice(ci['refs'])
        if allow_none and r.random() < 0.15:
            return ref['idx'], None
        if r.random() < 0.015:
            return ref['idx'], ('P', 3)
        return ref['idx'], self.refs_value(c, ref)

    def note_update(self, i, c, fs):
        if i in self.live and self.live[i][0] == c:
            ci = self.d['classes'][c]
            for f, v in fs:
                if f == ci['nameidx']:
                    if v is None:
                        self.live[i][1] = None
                    elif v[1] not in self.used_names():
                        if c == self.modc and self.live[i][1]:
                            self.modules.discard(self.live[i][1][1])
                        self.live[i][1] = v[1]
                        if c == self.modc:
                            self.modules.add(v[1][1])
                elif v is None:
                    self.live[i][2].pop(f, None)
                elif v[0] == 'R':
                    self.live[i][2][f] = v[1]

    def op_update(self):
        r = self.rnd
        i, c = self.pick_live()
        ci = self.d['classes'][c]
        k = r.choice([1, 1, 2, 2, 3, 0]) if r.random() < 0.97 else 0
        fs, seen = [], set()
        for _ in range(k):
            f, v = self.field_update(c)
            if f not in seen:
                seen.add(f)
                fs.append((f, v))
        if r.random() < 0.02:
            fs.append((ci['nf'] + 1, ('P', 1)))       # no such field
        self.note_update(i, c, fs)
        return ('U', c, i, fs)

    def op_set(self):
        r = self.rnd
        i, c = self.pick_live()
        ci = self.d['classes'][c]
        f, v = self.field_update(c, allow_none=r.random() < 0.5)
        if r.random() < 0.015:
            f = ci['nf'] + 2
        self.note_update(i, c, [(f, v)])
        return ('S', c, i, f, v)

    def op_unset(self):
        r = self.rnd
        i, c = self.pick_live()
        ci = self.d['classes'][c]
        if i in self.live and r.random() < 0.7:
            cand = list(self.live[i][2]) + ([ci['nameidx']] if r.random() < 0.25 else [])
            f = r.choice(cand) if cand else self.plain_field(c)
        else:
            f = r.choice([ci['nameidx'], self.plain_field(c)] + [x['idx'] for x in ci['refs']])
        if r.random() < 0.01:
            f = ci['nf'] + 3
        self.note_update(i, c, [(f, None)])
        return ('X', c, i, f)

    def op_delete(self, kind):
        i, c = self.pick_live()
        if i in self.live and self.live[i][0] == c:
            v = self.live.pop(i)
            if c == self.modc and v[1]:
                self.modules.discard(v[1][1])
        return (kind, c, i)

    def op_delist(self):
        r = self.rnd
        q = [v[1] for v in self.live.values() if v[1] is not None and v[1][0] == 'Q']
        if q and r.random() > self.wild:
            n = r.choice(sorted(q))
        else:
            n = ('Q', r.choice([0, 1, 2]), r.choice([5, 6, 10]))
        self.delisted.add(n)
        return ('L', n)

    def op(self):
        x = self.rnd.random()
        if not self.live or x < 0.28:
            return self.op_add()
        if x < 0.43:
            return self.op_update()
        if x < 0.65:
            return self.op_set()
        if x < 0.75:
            return self.op_unset()
        if x < 0.88:
            return self.op_delete('D')
        if x < 0.93:
            return self.op_delete('K')
        if x < 0.97:
            return self.op_delist()
        return self.op_add()


ADV_ALPHABET = ['a', 'b', 'x', 'y', 'T', '|', '||', '@', '&', '&&', ':', '.', 'é', '日本', '`', ' ', '_', '-',
                'select', 'Q' * 40]


def kfadj(ident):
    """input predicate of known finding C04-KF1 (same as in c04_impl.py)"""
    return any(c.startswith(('|', ':')) or c.endswith(('&', '@')) or '@@' in c or '@&' in c or '&@' in c for c in ident.split('::'))


def kfq(q):
    """a qualifier is joined to the name with '@': one that itself starts with '&' / '@' makes '@&' / '@@'"""
    return kfadj(q) or q.startswith(('&', '@'))


def adv_ident(rnd, kf):
    """an identifier a back-quoted name may spell: no '::', not starting with '@', not empty;
    kf=False: outside the input predicate of C04-KF1; kf=True: inside it"""
    for _ in range(200):
        x = ''.join(rnd.choice(ADV_ALPHABET) for _ in range(rnd.choice([1, 2, 2, 3, 3, 4])))
        if kf and rnd.random() < 0.7:
            x = rnd.choice(['|', 'a@@', 'a@&', 'a&@']) + x
        while '::' in x:
            x = x.replace('::', ':')
        if not x or x[0] == '@' or x.strip() != x or (x.startswith('__') and x.endswith('__')):
            continue
        if kfadj(x) == kf:
            return x
    return '|y' if kf else 'x|y'


def confusable(x):
    """identifiers that a faulty (un)mangling could identify with x"""
    out = [x.replace('|', '||'), x.replace('||', '|'), x.replace('@', '&'), x.replace('&&', '&'),
           x.replace('|', '::').split('::')[-1], x.replace('@', '|'), x.split('@')[0], x.split('|')[-1]]
    return [y for y in out if y and y != x and y[0] != '@' and '::' not in y and not kfadj(y)]


def adv_items(rnd, n, kf):
    """(base module, base local, qualifiers): what a derived child name is built from"""
    items = []
    for _ in range(n):
        bl = adv_ident(rnd, kf and rnd.random() < 0.6)
        quals = []
        for _ in range(rnd.choice([0, 1, 1, 2])):
            q = adv_ident(rnd, kf and rnd.random() < 0.4)
            quals.append(rnd.choice(['m0::', 'm1::', '']) + q)
        items.append((rnd.choice(['m0', 'm1']), bl, quals))
        for y in confusable(bl)[:2]:
            items.append((items[-1][0], y, quals))
    if kf:
        items = [it for it in items if kfadj(it[1]) or any(kfq(q) for q in it[2])] or [('m0', '|y', [])]
    else:
        items = [it for it in items if not kfadj(it[1]) and not any(kfq(q) for q in it[2])]
    return items


_POOLS = {}


def adv_pool(kf):
    """adversarial names with the REAL specialized name / shortname of each, computed by the
    implementation (c04_impl.py mangle) for exactly these generated names"""
    if kf not in _POOLS:
        rnd = lib.rng('C04pool' + str(kf))
        items = adv_items(rnd, 120 if not kf else 40, kf)
        req = [[bm, bl, quals, bm] for bm, bl, quals in items]
        rc, out, err = lib.impl_python(IMPL, [lib.REPO, 'mangle'], input=json.dumps(req))
        if rc != 0:
            raise RuntimeError('c04_impl mangle failed:\n' + err[-2000:])
        _POOLS[kf] = [dict(bm=bm, bl=bl, quals=quals, spec=r['spec'], short=r['short'])
                      for (bm, bl, quals), r in zip(items, json.loads(out))]
    return _POOLS[kf]


def make_extra(rnd, kf):
    """a per-case string table with a few adversarial function-like full names"""
    d = desc()
    pool = adv_pool(kf)
    strs = []

    def code(x):
        if x in d['strings']:
            return d['strings'].index(x)
        if x not in strs:
            strs.append(x)
        return 100 + strs.index(x)
    shorts, intended, xlocals = {}, [], []
    for it in rnd.sample(pool, min(len(pool), rnd.choice([2, 3, 4]))):
        sh = it['short']
        real = f"Q{code(sh[1])}.{code(sh[2])}" if sh[0] == 'Q' else f"U{code(sh[1])}"
        want = f"Q{code(it['bm'])}.{code(it['bl'])}"
        k = kfadj(it['bl']) or any(kfq(q) for q in it['quals'])
        for m in range(d['nmod']):      # the short name does not depend on the module of the full name
            full = f"Q{m}.{code(it['spec'])}"
            if real != full:
                shorts[full] = real
            intended.append((full, want, k))
        xlocals.append(code(it['spec']))
    return {'strs': strs, 'shorts': shorts, 'intended': intended}, xlocals


def random_case(rnd, maxlen, adv=None):
    """adv: None | False (adversarial names outside C04-KF1's predicate) | True (inside it)"""
    mode = 'C' if rnd.random() < 0.15 else 'F'
    base = []
    if mode == 'C':
        d = desc()
        by = {c['name']: c['code'] for c in d['classes']}
        # a small "std" base schema: module std (+ sometimes m0) and a few objects
        base = [('A', 'r', 20, d['module_cls'], [(2, ('N', ('U', 3)))])]
        if rnd.random() < 0.5:
            base.append(('A', 'r', 24, d['module_cls'], [(2, ('N', ('U', 0)))]))
        for j, cn in enumerate(rnd.sample(['ObjectType', 'ScalarType', 'Function', 'Annotation'], 2)):
            c = by[cn]
            fs = [(2, ('N', ('Q', 3, rnd.choice([5, 6, 10, 11]))))]
            refs = d['classes'][c]['refs']
            if refs and rnd.random() < 0.6:
                ref = rnd.choice([x for x in refs if x['kind'] == 'coll' and not x['setlike']] or refs)
                if ref['kind'] == 'coll':
                    fs.append((ref['idx'], ('R', [21] if not ref['setlike'] else [21])))
            base.append(('A', 'r', 21 + j, c, fs))
    g = Gen(rnd, mode, wild=rnd.choice([0.05, 0.12, 0.12, 0.3]), base=base)
    if mode == 'C':
        # classes of base objects must be usable as handles
        g.classes = sorted(set(g.classes) | {op[3] for op in base if op[3] != g.modc})
    extra = None
    if adv is not None:
        extra, g.xlocals = make_extra(rnd, adv)
        by = {c['name']: c['code'] for c in desc()['classes']}
        # short names matter for Function / Operator: make sure one of them is in play
        g.classes = sorted(set(g.classes) | {by[rnd.choice(['Function', 'Operator'])]})
        for i in g.ids[2:4]:
            g.cls_of[i] = by[rnd.choice(['Function', 'Operator'])]
    n = rnd.randint(2, maxlen)
    ops = [g.op() for _ in range(n)]
    return (mode, base, ops, extra) if extra else (mode, base, ops)


def names_case(rnd, kf):
    """function-level stream: a batch of (base module, base local, qualifiers)"""
    return [[bm, bl, quals] for bm, bl, quals in adv_items(rnd, rnd.choice([4, 8, 12]), kf)]


def mismatch_case(rnd, maxlen):
    """out-of-model stream: one op uses a handle of a different class than the stored one"""
    g = Gen(rnd, 'F', wild=0.05)
    ops = [g.op() for _ in range(rnd.randint(3, maxlen))]
    for _ in range(3):
        k = rnd.randrange(len(ops))
        op = ops[k]
        if op[0] in ('U', 'D', 'K'):
            other = rnd.choice([c for c in g.classes + [g.modc] if c != op[1]] or [op[1]])
            if other == op[1]:
                continue
            if op[0] == 'U':      # keep only name / payload fields valid in the other layout
                oc = g.d['classes'][other]
                orefs = {x['idx'] for x in oc['refs']}
                fs = [(f, v) for f, v in op[3] if (v is None or v[0] != 'R') and f not in orefs
                      and f < oc['nf']]
                ops[k] = ('U', other, op[2], fs)
            else:
                ops[k] = (op[0], other) + tuple(op[2:])
            break
    return ('X', [], ops)


def exhaustive_menu():
    """fixed tiny universe: Module m0 exists (id 1), ObjectType ids {2,3}, Function ids {4,5}"""
    d = desc()
    by = {c['name']: c['code'] for c in d['classes']}
    M, OT, FN = d['module_cls'], by['ObjectType'], by['Function']
    bases = next(r['idx'] for r in d['classes'][OT]['refs'] if r['name'] == 'bases')
    uo = next(r['idx'] for r in d['classes'][OT]['refs'] if r['name'] == 'union_of')
    params = next(r['idx'] for r in d['classes'][FN]['refs'] if r['name'] == 'params')
    A, B, FX, FY = ('Q', 0, 5), ('Q', 0, 6), ('Q', 0, 10), ('Q', 0, 11)
    menu = [
        ('A', 'r', 2, OT, [(2, ('N', A))]),
        ('A', 'a', 3, OT, [(2, ('N', B)), (bases, ('R', [2, 2]))]),
        ('A', 'r', 3, OT, [(2, ('N', A)), (uo, ('R', [2, 3]))]),
        ('A', 'r', 4, FN, [(2, ('N', FX)), (params, ('R', [3]))]),
        ('A', 'a', 5, FN, [(2, ('N', FY))]),
        ('A', 'r', 3, OT, [(2, ('N', ('Q', 1, 5)))]),
        ('S', OT, 2, 2, ('N', B)),
        ('S', OT, 3, bases, ('R', [3, 2])),
        ('S', OT, 2, uo, ('R', [])),
        ('S', FN, 4, 2, ('N', FY)),
        ('U', OT, 3, [(2, ('N', A)), (bases, None)]),
        ('U', OT, 2, [(uo, ('R', [3])), (4, ('P', 1))]),
        ('U', FN, 5, [(2, None)]),
        ('X', OT, 3, bases),
        ('X', OT, 2, 2),
        ('X', FN, 4, params),
        ('D', OT, 2), ('D', OT, 3), ('D', FN, 4), ('K', FN, 5),
        ('L', A), ('L', FX),
        ('D', M, 1),
        ('S', M, 1, 2, ('N', ('U', 1))),
    ]
    return [('A', 'r', 1, M, [(2, ('N', ('U', 0)))])], menu


def exhaustive_cases(depth, menu_limit=None):
    prefix, menu = exhaustive_menu()
    if menu_limit:
        menu = menu[:menu_limit]
    for seq in itertools.product(menu, repeat=depth):
        yield ('F', [], prefix + list(seq))


def corpus():
    p = os.path.join(lib.VERIF, 'corpus', PROP)
    out = []
    if os.path.isdir(p):
        for f in sorted(os.listdir(p)):
            if f.endswith('.json'):
                j = json.load(open(os.path.join(p, f)))
                out.append((j['case'], j.get('mode')))
    return out


def gen_cases(tier):
    rnd = lib.rng('C04')
    cases = [dec(c, m) for c, m in corpus()]
    ncorpus = len(cases)
    if tier == 'quick':
        cases += list(exhaustive_cases(3, menu_limit=18))
        cases += [random_case(rnd, 14) for _ in range(4000)]
        cases += [random_case(rnd, 14, adv=False) for _ in range(1200)]
        cases += [random_case(rnd, 10, adv=True) for _ in range(120)]
        cases += [random_case(rnd, 30) for _ in range(500)]
        cases += [mismatch_case(rnd, 10) for _ in range(400)]
    else:
        cases += list(exhaustive_cases(3))
        cases += list(exhaustive_cases(4, menu_limit=13))
        cases += [random_case(rnd, 14) for _ in range(95000)]
        cases += [random_case(rnd, 14, adv=False) for _ in range(25000)]
        cases += [random_case(rnd, 10, adv=True) for _ in range(1500)]
        cases += [random_case(rnd, 40) for _ in range(20000)]
        cases += [mismatch_case(rnd, 12) for _ in range(5000)]
    return cases, ncorpus



# ---------------------------------------------------------------- Layer 2: DDL histories
SCALARS = ['str', 'int64', 'bool', 'float64']


class DDLGen:
    """valid-biased generator of DDL histories over a small pool of names, with a shadow of the
    user schema precise enough that most commands meant to succeed do"""

    def __init__(self, rnd):
        self.r = rnd
        self.wild = rnd.choice([0.05, 0.1, 0.1, 0.25])
        self.types = {}        # name -> dict(props={p: scalar}, links={l: target}, bases=[...], idx=set(), ann=set(), comp=set())
        self.scalars = {}      # name -> base
        self.annos = set()
        self.funcs = {}        # name -> param type name (object type or scalar)
        self.aliases = {}      # name -> type
        self.globals_ = {}     # name -> kind
        self.modules = {'default'}
        self.exp = {}          # expectations of the statement being generated (last write wins)

    def expect(self, *e):
        """('ptr'|'noptr', T, p) / ('obj'|'noobj', n) / ('func'|'nofunc', f): checked by the
        implementation driver only if the statement is accepted"""
        kind = e[0]
        key = ('p',) + e[1:] if kind in ('ptr', 'noptr') else (('f',) + e[1:] if 'func' in kind else ('o',) + e[1:])
        self.exp[key] = list(e)

    # -- pools
    def tname(self, existing=None):
        r = self.r
        if existing is True and self.types and r.random() > self.wild:
            return r.choice(sorted(self.types))
        if existing is False:
            free = [f'T{i}' for i in range(6) if f'T{i}' not in self.types]
            if free and r.random() > self.wild:
                return r.choice(free)
        return f'T{r.randrange(6)}'

    def scalar(self):
        r = self.r
        if self.scalars and r.random() < 0.3:
            return r.choice(sorted(self.scalars))
        return r.choice(SCALARS) if r.random() > self.wild * 0.3 else 'nosuchscalar'

    def users_of_type(self, t):
        u = []
        for n, d in self.types.items():
            if n != t and (t in d['bases'] or t in d['links'].values()):
                u.append(n)
        u += [f for f, pts in self.funcs.items() if t in pts]
        u += [a for a, at in self.aliases.items() if at == t]
        u += [g for g, k in self.globals_.items() if k == t]
        return u

    def descendants(self, t):
        out, todo = set(), [t]
        while todo:
            x = todo.pop()
            for n, d in self.types.items():
                if x in d['bases'] and n not in out:
                    out.add(n)
                    todo.append(n)
        return out

    def all_props(self, t, seen=None):
        seen = seen or set()
        if t not in self.types or t in seen:
            return {}
        seen.add(t)
        out = {}
        for b in self.types[t]['bases']:
            out.update(self.all_props(b, seen))
        out.update(self.types[t]['props'])
        return out

    # -- commands
    def body_create(self, t, own, limit=99):
        r = self.r
        parts = []
        for _ in range(r.choice([0, 1, 1, 2])):
            p = f'p{r.randrange(4)}'
            if p in own['props'] or p in self.all_props(t) or len(parts) >= limit:
                continue
            sc = self.scalar()
            req = 'REQUIRED ' if r.random() < 0.2 else ''
            extra = ' { CREATE CONSTRAINT exclusive; }' if r.random() < 0.15 else ''
            parts.append(f'CREATE {req}PROPERTY {p} -> {sc}{extra};')
            self.expect('ptr', t, p)
            if sc != 'nosuchscalar':
                own['props'][p] = sc
        for _ in range(r.choice([0, 0, 1, 1])):
            l = f'l{r.randrange(3)}'
            if l in own['links'] or len(parts) >= limit:
                continue
            tgt = self.tname(True) if self.types else t
            if r.random() < 0.15:
                tgt = t
            multi = 'MULTI ' if r.random() < 0.3 else ''
            lp = ' { CREATE PROPERTY lp0 -> str; }' if r.random() < 0.15 else ''
            parts.append(f'CREATE {multi}LINK {l} -> {tgt}{lp};')
            self.expect('ptr', t, l)
            if tgt in self.types or tgt == t:
                own['links'][l] = tgt
        if own['props'] and r.random() < 0.25 and len(parts) < limit:
            p = r.choice(sorted(own['props']))
            parts.append(f'CREATE INDEX ON (.{p});')
            own['idx'].add(p)
        if own['props'] and r.random() < 0.15 and len(parts) < limit and 'c0' not in own['comp']:
            p = r.choice(sorted(own['props']))
            parts.append(f'CREATE PROPERTY c0 := (<str>.{p} ++ "x");')
            self.expect('ptr', t, 'c0')
            own['comp'].add('c0')
        if self.annos and r.random() < 0.2 and len(parts) < limit:
            a = r.choice(sorted(self.annos))
            parts.append(f"CREATE ANNOTATION {a} := 'v';")
            own['ann'].add(a)
        return parts

    def c_create_type(self):
        r = self.r
        t = self.tname(False)
        bases = []
        if self.types and r.random() < 0.4:
            bases = r.sample(sorted(self.types), min(len(self.types), r.choice([1, 1, 2])))
            bases = [b for b in bases if b != t]
        own = dict(props={}, links={}, bases=bases, idx=set(), ann=set(), comp=set())
        ok = t not in self.types
        if ok:
            self.types[t] = own          # visible to its own body (self links)
        parts = self.body_create(t, own)
        if not ok and t in self.types and self.types[t] is own:
            del self.types[t]
        ext = f' EXTENDING {", ".join(bases)}' if bases else ''
        ab = 'ABSTRACT ' if r.random() < 0.1 else ''
        body = (' { ' + ' '.join(parts) + ' }') if parts else ''
        self.expect('obj', t)
        return f'CREATE {ab}TYPE {t}{ext}{body};'

    def c_alter_type(self):
        r = self.r
        t = self.tname(True)
        d = self.types.get(t, dict(props={}, links={}, bases=[], idx=set(), ann=set(), comp=set()))
        subs = []
        for _ in range(r.choice([1, 1, 2, 3])):
            x = r.random()
            if x < 0.3:
                subs += self.body_create(t, d, limit=1)
            elif x < 0.42 and d['props']:
                p = r.choice(sorted(d['props']))
                subs.append(f'DROP PROPERTY {p};')
                self.expect('noptr', t, p)
                if p not in d['idx'] and not d['comp']:
                    d['props'].pop(p, None)
            elif x < 0.5 and d['links']:
                l = r.choice(sorted(d['links']))
                subs.append(f'DROP LINK {l};')
                self.expect('noptr', t, l)
                d['links'].pop(l, None)
            elif x < 0.62 and d['props'] and not any('RENAME TO' in y for y in subs):
                # (at most one rename per command: a second ALTER of the old name in the same
                # command is resolved against the schema before the command, which makes the
                # outcome of chained renames a matter of convention rather than of C04)
                p = r.choice(sorted(d['props']))
                q = f'p{r.randrange(4)}'
                subs.append(f'ALTER PROPERTY {p} {{ RENAME TO {q}; }};')
                if q != p:
                    self.expect('noptr', t, p)
                self.expect('ptr', t, q)
                if q not in self.all_props(t):
                    d['props'][q] = d['props'].pop(p)
                    if p in d['idx']:
                        d['idx'].discard(p)
                        d['idx'].add(q)
            elif x < 0.7 and d['links']:
                l = r.choice(sorted(d['links']))
                tgt = self.tname(True)
                subs.append(f'ALTER LINK {l} {{ SET TYPE {tgt}; }};')
                if tgt in self.types:
                    d['links'][l] = tgt
            elif x < 0.76 and d['idx']:
                p = r.choice(sorted(d['idx']))
                subs.append(f'DROP INDEX ON (.{p});')
                d['idx'].discard(p)
            elif x < 0.82 and self.types:
                b = self.tname(True)
                cyc = b == t or b in self.descendants(t)
                if cyc and r.random() < 0.97:
                    continue            # inheritance cycles end in RecursionError (slow): keep them rare
                if b in d['bases']:
                    subs.append(f'DROP EXTENDING {b};')
                    d['bases'].remove(b)
                else:
                    subs.append(f'EXTENDING {b} LAST;')
                    if b in self.types and not cyc:
                        d['bases'].append(b)
            elif x < 0.88 and d['ann']:
                a = r.choice(sorted(d['ann']))
                subs.append(f'DROP ANNOTATION {a};')
                d['ann'].discard(a)
            elif x < 0.93:
                subs.append("CREATE ACCESS POLICY ap0 ALLOW ALL USING (true);" if r.random() < 0.5
                            else "CREATE CONSTRAINT expression ON (true);")
            else:
                subs.append('CREATE LINK bad -> NoSuchType;')       # fails part-way
        for y in subs:
            mo = re.match(r'ALTER PROPERTY (\w+) \{ RENAME TO (\w+);', y)
            if mo and any(z is not y and re.search(r'\b' + mo.group(1) + r'\b', z) for z in subs):
                # the old name is used again in the same command (resolved against the schema
                # before the command): no expectation about either name
                for key in [k for k, e in self.exp.items() if e[0] in ('ptr', 'noptr') and e[2] in mo.groups()]:
                    del self.exp[key]
        if any('EXTENDING' in x for x in subs):
            # after a rebase the type may inherit a pointer of a name it just dropped / renamed
            for key in [k for k, e in self.exp.items() if e[0] == 'noptr']:
                del self.exp[key]
        else:
            inherited = set()
            for b in d['bases']:
                inherited |= set(self.all_props(b)) | set(self.types.get(b, {}).get('links', {}))
            for key in [k for k, e in self.exp.items() if e[0] == 'noptr' and e[2] in inherited]:
                del self.exp[key]
        if not subs:
            subs = self.body_create(t, d, limit=1) or ['CREATE PROPERTY p9 -> str;']
        return f'ALTER TYPE {t} {{ ' + ' '.join(subs) + ' };'

    def c_rename_type(self):
        t = self.tname(True)
        n = self.tname(False)
        if t in self.types and n not in self.types:
            d = self.types.pop(t)
            self.types[n] = d
            for x in self.types.values():
                x['bases'] = [n if b == t else b for b in x['bases']]
                x['links'] = {k: (n if v == t else v) for k, v in x['links'].items()}
            self.funcs = {k: {(n if v == t else v) for v in vs} for k, vs in self.funcs.items()}
            self.aliases = {k: (n if v == t else v) for k, v in self.aliases.items()}
            self.globals_ = {k: (n if v == t else v) for k, v in self.globals_.items()}
        if n != t:
            self.expect('noobj', t)
        self.expect('obj', n)
        return f'ALTER TYPE {t} RENAME TO {n};'

    def c_drop_type(self):
        r = self.r
        cand = [t for t in self.types if not self.users_of_type(t)]
        if cand and r.random() > self.wild * 2:
            t = r.choice(sorted(cand))
        else:
            t = self.tname(True)
        if t in self.types and not self.users_of_type(t):
            del self.types[t]
        self.expect('noobj', t)
        return f'DROP TYPE {t};'

    def c_scalar(self):
        r = self.r
        x = r.random()
        if x < 0.55 or not self.scalars:
            n = f'S{r.randrange(3)}'
            base = r.choice(['str', 'int64'])
            body = ' { CREATE CONSTRAINT max_len_value(5); }' if base == 'str' and r.random() < 0.4 else ''
            if n not in self.scalars:
                self.scalars[n] = base
            self.expect('obj', n)
            return f'CREATE SCALAR TYPE {n} EXTENDING {base}{body};'
        n = r.choice(sorted(self.scalars))
        if x < 0.8:
            used = any(n in d['props'].values() for d in self.types.values())
            if not used:
                del self.scalars[n]
            self.expect('noobj', n)
            return f'DROP SCALAR TYPE {n};'
        m = f'S{r.randrange(3)}'
        if m not in self.scalars:
            self.scalars[m] = self.scalars.pop(n)
            for d in self.types.values():
                d['props'] = {k: (m if v == n else v) for k, v in d['props'].items()}
        if m != n:
            self.expect('noobj', n)
        self.expect('obj', m)
        return f'ALTER SCALAR TYPE {n} RENAME TO {m};'

    def c_anno(self):
        r = self.r
        a = f'a{r.randrange(2)}'
        if a in self.annos and r.random() < 0.6:
            if not any(a in d['ann'] for d in self.types.values()):
                self.annos.discard(a)
            self.expect('noobj', a)
            return f'DROP ABSTRACT ANNOTATION {a};'
        self.annos.add(a)
        self.expect('obj', a)
        return f'CREATE ABSTRACT ANNOTATION {a};'

    def c_func(self):
        r = self.r
        f = f'f{r.randrange(2)}'
        if self.funcs.get(f) and r.random() < 0.7:
            pt = r.choice(sorted(self.funcs[f]))
            self.funcs[f].discard(pt)
            if not self.funcs[f]:
                del self.funcs[f]
                self.expect('nofunc', f)       # other overloads keep the short name alive
            return f'DROP FUNCTION {f}(x: {pt});'
        if self.types and r.random() < 0.6:
            pt = self.tname(True)
            props = self.all_props(pt)
            body = f'(<str>x.{r.choice(sorted(props))})' if props and r.random() < 0.7 else "('k')"
            ret = 'str'
        else:
            pt, body, ret = 'int64', '(x + 1)', 'int64'
        if pt in self.types or pt == 'int64':
            self.funcs.setdefault(f, set()).add(pt)     # overloads by parameter type
        self.expect('func', f)
        return f'CREATE FUNCTION {f}(x: {pt}) -> {ret} USING {body};'

    def c_alias(self):
        r = self.r
        a = f'A{r.randrange(2)}'
        if a in self.aliases and r.random() < 0.5:
            del self.aliases[a]
            return f'DROP ALIAS {a};'
        t = self.tname(True)
        props = self.all_props(t)
        shape = f' {{ {r.choice(sorted(props))} }}' if props and r.random() < 0.6 else ''
        if a not in self.aliases and t in self.types:
            self.aliases[a] = t
        return f'CREATE ALIAS {a} := {t}{shape};'

    def c_global(self):
        r = self.r
        g = f'g{r.randrange(2)}'
        if g in self.globals_ and r.random() < 0.5:
            del self.globals_[g]
            return f'DROP GLOBAL {g};'
        if self.types and r.random() < 0.4:
            t = self.tname(True)
            if g not in self.globals_ and t in self.types:
                self.globals_[g] = t
            return f'CREATE GLOBAL {g} := (select {t} limit 1);'
        if g not in self.globals_:
            self.globals_[g] = 'str'
        return f'CREATE GLOBAL {g} -> str;'

    def c_constraint(self):
        """user-defined abstract constraints (their names qualify the concrete constraints derived from them)"""
        r = self.r
        self.cons = getattr(self, 'cons', {})       # name -> set of types using it
        k = f'k{r.randrange(2)}'
        if k not in self.cons:
            self.cons[k] = set()
            self.expect('obj', k)
            return f'CREATE ABSTRACT CONSTRAINT {k} {{ USING (true) }};'
        if self.types and r.random() < 0.6:
            t = self.tname(True)
            if t in self.types:
                self.cons[k].add(t)
            return f'ALTER TYPE {t} {{ CREATE CONSTRAINT {k} ON (true); }};'
        if not self.cons[k] or r.random() < self.wild:
            if not self.cons[k]:
                del self.cons[k]
            self.expect('noobj', k)
            return f'DROP ABSTRACT CONSTRAINT {k};'
        t = r.choice(sorted(self.cons[k]))
        self.cons[k].discard(t)
        return f'ALTER TYPE {t} {{ DROP CONSTRAINT {k} ON (true); }};'

    def c_module(self):
        r = self.r
        if 'm1' in self.modules:
            x = r.random()
            if x < 0.4:
                return 'CREATE TYPE m1::X { CREATE PROPERTY p0 -> str; };'
            if x < 0.6:
                return 'DROP TYPE m1::X;'
            self.modules.discard('m1')
            return 'DROP MODULE m1;'
        self.modules.add('m1')
        return 'CREATE MODULE m1;'

    def cmd(self):
        self.exp = {}
        st = self.cmd_()
        return [st, list(self.exp.values())] if self.exp else st

    def cmd_(self):
        x = self.r.random()
        if not self.types or x < 0.22:
            return self.c_create_type()
        if x < 0.50:
            return self.c_alter_type()
        if x < 0.57:
            return self.c_rename_type()
        if x < 0.70:
            return self.c_drop_type()
        if x < 0.77:
            return self.c_scalar()
        if x < 0.82:
            return self.c_anno()
        if x < 0.89:
            return self.c_func()
        if x < 0.93:
            return self.c_alias()
        if x < 0.955:
            return self.c_global()
        if x < 0.985:
            return self.c_constraint()
        return self.c_module()


TOKEN = re.compile(r'\b(TP|T[0-5]|p[0-39]|l[0-2]|lp0|S[0-2]|a[01]|f[01]|A[01]|g[01]|k[01]|c0|ap0|n[1-3])\b')
TOKENS = (['TP'] + [f'T{i}' for i in range(6)] + ['p0', 'p1', 'p2', 'p3', 'p9', 'l0', 'l1', 'l2', 'lp0']
          + ['S0', 'S1', 'S2', 'a0', 'a1', 'f0', 'f1', 'A0', 'A1', 'g0', 'g1', 'k0', 'k1', 'c0', 'ap0', 'n1', 'n2', 'n3'])


def bq(x):
    return '`' + x.replace('`', '``') + '`'


def ident_map(rnd, style):
    """logical token -> the identifier spelled in the DDL.  'plain': itself.  'adv': most tokens
    become back-quoted adversarial identifiers (|, ||, @, &, :, keywords, non-ASCII, long), with
    siblings that a faulty (un)mangling would confuse; 'kf': additionally a few identifiers
    inside the input predicate of known finding C04-KF1"""
    if style == 'plain':
        return {}
    m, used = {}, set(TOKENS)

    def take(x):
        if x in used or len(x.encode()) > 60:
            return False
        used.add(x)
        return True
    groups = [['n1', 'n2', 'n3'], ['p0', 'p1', 'p2'], ['TP', 'T0', 'T1'], ['l0', 'l1'], ['a0', 'a1'],
              ['f0', 'f1'], ['S0', 'S1'], ['k0', 'k1'], ['p3', 'p9', 'lp0'], ['T2', 'T3'], ['A0', 'g0', 'c0', 'ap0']]
    for gi, grp in enumerate(groups):
        if gi > 0 and rnd.random() < 0.35:
            continue
        base = adv_ident(rnd, False)
        fam = [base] + confusable(base) + [adv_ident(rnd, False) for _ in range(3)]
        if style == 'kf' and (gi == 0 or rnd.random() < 0.3):
            fam = rnd.choice([['|y', 'y', '||y'], ['a@@b', 'a&b', 'a@b'], [':x', 'x', '|x'], ['a@&b', 'a&&b', 'a&b'],
                              [adv_ident(rnd, True), adv_ident(rnd, False), adv_ident(rnd, True)]])
        for tok in grp:
            x = next((y for y in fam if take(y)), None)
            if x is not None:
                m[tok] = x
    return m


def apply_idents(item, m):
    if not m:
        return item
    if isinstance(item, str):
        return TOKEN.sub(lambda mo: bq(m[mo.group(1)]) if mo.group(1) in m else mo.group(1), item)
    st, exp = item[0], item[1]
    out = [apply_idents(st, m), [[e[0]] + [m.get(x, x) for x in e[1:]] for e in exp]]
    return out + item[2:]


def st_text(item):
    return item if isinstance(item, str) else item[0]


def h_items(H):
    return H['h'] if isinstance(H, dict) else H


def ddl_history(rnd, maxlen, style='plain'):
    g = DDLGen(rnd)
    items = ['CREATE MODULE default;']
    if style != 'plain':
        # sibling probe: children with confusable names under one owner, all must be created
        # and each found under its own name
        items.append(['CREATE TYPE TP { CREATE PROPERTY n1 -> str; CREATE PROPERTY n2 -> int64; CREATE LINK n3 -> TP; };',
                      [['obj', 'TP'], ['ptr', 'TP', 'n1'], ['ptr', 'TP', 'n2'], ['ptr', 'TP', 'n3']], True])
        g.types['TP'] = dict(props={'n1': 'str', 'n2': 'int64'}, links={'n3': 'TP'}, bases=[], idx=set(),
                             ann=set(), comp=set())
    items += [g.cmd() for _ in range(rnd.randint(3, maxlen))]
    m = ident_map(rnd, style)
    items = [apply_idents(it, m) for it in items]
    return {'k': style == 'kf', 'style': style, 'h': items}


DDL_CORPUS = [
    # drop refused while referred to, rename propagation, failing part-way, cascade of owned children
    ['CREATE MODULE default;', 'CREATE TYPE A { CREATE PROPERTY p -> str; };',
     'CREATE TYPE B EXTENDING A { CREATE LINK l -> A; CREATE INDEX ON (.p); };',
     'ALTER TYPE A { ALTER PROPERTY p { RENAME TO q; }; };', 'DROP TYPE A;', 'ALTER TYPE B { DROP LINK l; };',
     'CREATE FUNCTION f(x: A) -> str USING (x.q);', 'ALTER TYPE A RENAME TO C;',
     'ALTER TYPE B { CREATE PROPERTY ok -> str; CREATE LINK bad -> Missing; };',
     'DROP FUNCTION f(x: C);', 'DROP TYPE B;', 'DROP TYPE C;', 'DROP TYPE C;'],
]


def gen_ddl(tier):
    rnd = lib.rng('C04ddl')
    hs = [list(h) for h in DDL_CORPUS]
    n = 96 if tier == 'quick' else 2400
    for j in range(n):
        style = 'kf' if j % 12 == 11 else ('adv' if j % 12 in (1, 3, 5, 7, 9) else 'plain')
        hs.append(ddl_history(rnd, 13 if tier == 'quick' else 15, style))
    return hs


def run_ddl_impl(histories, nproc=16):
    """like lib.parallel_lines, but with small chunks (a DDL history costs ~1 s)"""
    from concurrent.futures import ThreadPoolExecutor
    import subprocess
    lines = [json.dumps(h) for h in histories]
    if not lines:
        return []
    nproc = max(1, min(nproc, (len(lines) + 7) // 8))
    size = (len(lines) + nproc - 1) // nproc
    chunks = [lines[i:i + size] for i in range(0, len(lines), size)]

    def one(chunk):
        p = subprocess.run([lib.PY, IMPL, lib.REPO, 'ddl'], input='\n'.join(chunk) + '\n',
                           env=lib.impl_env(), stdout=subprocess.PIPE, stderr=subprocess.PIPE,
                           text=True, timeout=7200)
        out = p.stdout.split('\n')
        if out and out[-1] == '':
            out.pop()
        if p.returncode != 0 or len(out) != len(chunk):
            raise RuntimeError(f'c04_impl ddl: rc={p.returncode} {len(out)}/{len(chunk)}\n{p.stderr[-3000:]}')
        return out

    with ThreadPoolExecutor(len(chunks)) as ex:
        res = list(ex.map(one, chunks))
    return [x for r in res for x in r]


def ddl_nontrivial(h, res):
    st = res.split(' !')[0].split('#')[0].split('|')
    acc = [st_text(c) for c, s_ in zip(h_items(h), st) if s_ == 'ok']
    return (len(acc) >= 4 and len(acc) < len(st)
            and any(c.startswith('DROP') or 'RENAME' in c or 'DROP ' in c for c in acc))


def ddl_stats(hs, res):
    if not res:
        return {'histories': 0, 'note': 'layer 2 did not run'}
    st, kinds = {}, {}
    acc = rej = 0
    for h, r in zip(hs, res):
        ss = r.split(' !')[0].split('#')[0].split('|')
        for c, x in zip(h_items(h), ss):
            c = st_text(c)
            st[x] = st.get(x, 0) + 1
            k = ' '.join(c.split()[:2])
            a_, b_ = kinds.get(k, (0, 0))
            kinds[k] = (a_ + (x == 'ok'), b_ + (x != 'ok'))
            acc += x == 'ok'
            rej += x != 'ok'
    sizes = [int(r.split(' !')[0].split('#')[1]) for r in res if '#' in r]
    classes = sorted({c for r in res if r.count('#') >= 2 for c in r.split(' !')[0].split('#')[2].split(',') if c})
    return {
        'what': 'DDL histories (<= 16 statements: create/alter/rename/drop of types, properties, links, link '
                'properties, indexes, constraints, scalars, annotations, functions, aliases, globals, access '
                'policies, modules; 5-25% deliberately invalid; nested ALTER blocks that fail part-way) applied '
                'statement by statement through the REAL delta commands (edb.schema.ddl via the substrate, on '
                'a ChainedSchema over the real std schema); MONITORS ONLY (no model correspondence): indexes of '
                'the user/global FlatSchemas recomputed from scratch, every reference field of every user '
                'object resolves, get_by_id/get/get_name/get_referrers agree with object data, dropped objects '
                'unreachable, rejected statement => identical schema, earlier schema values frozen (pickled maps); '
                'owned children: listed under their OWN key in the owner refdict (pointers, constraints, indexes, '
                'annotations, policies), siblings never collide, back-reference = owner, derived child name names '
                'the owner and re-encodes to itself, no orphan with source/subject set; per statement the '
                'generator\'s expectations (getptr(name) finds the pointer it created under exactly that name, '
                'dropped/renamed names are gone); 5 of 12 histories use back-quoted adversarial identifiers '
                '(| || @ & : keywords non-ASCII long, with confusable siblings), 1 of 12 identifiers inside the '
                'input predicate of known finding C04-KF1',
        'histories': len(hs), 'statements': acc + rej, 'accepted': acc, 'rejected': rej,
        'distinct_nontrivial': len({json.dumps(h) for h, r in zip(hs, res) if ddl_nontrivial(h, r)}),
        'identifier_styles': {k: sum(1 for h in hs if isinstance(h, dict) and h.get('style') == k) for k in ('plain', 'adv', 'kf')},
        'nontrivial_rule': '>= 4 accepted statements, >= 1 rejected, an accepted DROP or RENAME',
        'status_kinds': st,
        'statement_kinds_accepted_rejected': {k: list(v) for k, v in sorted(kinds.items())},
        'final_user_objects_avg': round(sum(sizes) / max(1, len(sizes)), 1),
        'final_user_objects_max': max(sizes) if sizes else 0,
        'object_classes_in_user_schemas': classes,
        'monitor_failures': len([r for r in res if ' !' in r]),
        'sample': hs[len(hs) // 2],
    }


def shrink_ddl(H, tag):
    wrap = (lambda items: dict(H, h=items)) if isinstance(H, dict) else (lambda items: items)
    h = h_items(H)
    for _ in range(40):
        cands = [wrap(h[:i] + h[i + 1:]) for i in range(1, len(h))]
        if not cands:
            break
        res = run_ddl_impl(cands)
        nxt = next((c for c, r in zip(cands, res) if tag in mon_tags(r)), None)
        if nxt is None:
            break
        h = h_items(nxt)
    return wrap(h)

# ---------------------------------------------------------------- running
def run_impl(lines):
    return lib.parallel_lines([lib.PY, IMPL, lib.REPO, 'run'], lines, env=lib.impl_env())


def one_impl(case, verbose=False):
    l = enc(case)
    if verbose:
        l = l[0] + 'V' + l[1:]
    return run_impl([l])[0]


def strip(r):
    return r.split(' !')[0]


def mon_tags(r):
    return [t.split('@')[0] for t in r.split(' !')[1:]]


def candidates(case):
    """one-step reductions: drop an op; drop a field of an add/update"""
    mode, base, ops = case[:3]
    tail = case[3:]
    out = []
    for i in range(len(ops)):
        if len(ops) > 1:
            out.append((mode, base, ops[:i] + ops[i + 1:]) + tail)
    for i, op in enumerate(ops):
        if op[0] in ('A', 'U'):
            fs = op[4] if op[0] == 'A' else op[3]
            for j in range(len(fs)):
                nfs = fs[:j] + fs[j + 1:]
                nop = op[:4] + (nfs,) if op[0] == 'A' else op[:3] + (nfs,)
                out.append((mode, base, ops[:i] + [nop] + ops[i + 1:]) + tail)
    return out


def shrink(case, pred_batch, rounds=60):
    """greedy, batched: every round evaluates all one-step reductions in one run of the
    implementation (pred_batch(list of cases) -> list of bool) and keeps the first that
    still fails"""
    for _ in range(rounds):
        cands = candidates(case)
        if not cands:
            break
        oks = pred_batch(cands)
        nxt = next((c for c, ok in zip(cands, oks) if ok), None)
        if nxt is None:
            break
        case = nxt
    return case


def op_kinds(case):
    return [o[0] for o in case[2]]


def nontrivial(case, res):
    """>= 3 accepted ops, >= 1 rejected op, and an accepted op that removes or replaces
    something already indexed (delete/discard/unset/delist, or set/update of a live object)"""
    st = [x.split('@')[0] for x in strip(res).split('|')[0].split(';')]
    acc = [k for k, s in zip(op_kinds(case), st) if s == 'ok']
    return (len(acc) >= 3 and len(acc) < len(st)
            and any(k in ('D', 'K', 'X', 'L', 'S', 'U') for k in acc))


# ---------------------------------------------------------------- Coq literals
def c_name(n):
    return f'(UName {n[1]})' if n[0] == 'U' else f'(QName {n[1]} {n[2]})'


def c_ids(l):
    return '[' + '; '.join(map(str, l)) + ']'


def c_val(v):
    if v[0] == 'N':
        return f'(VName {c_name(v[1])})'
    if v[0] == 'R':
        return f'(VRefs {c_ids(v[1])})'
    return f'(VPlain {v[1]})'


def c_oval(v):
    return 'None' if v is None else f'(Some {c_val(v)})'


def c_op(op):
    k = op[0]
    if k == 'A':
        return f'OAdd {"true" if op[1] == "r" else "false"} {op[2]} {op[3]} [' + '; '.join(f'({f}, {c_val(v)})' for f, v in op[4]) + ']'
    if k == 'U':
        return f'OUpdate {op[1]} {op[2]} [' + '; '.join(f'({f}, {c_oval(v)})' for f, v in op[3]) + ']'
    if k == 'S':
        return f'OSet {op[1]} {op[2]} {op[3]} {c_oval(op[4])}'
    if k == 'X':
        return f'OUnset {op[1]} {op[2]} {op[3]}'
    if k == 'D':
        return f'ODelete {op[1]} {op[2]}'
    if k == 'K':
        return f'ODiscard {op[1]} {op[2]}'
    return f'ODelist {c_name(op[1])}'


def c_env(line):
    parts = line.split('#')[1].split('|')
    cl = []
    for cs in parts[0].split('/'):
        code, fl, nf, ni, refs = cs.split(':')
        b = lambda ch: 'true' if ch == '1' else 'false'
        cl.append(f'({code}, {{| c_qual := {b(fl[0])}; c_sn := {b(fl[1])}; c_gobj := {b(fl[2])}; '
                  f'c_nf := {nf}; c_name := {ni}; c_refs := {c_ids([x for x in refs.split("+") if x])} |}})')
    sh = []
    for e in (parts[3].split(',') if parts[3] else []):
        a, b2 = e.split('>')
        sh.append(f'({c_name(p_name(a))}, {c_name(p_name(b2))})')
    return ('{| e_classes := [' + '; '.join(cl) + f']; e_module := {parts[1]}; e_special := '
            + c_ids([x for x in parts[2].split('+') if x]) + '; e_short := [' + '; '.join(sh) + '] |}')


def coq_case(case):
    mode, base, ops = case[:3]
    line = enc(case)
    ol = '[' + '; '.join(c_op(o) for o in ops) + ']'
    if mode == 'C':
        bl = '[' + '; '.join(c_op(o) for o in base) + ']'
        return f'ser_ch_trace {c_env(line)} {bl} {ol}'
    return f'ser_trace {c_env(line)} {ol}'


def known_for(known, tags):
    """the known findings that together account for ALL failed monitors of a case (site = prefix
    of the monitor name); None if some failed monitor is not accounted for"""
    out = []
    for t in tags:
        k = next((k for k in known if k.get('site') and t.startswith(k['site'])), None)
        if k is None:
            return None
        if k not in out:
            out.append(k)
    return out or None


def gen_names(tier):
    rnd = lib.rng('C04names')
    n = 1500 if tier == 'quick' else 30000
    return [names_case(rnd, j % 15 == 14) for j in range(n)]


def run_names(batches):
    return lib.parallel_lines([lib.PY, IMPL, lib.REPO, 'names'], [json.dumps(b) for b in batches],
                              env=lib.impl_env())


# ---------------------------------------------------------------- run
def run(tier):
    import time as _t
    rep = lib.Report(PROP, tier, 'proof')
    thorough = tier == 'thorough'
    T = {'start': _t.time()}
    pf = lib.proof_stage(rep, 'C04', THEOREMS, extra_targets=['theories/C04/Refuted.vo'], thorough=thorough)
    # the ..._refuted theorems (computed witnesses, replayed from corpus/C04/refuted_*.json)
    rok, rproved, rlog = lib.coq_props('C04', 'Refuted.v') if pf['ok'] else (False, {}, '')
    for t in REFUTED:
        if pf['ok'] and (not rok or rproved.get(t) != []):
            pf['ok'] = False
            pf['broken'].append(f'{t}: does not check / not closed')
            pf['log'] += rlog[-2000:]
    rep.coverage['refuted_theorems'] = {t: ('closed under the global context' if rproved.get(t) == [] else 'NOT CHECKED')
                                        for t in REFUTED}
    T['proof'] = _t.time()
    exe, blog = lib.build_model('c04', 'ExtractC04.v', 'c04_main.ml', 'C04_ext')
    T['extract'] = _t.time()

    d = desc()
    tie_bad = [c['name'] for c in d['classes'] if not c['reducible_equals_refs'] or c['name_is_ref']]

    cases, ncorpus = gen_cases(tier)
    lines = [enc(c) for c in cases]
    T['generate'] = _t.time()
    impl = run_impl(lines)
    T['layer1_impl'] = _t.time()
    in_model = [i for i, c in enumerate(cases) if c[0] != 'X']
    model = None
    if exe:
        mres = lib.run_model(exe, [lines[i] for i in in_model])
        model = dict(zip(in_model, mres))

    harness_err = [i for i, r in enumerate(impl) if r.startswith(('HARNESS-ERROR', 'ENVMISMATCH'))]
    mon_fail = [i for i, r in enumerate(impl) if ' !' in r]
    mism = []
    if model is not None:
        mism = [i for i in in_model if strip(impl[i]) != model[i] and i not in harness_err]

    # Coq-internal evaluation of a sample (guards the extraction step)
    coq_diff, n_coq = [], 0
    if model is not None:
        rnd = lib.rng('C04coq')
        pool = [i for i in in_model if len(cases[i][2]) <= 12]
        idx = sorted(rnd.sample(pool, min(40 if not thorough else 400, len(pool))))
        raw_lines = [lines[i][0] + 'R' + lines[i][1:] for i in idx]
        raw = lib.run_model(exe, raw_lines)
        outs = lib.coq_eval('C04', 'From Coq Require Import List NArith. Import ListNotations.\n'
                                   'From Verif.C04 Require Import Model.\nOpen Scope N_scope.',
                            [coq_case(cases[i]) for i in idx], timeout=1200)
        n_coq = len(outs)
        for i, o, rw in zip(idx, outs, raw):
            if ','.join(re.findall(r'\d+', o.replace('%N', ''))) != rw:
                coq_diff.append(i)

    T['model_and_coq_eval'] = _t.time()
    # ---- Layer 2: DDL histories through the real delta commands (monitors only)
    ddl_hist, ddl_res, ddl_err = gen_ddl(tier), [], None
    try:
        run_ddl_impl(ddl_hist[:1], nproc=1)            # warms the std-schema cache of the substrate
        ddl_res = run_ddl_impl(ddl_hist)
    except Exception as e:  # noqa
        ddl_err = str(e)[-1500:]
    ddl_fail = [i for i, r in enumerate(ddl_res) if ' !' in r]
    T['layer2_ddl'] = _t.time()

    # ---- name mangling, function level (direct monitors on edb/schema/name.py)
    nm_batches = gen_names(tier)
    nm_res = run_names(nm_batches)
    nm_fail = [i for i, r in enumerate(nm_res) if ' !' in r]
    T['names'] = _t.time()

    # ---- verdict
    known = lib.known_findings(PROP)
    reported = 0
    seen_tags = set()
    for i in sorted(nm_fail, key=lambda i: len(nm_batches[i])):
        tags = mon_tags(nm_res[i])
        kf = known_for(known, tags)
        if kf:
            for k_ in kf:
                rep.known_finding(k_['id'], k_.get('what', ''))
            continue
        if tags[0] in seen_tags or reported >= 2:
            continue
        seen_tags.add(tags[0])
        reported += 1
        n = int(nm_res[i].split(' !')[1].split('@')[1])
        item = nm_batches[i][n]
        small = [x for x in nm_batches[i] if x[2] == item[2]][:6] if 'collision' in tags[0] else [item]
        rep.violation(f'monitor {tags} failed on edb.schema.name (mangle_name / unmangle_name / '
                      'get_specialized_name / shortname_from_fullname / quals_from_fullname)',
                      {'names_batch': small, 'impl_result': run_names([small])[0],
                       'meaning': 'items are (base module, base local name, qualifiers); the child name '
                                  'built from them must decode back to them and differ for different items',
                       'how': f'PYTHONPATH={lib.REPO}:/verif/harness /venv/bin/python harness/impl/c04_impl.py '
                              f'{lib.REPO} names <<< \'<json list of items>\''})
    reported = 0
    for i in sorted(mon_fail, key=lambda i: len(cases[i][2])):
        if reported >= 3:
            break
        tags = mon_tags(impl[i])
        kf = known_for(known, tags)
        if kf:
            for k_ in kf:
                rep.known_finding(k_['id'], k_.get('what', ''))
            continue
        if tags[0] in seen_tags:
            continue
        seen_tags.add(tags[0])
        small = shrink(cases[i], lambda cs: [tags[0] in mon_tags(r) for r in run_impl([enc(c) for c in cs])])
        rep.violation(f'monitor {tags} failed on the real FlatSchema/ChainedSchema',
                      {'case': enc(small), 'mode': small[0], 'original_case': lines[i],
                       'impl_result': one_impl(small, verbose=True),
                       'model_result': (lib.run_model(exe, [enc(small)[0] + 'V' + enc(small)[1:]])[0]
                                        if exe and small[0] != 'X' else None),
                       'how': f'PYTHONPATH={lib.REPO}:/verif/harness /venv/bin/python '
                              f'harness/impl/c04_impl.py {lib.REPO} run <<< case   '
                              '(ops: A=add_raw/add U=update_obj S=set_obj_field X=unset_obj_field '
                              'D=delete K=discard L=delist; see harness/props/c04.py)'})
        reported += 1
    seen_tags = set()
    nrep = 0
    for i in sorted(ddl_fail, key=lambda i: len(ddl_hist[i])):
        tags = mon_tags(ddl_res[i])
        kf = known_for(known, tags)
        if kf:
            for k_ in kf:
                rep.known_finding(k_['id'], k_.get('what', ''))
            continue
        if tags[0] in seen_tags or nrep >= 2:
            continue
        seen_tags.add(tags[0])
        nrep += 1
        small = shrink_ddl(ddl_hist[i], tags[0])
        rep.violation(f'monitor {tags} failed on a DDL history applied by the real delta commands',
                      {'ddl_history': small, 'original_history': ddl_hist[i],
                       'impl_result': run_ddl_impl([small])[0],
                       'how': f'PYTHONPATH={lib.REPO}:/verif/harness /venv/bin/python harness/impl/c04_impl.py '
                              f'{lib.REPO} ddl <<< \'<json list of statements>\'  (result: status of every '
                              'statement | ... #objects in the user schema, then the monitors that failed@statement)'})
    if ddl_err is not None:
        rep.violation('Layer 2 driver could not run DDL through the real delta commands (substrate / std-schema '
                      'bootstrap failed): ' + ddl_err[-400:],
                      {'broken': 'layer 2 driver', 'stderr_tail': ddl_err}, False)
    if harness_err:
        i = harness_err[0]
        rep.violation('tie broken: the real schema classes no longer match what the case lines / '
                      'the model assume: ' + impl[i][:300],
                      {'broken': 'class table / harness', 'case': lines[i], 'impl_result': impl[i]}, False)
    if not [i for i in mon_fail if not known_for(known, mon_tags(impl[i]))]:
        if tie_bad:
            rep.violation('tie broken: classes whose reducible fields differ from their object-reference '
                          f'fields, or whose name field is a reference field: {tie_bad}',
                          {'broken': 'model assumption reducible == objref', 'classes': tie_bad}, False)
        if model is None:
            rep.violation('model does not build: ' + blog[-1500:],
                          {'broken': 'extraction of theories/C04/Model.v'}, False)
        elif mism:
            i = mism[0]
            small = shrink(cases[i], lambda cs: [strip(a) != b for a, b in
                                                 zip(run_impl([enc(c) for c in cs]),
                                                     lib.run_model(exe, [enc(c) for c in cs]))])
            vl = enc(small)[0] + 'V' + enc(small)[1:]
            rep.violation('correspondence broken: model and implementation disagree, no monitor failed '
                          f'on {len(cases)} cases',
                          {'broken': 'correspondence C04 Model.trace vs edb.schema.schema.FlatSchema',
                           'case': enc(small), 'mode': small[0],
                           'impl_result': one_impl(small, verbose=True),
                           'model_result': lib.run_model(exe, [vl])[0],
                           'disagreements': len(mism)}, False)
        if coq_diff:
            rep.violation('extracted model disagrees with vm_compute inside Coq',
                          {'broken': 'extraction', 'case': lines[coq_diff[0]]}, False)
        if not pf['ok']:
            rep.violation('proof obligations no longer check: ' + '; '.join(pf['broken'][:6]),
                          {'broken': pf['broken'], 'log_tail': pf['log'][-3000:]}, False)

    # ---- evidence
    distinct = {l for l, c, r in zip(lines, cases, impl) if c[0] != 'X' and nontrivial(c, r)}
    kinds, errs, lens, modes, classes_used = {}, {}, {}, {}, {}
    acc = rej = 0
    for c, r in zip(cases, impl):
        modes[c[0]] = modes.get(c[0], 0) + 1
        lens[len(c[2])] = lens.get(len(c[2]), 0) + 1
        st = [x.split('@')[0] for x in strip(r).split('|')[0].split(';')] if '@' in r else []
        for k, s in zip(op_kinds(c), st):
            kinds[k] = kinds.get(k, 0) + 1
            if s == 'ok':
                acc += 1
            else:
                rej += 1
                errs[s] = errs.get(s, 0) + 1
        for cc in set(classes_in(c[2])):
            nm = d['classes'][cc]['name']
            classes_used[nm] = classes_used.get(nm, 0) + 1
    nexh = (24 ** 3 + 13 ** 4) if thorough else 18 ** 3
    rep.coverage.update({
        'evaluations': len(cases),
        'distinct_nontrivial': len(distinct),
        'rule': 'raw-API histories over the real schema classes: corpus; ALL sequences of '
                + ('3 ops from a fixed menu of 24 ops and ALL sequences of 4 ops from its first 13 ops' if thorough
                   else '3 ops from the first 18 ops of a fixed menu of 24 ops')
                + ' (ids 1-5, Module/ObjectType/Function) '
                'after "add module m0"; seeded random valid-biased histories (2-4 of 26 common classes + '
                'sometimes any of the 64 registered classes; ids from a pool of <= 8; names from a pool of 15 '
                'strings with colliding short names, and in ~20% of the cases function-like full names generated '
                'from adversarial identifiers (| || @ & : back-quote keywords non-ASCII long) whose specialized name '
                'and short name are computed by the REAL name.py functions for exactly those names and whose '
                'intended short name is checked (a few of them inside the input predicate of C04-KF1); '
                '5-30% deliberately invalid choices: duplicate ids/names, '
                'unknown modules, absent objects, update_obj upserts, None/ill-kinded values for reference '
                'fields, unknown fields, delist of unlisted names); 15% of them through a ChainedSchema over a '
                'small base schema; plus an out-of-model stream with mismatched handle classes (monitors '
                'only). non-trivial = >= 3 accepted ops and >= 1 rejected op and an accepted '
                'delete/discard/unset/delist/set/update; distinct = distinct encoded case line',
        'exhaustive': False,
        'exhaustive_subspaces': (['all 13824 sequences of 3 ops from the 24-op menu',
                                  'all 28561 sequences of 4 ops from the first 13 menu ops'] if thorough else
                                 ['all 5832 sequences of 3 ops from the first 18 ops of the 24-op menu']),
        'samples': [lines[i] for i in (ncorpus, ncorpus + nexh + 1, len(lines) // 2, len(lines) - 600)
                    if 0 <= i < len(lines)],
        'traces_validated_against_impl': len(in_model) if model is not None else 0,
        'model_vs_impl_disagreements': len(mism),
        'coq_vm_compute_cross_checked': n_coq,
        'monitor_failures': len(mon_fail),
        'ops_total': acc + rej, 'ops_accepted': acc, 'ops_rejected': rej,
        'op_kinds': kinds, 'rejection_kinds': errs, 'modes': modes,
        'history_lengths': dict(sorted(lens.items())),
        'classes_exercised': len(classes_used), 'classes_registered': len(d['classes']),
        'classes_used_top': dict(sorted(classes_used.items(), key=lambda kv: -kv[1])[:12]),
        'out_of_model_cases_monitors_only': modes.get('X', 0),
        'stub_installer': d['stubs'],
        'schema_py_sha256': d['schema_py_sha'],
        'layer2_ddl': ddl_stats(ddl_hist, ddl_res),
        'name_mangling': {
            'what': 'direct monitors on edb/schema/name.py over generated (module, local name, qualifiers) items '
                    '(alphabet: | || @ & && : . back-quote, space, keywords, non-ASCII, 40-char runs; every item with '
                    'the siblings a faulty (un)mangling would confuse): unmangle(mangle(x)) == x, '
                    'shortname_from_fullname / quals_from_fullname of the specialized child name give back what it '
                    'was built from (also one level deeper), and the construction is injective within a batch',
            'batches': len(nm_batches), 'items': sum(len(b) for b in nm_batches),
            'batches_inside_KF1_predicate': sum(1 for j in range(len(nm_batches)) if j % 15 == 14),
            'failing_batches': len(nm_fail),
            'failing_batches_not_explained_by_a_known_finding':
                len([i for i in nm_fail if not known_for(known, mon_tags(nm_res[i]))]),
            'layer1_cases_with_generated_adversarial_names': len([c for c in cases if extra_of(c)]),
        },
        'stage_seconds': {k: round(T[k] - T[p_], 1) for p_, k in zip(list(T), list(T)[1:])},
        'trusted_base': [
            'Coq 8.16.1 kernel (coqc; coqchk in the thorough tier); vm_compute only in cases.v evaluation',
            'extraction: ExtrOcamlBasic only, N/positive/nat kept inductive; OCaml 4.13.1; ocaml/conv.ml + c04_main.ml '
            '(parsing, canonical sorting/printing, MD5 of states)',
            'correspondence harness harness/props/c04.py + harness/impl/c04_impl.py: generators, the encoding of '
            'uuids/classes/names/containers as numbers, construction of real container values, canonical dump of '
            'the six immutables.Map indexes, monitors',
            'stub installer harness/rt/vrt.py (only to import edb.schema.*; FlatSchema itself is the real code)',
            'modelled, not verified: immutables.Map / frozenset semantics (as association lists / lists read '
            'through lookups), Python exception propagation (a raising op leaves the caller with the old value), '
            'schema_reduce / schema_refs_from_data of the container classes (abstracted to "the ids referred to"), '
            'sn.shortname_from_fullname (a table), lru caches and _generation (not modelled)',
            'out of the model: handles whose class differs from the stored class, wrong-length data tuples, '
            'non-name values in the name field (monitors only / not generated)',
            'C04_cmd_* theorems are about the model\'s guarded command layer only; it is not tied to '
            'edb/schema/delta.py; the real DDL commands are covered by the layer-2 monitors only',
            'runtime substrate harness/rt (EdgeQL parser substitute, std schema) for the layer-2 DDL runs',
        ],
    })
    rep.assumptions = [
        'Python exception semantics: an op that raises leaves the caller holding the previous schema value',
        'a Python Mapping has distinct keys (NoDup (map fst updates)) and class field sets have distinct indexes',
        'index theorem preconditions (wf_op): update_obj is applied to an object present in the schema, and '
        'delete/update handles carry the class the object is stored with (what get_by_id returns)',
    ]
    return rep.finish()


def replay(path):
    j = json.load(open(path))
    r = j['replay']
    if 'ddl_history' in r:
        h = r['ddl_history']
        res = run_ddl_impl([h], nproc=1)[0]
        st = res.split(' !')[0].split('#')[0].split('|')
        print('DDL history through the real delta commands (no model: monitors only):')
        for c, x in zip(h_items(h), st):
            print(f'   {x:32s} {st_text(c)}')
            if not isinstance(c, str) and c[1]:
                print(f'   {"":32s}   expected if accepted: {c[1]}')
        print('monitors failed:', [t for t in res.split(' !')[1:]] or 'none')
        return 0
    if 'names_batch' in r:
        res = run_names([r['names_batch']])[0]
        for it in r['names_batch']:
            print('   item (module, local, qualifiers):', it)
        print('monitors failed:', [t for t in res.split(' !')[1:]] or 'none')
        return 0
    line = r.get('case') or r.get('original_case')
    mode = r.get('mode') or line[0]
    exe, _ = lib.build_model('c04', 'ExtractC04.v', 'c04_main.ml', 'C04_ext')
    vl = line[0] + 'V' + line[1:] if line[1] == '#' else line
    print('case :', line)
    ir = run_impl([vl])[0]
    print('impl :')
    for x in ir.split(';'):
        print('   ', x)
    if mode != 'X' and exe:
        print('model:')
        for x in lib.run_model(exe, [vl])[0].split(';'):
            print('   ', x)
    else:
        print('model: (case is outside the model: monitors only)' if exe else 'model does not build')
    return 0
