"""Generators for the C01 check (seeded through lib.rng by the caller).

  * upstream_corpus(repo)      texts of tests/test_edgeql_syntax.py / test_schema_syntax.py (static extraction)
  * GrammarSampler             random derivations from the repo's own productions (dumped by c01_impl.py grammar)
  * op_pair_texts              operator x operator x position x parenthesisation texts of the expression core
  * mutate                     token level mutation / recombination of accepted texts
  * malformed                  edge / malformed stream
"""
from __future__ import annotations

import ast
import os
import re

# ----------------------------------------------------------------------------- corpus


def _extract(path):
    src = open(path, encoding='utf-8').read()
    tree = ast.parse(src)
    out = []
    for cls in tree.body:
        if not isinstance(cls, ast.ClassDef):
            continue
        for fn in cls.body:
            if isinstance(fn, ast.FunctionDef) and fn.name.startswith('test_'):
                doc = ast.get_docstring(fn, clean=False)
                if doc is None:
                    continue
                decs = [ast.unparse(d) for d in fn.decorator_list]
                neg = any('must_fail' in d for d in decs)
                parts = doc.split('\n% OK %')
                out.append({'name': fn.name, 'neg': neg, 'src': parts[0],
                            'exp': parts[1] if len(parts) > 1 else None})
    return out


def upstream_corpus(repo):
    """-> (positive cases [(entry, text, name)], negative texts [(entry, text, name)])"""
    pos, neg = [], []
    for fname, entry in (('tests/test_edgeql_syntax.py', 'block'), ('tests/test_schema_syntax.py', 'sdl')):
        p = os.path.join(repo, fname)
        if not os.path.exists(p):
            continue
        for t in _extract(p):
            if t['neg']:
                neg.append((entry, t['src'], t['name']))
            else:
                pos.append((entry, t['src'], t['name']))
                if t['exp'] is not None:
                    pos.append((entry, t['exp'], t['name'] + '/exp'))
    return pos, neg


# ----------------------------------------------------------------------------- lexical pools

IDENTS = ['x', 'y', 'Foo', 'bar', 'a1', '_z', 'User', 'name', 'std', 'default', 'my_mod',
          '`select`', '`my name`', '`a``b`', '`Foo::bar`', '`union`', '`1st`', '`if`', 'é', '`-`',
          'abstract', 'after', 'index', 'match', 'for_', 'type', 'using', 'version', 'on', 'of', 'module_',
          'first', 'last', 'then', 'target', 'final', 'required_', 'assignment', 'allow', 'deny', 'branch']
ICONST = ['0', '1', '2', '42', '9223372036854775807', '007']
FCONST = ['1.5', '0.0', '1e10', '1.5e-3', '2E+5', '10.0e1']
NICONST = ['1n', '0n', '123456789012345678901234567890n']
NFCONST = ['1.5n', '1e100n', '0.0n', '2.5e-3n']
SCONST = ["'abc'", '"a\'b"', "r'a\\b'", '$$a b$$', "'esc\\n\\t'", "'\\u00e9'", "''", '"q\\"q"', "$x$ '\" $$ $x$",
          "'a\\\\b'", "'it''s'", "'multi\nline'", "'tab\there'", "'$'", '"dollar$"', "'semi;colon'", "'{brace}'",
          "'\\x41'", "'ünï'", "'a\u202eb'", "'c1\x85'", "'both\\'\" $'", "'end$'"]
BCONST = ["b'ab'", "b'\\x00\\xff'", 'b"q\'q"', "b''", "b'\\\\'", "b'\\n\\t'", "rb'a\\b'", "br'x'"]
PARAMS = ['$x', '$0', '$1', '$abc', '$`select`', '$`my p`', '$_']


SAFE_TOK = {'IDENT': ['x', 'Foo', 'bar', 'a1', 'User'], 'ICONST': ['1', '2'], 'FCONST': ['1.5'], 'NICONST': ['1n'],
            'NFCONST': ['1.5n'], 'SCONST': ["'1.0'"], 'BCONST': ["b'ab'"], 'PARAMETER': ['$p', '$q']}


def tok_text(name, g, rnd, safe=False):
    """a sample text for terminal `name`; safe: plain spellings only (forced-coverage derivations must not be
    rejected for a reason that has nothing to do with the production they are after)"""
    if safe and name in SAFE_TOK:
        return rnd.choice(SAFE_TOK[name])
    if safe and name in g['kwtext']:
        return g['kwtext'][name]
    if name == 'IDENT':
        return rnd.choice(IDENTS)
    if name == 'ICONST':
        return rnd.choice(ICONST)
    if name == 'FCONST':
        return rnd.choice(FCONST)
    if name == 'NICONST':
        return rnd.choice(NICONST)
    if name == 'NFCONST':
        return rnd.choice(NFCONST)
    if name == 'SCONST':
        return rnd.choice(SCONST)
    if name == 'BCONST':
        return rnd.choice(BCONST)
    if name == 'PARAMETER':
        return rnd.choice(PARAMS)
    if name == 'SUBSTITUTION':
        return '\\(' + rnd.choice(['name', 'x1']) + ')'
    if name == 'STRINTERPSTART':
        return rnd.choice(["'pre\\(", "'\\(", '"a\\('])
    if name == 'STRINTERPCONT':
        return rnd.choice([')mid\\(', ')\\('])
    if name == 'STRINTERPEND':
        return rnd.choice([")end'", ")'"])
    if name in g['kwtext']:
        kw = g['kwtext'][name]
        r = rnd.random()
        return kw if r < 0.6 else (kw.upper() if r < 0.9 else kw.capitalize())
    if name in g['lextoken']:
        t = g['lextoken'][name]
        if t.isalpha() or ' ' in t:
            return t if rnd.random() < 0.6 else t.upper()
        return t
    return None


UNGENERATABLE = {'PARAMETERANDTYPE', '<$>', '<e>', 'STARTBLOCK', 'STARTEXTENSION', 'STARTFRAGMENT',
                 'STARTMIGRATION', 'STARTSDLDOCUMENT', 'EOI'}

ENTRY_START = {'block': 'EdgeQLBlock', 'fragment': None, 'sdl': 'SDLDocument',
               'migration': 'CreateMigrationCommandsBlock', 'extension': 'CreateExtensionPackageCommandsBlock',
               # pseudo entry: SDL declarations inside `module m { ... }` (top-level SDL names must be fully qualified);
               # rendered as an `sdl` text
               'sdlmod': 'SDLCommandBlock'}
REAL_ENTRY = {'sdlmod': 'sdl'}


class GrammarSampler:
    """Random derivations from the repo's productions.  The CFG is ambiguous (precedence
    declarations resolve it in the LR tables) and reduce_* methods reject some derivations,
    so a derived text is only *mostly* valid; the real parser decides."""

    def __init__(self, g):
        self.g = g
        self.prods = []          # (lhs, rhs, idx)
        self.by_lhs = {}
        terms = set(g['tokens'])
        for i, p in enumerate(g['productions']):
            if p['lhs'] == '<S>':
                continue
            rhs = [s for s in p['rhs'] if s != '<e>']
            if any(s in UNGENERATABLE for s in rhs) and p['lhs'] != 'EdgeQLGrammar':
                continue
            self.prods.append((p['lhs'], rhs, i))
            self.by_lhs.setdefault(p['lhs'], []).append(len(self.prods) - 1)
        self.terms = terms
        self._minlen()
        self._contexts()
        self.used = [0] * len(self.prods)
        self.safe = False
        self.index_names()

    def is_term(self, s):
        return s in self.terms and s not in self.by_lhs

    def _minlen(self):
        INF = 10 ** 9
        ml = {nt: INF for nt in self.by_lhs}
        pl = [INF] * len(self.prods)
        changed = True
        while changed:
            changed = False
            for k, (lhs, rhs, _) in enumerate(self.prods):
                tot = 0
                for s in rhs:
                    if self.is_term(s):
                        tot += 1
                    else:
                        tot += ml.get(s, INF)
                    if tot >= INF:
                        tot = INF
                        break
                if tot < pl[k]:
                    pl[k] = tot
                    changed = True
                if tot < ml[lhs]:
                    ml[lhs] = tot
                    changed = True
        self.minlen, self.prodlen = ml, pl

    def _contexts(self):
        """for every nonterminal: a shortest chain of productions from an entry start symbol"""
        self.ctx = {}
        for entry, start in ENTRY_START.items():
            starts = [start] if start else ['ExprStmt', 'Expr']
            dist = {s: (0, None) for s in starts if s in self.by_lhs}
            frontier = list(dist)
            while frontier:
                nxt = []
                for nt in frontier:
                    for k in self.by_lhs.get(nt, ()):
                        if self.prodlen[k] >= 10 ** 9:
                            continue
                        for pos, s in enumerate(self.prods[k][1]):
                            if not self.is_term(s) and s in self.by_lhs and s not in dist:
                                dist[s] = (dist[nt][0] + 1, (nt, k, pos))
                                nxt.append(s)
                frontier = nxt
            self.ctx[entry] = dist

    def expand(self, nt, rnd, budget, out, force=None, depth=0):
        """append terminal names of a derivation of nt to out.  force: list of (prod idx, pos)
        to follow (targeted generation)."""
        if self.is_term(nt):
            out.append(nt)
            return
        cands = [k for k in self.by_lhs.get(nt, ()) if self.prodlen[k] < 10 ** 9]
        if not cands:
            out.append('IDENT')
            return
        if force:
            k, pos = force[0]
            rest = force[1:]
        else:
            k, pos, rest = None, None, None
            if budget <= 0 or depth > 60:
                m = min(self.prodlen[c] for c in cands)
                cands = [c for c in cands if self.prodlen[c] <= m + (1 if depth < 80 and not self.safe else 0)]
                plain = [c for c in cands if self.prods[c][1] == ['IDENT']]
                k = rnd.choice(plain) if (self.safe and plain and rnd.random() < 0.9) else rnd.choice(cands)
            else:
                # prefer rarely used productions, avoid blowing the budget
                ws = [1.0 / (1 + self.used[c]) + (0.2 if self.prodlen[c] <= budget else 0.0) for c in cands]
                k = rnd.choices(cands, ws)[0]
        self.used[k] += 1
        rhs = self.prods[k][1]
        nnt = max(1, sum(1 for s in rhs if not self.is_term(s)))
        for i, s in enumerate(rhs):
            if force and i == pos:
                self.expand(s, rnd, budget, out, rest if rest else None, depth + 1)
                if not rest:
                    pass
            else:
                self.expand(s, rnd, (budget - len(rhs)) // nnt, out, None, depth + 1)

    # ---- coverage targets: what the parser driver can observe (production ids of the CST) ----

    def index_names(self):
        """production_names id (recorded by the parser driver) <-> sampler production; which productions can be
        observed at all (an `inline` production whose source is a terminal leaves no trace in the CST)"""
        g = self.g
        qual2id = {tuple(q): i for i, q in enumerate(g['production_names'])}
        self.id_of, self.k_of = {}, {}
        for k, (_lhs, _rhs, i) in enumerate(self.prods):
            q = tuple(g['productions'][i].get('qual') or ())
            if q in qual2id:
                self.id_of[k] = qual2id[q]
                self.k_of[qual2id[q]] = k
        inline = {k: self.g['productions'][i].get('inline') for k, (_l, _r, i) in enumerate(self.prods)}
        # observable = leaves a production id in the CST: not inline, or inline with a source nonterminal that has an
        # observable production (least fixed point; `Semicolons -> Semicolons SEMICOLON` over `Semicolons -> SEMICOLON`
        # is never observable: the inlined value is a terminal)
        obs = {k for k in range(len(self.prods)) if inline[k] is None}
        changed = True
        while changed:
            changed = False
            for k, (_lhs, rhs, i) in enumerate(self.prods):
                if k in obs:
                    continue
                full = g['productions'][i]['rhs']
                if inline[k] >= len(full):
                    continue
                src = full[inline[k]]
                if not self.is_term(src) and any(c in obs for c in self.by_lhs.get(src, ())):
                    obs.add(k)
                    changed = True
        self.inline, self.unobservable = inline, set(range(len(self.prods))) - obs
        # names ids that no sampler production maps to (ungeneratable tokens, the start wrapper)
        self.unmapped_ids = [i for i in range(len(g['production_names'])) if i not in self.k_of]

    def edge_targets(self, max_alts=8):
        """(parent names id, rhs position, child names id) for every position of every non-inline production whose
        nonterminal has 2..max_alts alternatives (optional clauses, small choices): each alternative must be seen
        in THAT position, not just somewhere.  -> (list of targets, list of [parent id, position])"""
        targets, positions = [], []
        for k, (_lhs, rhs, i) in enumerate(self.prods):
            if self.inline.get(k) is not None or k not in self.id_of or self.prodlen[k] >= 10 ** 9:
                continue
            if '<e>' in self.g['productions'][i]['rhs']:
                continue
            for pos, s in enumerate(rhs):
                if self.is_term(s):
                    continue
                alts = [c for c in self.by_lhs.get(s, ()) if self.prodlen[c] < 10 ** 9 and c in self.id_of]
                obs = [c for c in alts if c not in self.unobservable]
                if 2 <= len(alts) <= max_alts and obs:
                    positions.append([self.id_of[k], pos])
                    for c in obs:
                        targets.append((self.id_of[k], pos, self.id_of[c]))
        return targets, positions

    def sample_edge(self, entry, rnd, pid, pos, cid, budget=4):
        """a text whose derivation uses production `pid` with production `cid` at rhs position `pos`"""
        kp, kc = self.k_of.get(pid), self.k_of.get(cid)
        if kp is None or kc is None:
            return None
        r = self.chain_to(entry, self.prods[kp][0])
        if r is None:
            return None
        start, chain = r
        names = []
        self._expand_chain(start, chain, kp, rnd, budget, names, edge=(pos, kc))
        return self.render(names, entry, rnd)

    def expand_prod(self, k, rnd, budget, out):
        self.used[k] += 1
        for s in self.prods[k][1]:
            self.expand(s, rnd, budget, out)

    def chain_to(self, entry, target_nt):
        d = self.ctx[entry]
        if target_nt not in d:
            return None
        chain = []
        cur = target_nt
        while d[cur][1] is not None:
            nt, k, pos = d[cur][1]
            chain.append((k, pos))
            cur = nt
        chain.reverse()
        return cur, chain

    def sample(self, entry, rnd, budget=25, target_prod=None):
        """-> text or None"""
        names = []
        if target_prod is not None:
            lhs = self.prods[target_prod][0]
            r = self.chain_to(entry, lhs)
            if r is None:
                return None
            start, chain = r
            # follow chain, then force the target production itself
            self._expand_chain(start, chain, target_prod, rnd, budget, names)
        else:
            start = ENTRY_START[entry] or rnd.choice(['ExprStmt', 'Expr', 'Expr'])
            self.expand(start, rnd, budget, names)
        return self.render(names, entry, rnd)

    def _expand_chain(self, nt, chain, target, rnd, budget, out, edge=None):
        if not chain:
            # expand nt with the target production
            self.used[target] += 1
            for i, s in enumerate(self.prods[target][1]):
                if edge is not None and i == edge[0]:
                    self.expand_prod(edge[1], rnd, budget // 2, out)
                else:
                    self.expand(s, rnd, budget // 2, out)
            return
        k, pos = chain[0]
        self.used[k] += 1
        for i, s in enumerate(self.prods[k][1]):
            if i == pos:
                self._expand_chain(s, chain[1:], target, rnd, budget, out, edge)
            else:
                self.expand(s, rnd, 2, out)

    def render(self, names, entry, rnd):
        toks = []
        for n in names:
            t = tok_text(n, self.g, rnd, self.safe)
            if t is None:
                return None
            toks.append(t)
        if entry == 'sdlmod':
            toks = ['module', 'default'] + toks
        if entry in ('migration', 'extension'):
            if len(toks) >= 2 and toks[0] == '{' and toks[-1] == '}':
                toks = toks[1:-1]
            else:
                return None
        # string interpolation pieces must touch their parentheses' content only via the lexer's
        # own nesting: a space after `\(` and before `)` is fine.
        sep = ' ' if (self.safe or rnd.random() < 0.85) else rnd.choice(['\n', '  ', ' # c\n', '\t'])
        return sep.join(toks)


# ----------------------------------------------------------------------------- operator core

BINOPS = ['+', '-', '*', '/', '//', '%', '^', '++', '??', '=', '!=', '<', '>', '<=', '>=', '?=', '?!=',
          'AND', 'OR', 'LIKE', 'NOT LIKE', 'ILIKE', 'NOT ILIKE', 'IN', 'NOT IN', 'UNION', 'EXCEPT', 'INTERSECT']
PREFIX = ['-', '+', 'NOT', 'EXISTS', 'DISTINCT', 'DETACHED', '<T>', '<optional T>', '<array<T>>']
ATOMS = ['x', '1', "'s'", '$p', '.a', 'x.y', 'f(x)', '(1, 2)', '[1]', '{1, 2}', 'x.y.<z[IS T]', 'm::f(x, k := 2)',
         '(a := 1)', 'true', '-5', '1.5', '2n', "b'b'", 'x@lp', '__source__', 'x[0]', 'x[1:2]', 'x {a}', 'GLOBAL g',
         '()', '(1,)', '{}', '[]', 'INTROSPECT T', 'x[IS T].b', '(SELECT x)', '<T>{}']


def core_expr(rnd, depth, parens=0.3):
    """random expression text over the core with minimal + random parenthesisation"""
    if depth <= 0 or rnd.random() < 0.15:
        return rnd.choice(ATOMS)
    r = rnd.random()
    if r < 0.45:
        op = rnd.choice(BINOPS)
        a, b = core_expr(rnd, depth - 1, parens), core_expr(rnd, depth - 1, parens)
        if rnd.random() < parens:
            a = f'({a})'
        if rnd.random() < parens:
            b = f'({b})'
        return f'{a} {op} {b}'
    if r < 0.62:
        op = rnd.choice(PREFIX)
        a = core_expr(rnd, depth - 1, parens)
        if rnd.random() < parens:
            a = f'({a})'
        return f'{op} {a}' if op[0] != '<' else f'{op}{a}'
    if r < 0.70:
        a, b, c = (core_expr(rnd, depth - 1, parens) for _ in range(3))
        return f'{a} IF {b} ELSE {c}' if rnd.random() < 0.6 else f'IF {b} THEN {a} ELSE {c}'
    if r < 0.76:
        a = core_expr(rnd, depth - 1, parens)
        neg = rnd.choice(['', 'NOT '])
        t = rnd.choice(['T', 'm::T', 'array<T>', 'T | U', 'T & U', 'tuple<a: T, b: U>', '(T | U)', 'TYPEOF x'])
        return f'{a} IS {neg}{t}'
    if r < 0.82:
        a = core_expr(rnd, depth - 1, parens)
        if rnd.random() < 0.6:
            a = f'({a})'
        post = rnd.choice(['[0]', '[1:2]', '[:2]', '[1:]', '.p', '.<q', '@lp', ' {a, b := 1}', '[IS T]', '.p.q', '.0', '.1.2'])
        return f'{a}{post}'
    if r < 0.90:
        es = [core_expr(rnd, depth - 1, parens) for _ in range(rnd.randint(0, 3))]
        k = rnd.random()
        if k < 0.25:
            return '(' + ', '.join(es) + (',' if len(es) == 1 else '') + ')' if es else '()'
        if k < 0.5:
            return '[' + ', '.join(es) + ']'
        if k < 0.75:
            return '{' + ', '.join(es) + '}'
        return 'f(' + ', '.join(es) + (', ' if es else '') + 'kw := ' + core_expr(rnd, depth - 1, parens) + ')'
    a = core_expr(rnd, depth - 1, parens)
    k = rnd.random()
    if k < 0.3:
        return f'(SELECT {a} FILTER {core_expr(rnd, depth - 1, parens)})'
    if k < 0.5:
        return f'(FOR v IN {{1, 2}} UNION {a})'
    if k < 0.7:
        return f'(WITH w := {a} SELECT w)'
    if k < 0.85:
        return f'(SELECT {a} ORDER BY {core_expr(rnd, depth - 1, parens)} DESC THEN x ASC EMPTY FIRST OFFSET 1 LIMIT 2)'
    return f'(INSERT Foo {{ a := {a} }})'


def op_pair_texts():
    """every (outer, inner, position) combination of binary / prefix / postfix forms, with the inner
    form parenthesised and bare: the exhaustive depth-2 operator-adjacency scope"""
    out = []
    bins = BINOPS + ['IS', 'IS NOT', 'IF-ELSE']

    def mk(op, a, b, c='z'):
        if op == 'IF-ELSE':
            return f'{a} IF {c} ELSE {b}'
        if op in ('IS', 'IS NOT'):
            return f'{a} {op} T'
        return f'{a} {op} {b}'
    for o in bins:
        for i in bins:
            inner = mk(i, 'a', 'b', 'c')
            for par in (False, True):
                s = f'({inner})' if par else inner
                out.append(mk(o, s, 'y'))
                if o not in ('IS', 'IS NOT'):
                    out.append(mk(o, 'x', s))
                if o == 'IF-ELSE':
                    out.append(f'x IF {s} ELSE y')
        for p in PREFIX:
            pre = f'{p} a' if p[0] != '<' else f'{p}a'
            for par in (False, True):
                s = f'({pre})' if par else pre
                out.append(mk(o, s, 'y'))
                if o not in ('IS', 'IS NOT'):
                    out.append(mk(o, 'x', s))
            inner = mk(o, 'a', 'b', 'c')
            for par in (False, True):
                s = f'({inner})' if par else inner
                out.append(f'{p} {s}' if p[0] != '<' else f'{p}{s}')
    for p in PREFIX:
        for q in PREFIX:
            pre = f'{q} a' if q[0] != '<' else f'{q}a'
            for par in (False, True):
                s = f'({pre})' if par else pre
                out.append(f'{p} {s}' if p[0] != '<' else f'{p}{s}')
    posts = ['[0]', '[1:2]', '.p', '.<q', '@lp', ' {a}', '[IS T]', '.0']
    for post in posts:
        for o in bins:
            inner = mk(o, 'a', 'b', 'c')
            out.append(f'{inner}{post}')
            out.append(f'({inner}){post}')
        for p in PREFIX:
            pre = f'{p} a' if p[0] != '<' else f'{p}a'
            out.append(f'{pre}{post}')
            out.append(f'({pre}){post}')
        for q in posts:
            out.append(f'x{post}{q}')
            out.append(f'(x{post}){q}')
    return out


# ----------------------------------------------------------------------------- mutation

TOK_RE = re.compile(r'''
    (?P<ws>\s+|\#[^\n]*)
  | (?P<str>(?:r|b|rb|br)?'(?:[^'\\]|\\.)*' | (?:r|b|rb|br)?"(?:[^"\\]|\\.)*" | \$(?:[A-Za-z_][A-Za-z_0-9]*)?\$.*?\$(?:[A-Za-z_][A-Za-z_0-9]*)?\$)
  | (?P<bq>`(?:[^`]|``)+`)
  | (?P<num>\d+(?:\.\d+)?(?:[eE][+-]?\d+)?n?)
  | (?P<word>[^\W\d]\w*|\$\w+)
  | (?P<op>\?\!=|\?=|\?\?|:=|\+=|-=|->|::|\*\*|//|\+\+|!=|<=|>=|\.<|[-+*/%^<>=.,:;()\[\]{}@&|])
  | (?P<other>.)
''', re.X | re.S)


def rough_tokens(text):
    out = []
    for m in TOK_RE.finditer(text):
        if m.lastgroup == 'ws':
            continue
        out.append((m.lastgroup, m.group(0)))
    return out


def join_tokens(toks):
    return ' '.join(t for _, t in toks)


KW_IDENT_SWAPS = ['`select`', 'abstract', 'index', '`my name`', 'match', 'type', 'version', '`union`', 'é1', 'x']
OP_SWAPS = ['+', '-', '*', '/', '//', '%', '^', '++', '??', '=', '!=', '<', '>', '<=', '>=', '?=', '?!=',
            'and', 'or', 'like', 'not like', 'ilike', 'not ilike', 'in', 'not in', 'union', 'except', 'intersect']
OPSET = set(OP_SWAPS) | {'AND', 'OR', 'LIKE', 'ILIKE', 'IN', 'UNION', 'EXCEPT', 'INTERSECT'}


def _paren_groups(toks):
    st, groups = [], []
    for i, (_, t) in enumerate(toks):
        if t == '(':
            st.append(i)
        elif t == ')' and st:
            groups.append((st.pop(), i))
    return groups


def mutate(text, rnd, pool):
    """one mutated variant of `text` (token level).  pool: list of expression texts to splice in"""
    toks = rough_tokens(text)
    if not toks:
        return text
    kind = rnd.random()
    n = len(toks)
    if kind < 0.22:                                   # swap a binary operator
        idx = [i for i, (k, t) in enumerate(toks) if t in OPSET or t.lower() in OPSET]
        if idx:
            i = rnd.choice(idx)
            toks[i] = ('op', rnd.choice(OP_SWAPS))
    elif kind < 0.36:                                 # remove a pair of parentheses (changes nesting)
        gs = _paren_groups(toks)
        if gs:
            a, b = rnd.choice(gs)
            toks = toks[:a] + toks[a + 1:b] + toks[b + 1:]
    elif kind < 0.48:                                 # parenthesise a token range
        a = rnd.randrange(n)
        b = min(n, a + rnd.randint(1, 5))
        toks = toks[:a] + [('op', '(')] + toks[a:b] + [('op', ')')] + toks[b:]
    elif kind < 0.62:                                 # splice an expression from the pool over a paren group / atom
        gs = _paren_groups(toks)
        e = rough_tokens(rnd.choice(pool))
        if gs and rnd.random() < 0.7:
            a, b = rnd.choice(gs)
            toks = toks[:a + 1] + e + toks[b:]
        else:
            idx = [i for i, (k, t) in enumerate(toks) if k in ('num', 'str')]
            if idx:
                i = rnd.choice(idx)
                toks = toks[:i] + [('op', '(')] + e + [('op', ')')] + toks[i + 1:]
    elif kind < 0.72:                                 # prefix operator in front of an atom
        idx = [i for i, (k, t) in enumerate(toks) if k in ('num', 'word', 'str')]
        if idx:
            i = rnd.choice(idx)
            toks = toks[:i] + [('op', rnd.choice(['-', '+', 'not', 'exists', 'distinct', 'detached', '- -', '+ +']))] + toks[i:]
    elif kind < 0.84:                                 # identifier swap (quoting / keywords)
        idx = [i for i, (k, t) in enumerate(toks) if k in ('word', 'bq') and not t.startswith('$')]
        if idx:
            i = rnd.choice(idx)
            toks[i] = ('word', rnd.choice(KW_IDENT_SWAPS + IDENTS))
    elif kind < 0.92:                                 # literal swap
        idx = [i for i, (k, t) in enumerate(toks) if k in ('num', 'str')]
        if idx:
            i = rnd.choice(idx)
            toks[i] = ('str', rnd.choice(SCONST + ICONST + FCONST + NICONST + NFCONST + BCONST + ['-1', '- 2.5']))
    else:                                             # duplicate / drop / transpose (mostly malformed)
        i = rnd.randrange(n)
        r = rnd.random()
        if r < 0.4:
            toks = toks[:i] + toks[i + 1:]
        elif r < 0.7:
            toks = toks[:i] + [toks[i]] + toks[i:]
        elif i + 1 < n:
            toks[i], toks[i + 1] = toks[i + 1], toks[i]
    return join_tokens(toks)


def split_statements(text):
    """rough split of a block into statements at top-level semicolons"""
    toks = rough_tokens(text)
    out, cur, depth = [], [], 0
    for k, t in toks:
        if t in '([{':
            depth += 1
        elif t in ')]}':
            depth -= 1
        if t == ';' and depth == 0:
            if cur:
                out.append(join_tokens(cur))
            cur = []
        else:
            cur.append((k, t))
    if cur:
        out.append(join_tokens(cur))
    return out


def malformed(rnd, seeds):
    r = rnd.random()
    if r < 0.2:
        return rnd.choice(['', ';', ';;', '(', ')', '{', 'select', 'select select', '1 +', '+ + 1', '1 ++ + 2', "'unterminated",
                           '$$x', 'a NOT b', 'a IS', '<>x', 'x[', 'x[:]', 'x.', '.', '@', 'a := 1', '`', '``', '`a', '0x10',
                           '1e', '1.', '.5', '1..2', 'a.b.', 'select 1 2', 'if a then b', 'a if b', 'f(,)', '(,)',
                           'select {a := 1}', '\x00', 'select ‮', '$$a$', 'b\'\xff\'', "'\\z'", '1_000', '01n', 'x::', '::x',
                           'a = b = c', 'a < b < c', 'a IS T IS U', 'a IN b IN c', 'a LIKE b LIKE c'])
    s = rnd.choice(seeds)
    toks = rough_tokens(s)
    if not toks:
        return s
    if r < 0.5:
        i = rnd.randrange(len(toks))
        return join_tokens(toks[:i])                      # truncated
    if r < 0.75:
        i = rnd.randrange(len(toks))
        junk = rnd.choice([')', '(', ',', ';', 'select', ':=', '}', '{', ']', '??', 'not', 'else', '::', '@', '.<', '$', '`'])
        return join_tokens(toks[:i] + [('op', junk)] + toks[i:])
    rnd.shuffle(toks)
    return join_tokens(toks[: rnd.randint(1, min(len(toks), 12))])


# ----------------------------------------------------------------------------- core terms (Coq model)
# prefix notation of coq/theories/C01/Model.v terms, see ocaml/c01_main.ml / harness/impl/c01_impl.py

N_NAMES, N_INTS, N_FLOATS, N_BIG, N_DEC, N_STRS, N_BYTES, N_PARAMS = 30, 7, 4, 3, 3, 11, 6, 6
PLAIN_NAMES = [0, 1, 2, 3, 4, 5, 6, 7, 8, 9, 10, 11, 12, 18, 19, 20, 21]      # identifiers that need no quoting
ALL_NAMES = list(range(N_NAMES))


def g_name(rnd):
    return rnd.choice(PLAIN_NAMES) if rnd.random() < 0.8 else rnd.choice(ALL_NAMES)


def g_optmod(rnd):
    return '-' if rnd.random() < 0.75 else str(g_name(rnd))


def g_type(rnd, d=2):
    if d <= 0 or rnd.random() < 0.7:
        return f'n {g_optmod(rnd)} {g_name(rnd)}'
    k = rnd.randint(1, 2)
    return f'c {g_optmod(rnd)} {rnd.choice([23, 24, 7])} {k} ' + ' '.join(g_type(rnd, d - 1) for _ in range(k))


def g_step(rnd):
    r = rnd.random()
    if r < 0.55:
        return f'p 0 {g_name(rnd)}'
    if r < 0.75:
        return f'p 1 {g_name(rnd)}'
    if r < 0.88:
        return f'a {g_name(rnd)}'
    return 'i ' + g_type(rnd, 1)


def g_const(rnd, neg_ok=True):
    r = rnd.random()
    nneg = 0
    if neg_ok and rnd.random() < 0.25:
        nneg = rnd.choice([1, 1, 2])
    if r < 0.5:
        return f'C i {nneg} {rnd.randrange(N_INTS)}'
    if r < 0.6:
        return f'C f {nneg} {rnd.randrange(N_FLOATS)}'
    if r < 0.66:
        return f'C n {nneg} {rnd.randrange(N_BIG)}'
    if r < 0.72:
        return f'C d {nneg} {rnd.randrange(N_DEC)}'
    if r < 0.88:
        return f'C s 0 {rnd.randrange(N_STRS)}'
    if r < 0.94:
        return f'C b 0 {rnd.randrange(N_BYTES)}'
    return f'C t 0 {rnd.randrange(2)}'


def g_term(rnd, d, nops=28, image=True):
    """random term; image=True keeps inside the parser's image most of the time"""
    if d <= 0 or rnd.random() < 0.12:
        r = rnd.random()
        if r < 0.4:
            return g_const(rnd)
        if r < 0.5:
            return f'P {rnd.randrange(N_PARAMS)}'
        if r < 0.9:
            k = rnd.choice([0, 0, 0, 1, 2])
            return (f'R {g_optmod(rnd)} {g_name(rnd)} {k} ' + ' '.join(g_step(rnd) for _ in range(k))).strip()
        if r < 0.95:
            k = rnd.randint(1, 2)
            first = rnd.choice([f'p 0 {g_name(rnd)}', f'p 1 {g_name(rnd)}', f'a {g_name(rnd)}'])
            return (f'Q {k} {first} ' + ' '.join(g_step(rnd) for _ in range(k - 1))).strip()
        return f'G {g_optmod(rnd)} {g_name(rnd)}'
    sub = lambda: g_term(rnd, d - 1, nops, image)
    r = rnd.random()
    if r < 0.30:
        return f'B {rnd.randrange(nops)} {sub()} {sub()}'
    if r < 0.42:
        op = rnd.choice(['+', '-', '-', 'N', 'E', 'D'])
        x = sub()
        if image and op == '-' and x.startswith('C ') and x.split()[1] in 'ifnd':
            op = 'N'
        return f'U {op} {x}'
    if r < 0.47:
        return f'I {rnd.randrange(2)} {sub()} {g_type(rnd)}'
    if r < 0.53:
        return f'F {rnd.randrange(2)} {sub()} {sub()} {sub()}'
    if r < 0.62:
        k = rnd.randint(0, 3)
        return (f'S {rnd.choice("TAS")} {k} ' + ' '.join(sub() for _ in range(k))).strip()
    if r < 0.65:
        k = rnd.randint(1, 2)
        names = rnd.sample(PLAIN_NAMES, k)
        return f'N {k} ' + ' '.join(f'{n} {sub()}' for n in names)
    if r < 0.72:
        ka, kk = rnd.randint(0, 2), rnd.choice([0, 0, 1, 2])
        names = rnd.sample(PLAIN_NAMES, kk)
        parts = [f'K {g_optmod(rnd)} {g_name(rnd)} {ka}'] + [sub() for _ in range(ka)] + [str(kk)] + [f'{n} {sub()}' for n in names]
        return ' '.join(parts)
    if r < 0.79:
        return f'T {rnd.choice([0, 0, 1, 2])} {g_type(rnd)} {sub()}'
    if r < 0.85:
        x = sub()
        if image and x.startswith('D '):
            x = f'S A 1 {x}'
        k = rnd.randint(1, 2)
        ixs = []
        for _ in range(k):
            if rnd.random() < 0.5:
                ixs.append(f'0 {sub()} _')
            else:
                a = sub() if rnd.random() < 0.6 else '_'
                b = sub() if (rnd.random() < 0.6 or a == '_') else '_'
                ixs.append(f'1 {a} {b}')
        return f'D {k} {x} ' + ' '.join(ixs)
    if r < 0.89:
        return f'A {sub()}'
    if r < 0.94:
        x = sub()
        if image and x[0] in 'RQX':
            x = f'S T 2 {x} C i 0 1'
        k = rnd.randint(1, 2)
        return f'X {x} {k} ' + ' '.join(g_step(rnd) for _ in range(k))
    k = rnd.randint(1, 3)
    if not image and rnd.random() < 0.3:
        k = 0                                     # `x {}`: printed as `x` on purpose (outside [image])
    els = []
    for n in rnd.sample(PLAIN_NAMES, k):
        els.append(f'{n} ' + (sub() if rnd.random() < 0.4 else '_'))
    return (f'H {sub()} {k} ' + ' '.join(els)).rstrip()


# texts over the token vocabulary of the model, for model-parser vs real-parser agreement
CORE_NAMES = ['x', 'y', 'z', 'Foo', 'bar', 'a1', 'T', 'U', 'f', 'g', 'w', '`my name`', '`select`', 'p', 'q', 'k']
CORE_ATOMS = ['x', 'y', '1', '2', "'abc'", '$x', '.bar', '.<bar', '@p', 'x.y', 'std::f(x)', 'f()', 'f(x, k := 2)', '(1, 2)', '(1,)', '()', '[1]', '[]',
              '{1, 2}', '{}', '(a1 := 1)', 'true', 'false', '-5', '1.5', '1n', "b'ab'", 'x[0]', 'x[1:2]', 'x[:2]', 'x[1:]', 'x {bar}', 'x {bar, p := 1}',
              'GLOBAL g', 'GLOBAL std::g', 'x[IS T]', 'x[IS std::T].y', 'Foo.bar.<p[IS T]@q', '<T>x', '<optional T>x', '<required T>x', '<array<T>>x', '<tuple<T, U>>x',
              'DETACHED x', '`my name`.`select`', 'std::Foo', '(x)', '((x))', '(x.y).z', '(x[0])[1]', '(1, 2).p', '$x.p', '{1}.p', '(x + y).p']
CORE_BINOPS = ['+', '-', '*', '/', '//', '%', '^', '++', '??', '=', '!=', '<', '>', '<=', '>=', '?=', '?!=',
               'AND', 'OR', 'LIKE', 'NOT LIKE', 'ILIKE', 'NOT ILIKE', 'IN', 'NOT IN', 'UNION', 'EXCEPT', 'INTERSECT']
CORE_PREFIX = ['-', '+', 'NOT', 'EXISTS', 'DISTINCT', 'DETACHED', '<T>', '<optional std::T>', '<required T>', '<array<T>>']


def core_text(rnd, depth, parens=0.3):
    if depth <= 0 or rnd.random() < 0.15:
        return rnd.choice(CORE_ATOMS)
    sub = lambda: core_text(rnd, depth - 1, parens)
    mp = lambda s: f'({s})' if rnd.random() < parens else s
    r = rnd.random()
    if r < 0.48:
        return f'{mp(sub())} {rnd.choice(CORE_BINOPS)} {mp(sub())}'
    if r < 0.66:
        op = rnd.choice(CORE_PREFIX)
        return f'{op} {mp(sub())}' if op[0] != '<' else f'{op}{mp(sub())}'
    if r < 0.74:
        return f'{mp(sub())} IF {mp(sub())} ELSE {mp(sub())}' if rnd.random() < 0.6 else f'IF {sub()} THEN {sub()} ELSE {mp(sub())}'
    if r < 0.80:
        t = rnd.choice(['T', 'std::T', '(array<T>)', 'array<T>', '(T)'])
        return f'{mp(sub())} IS {rnd.choice(["", "NOT "])}{t}'
    if r < 0.88:
        post = rnd.choice(['[0]', '[1:2]', '[:2]', '[1:]', '.p', '.<q', '@p', ' {bar}', ' {bar, p := 1}', '[IS T]', '.p.q', ' {}'])
        return f'{mp(sub())}{post}'
    es = [sub() for _ in range(rnd.randint(0, 3))]
    k = rnd.random()
    if k < 0.25:
        return '(' + ', '.join(es) + (',' if len(es) == 1 or (es and rnd.random() < 0.2) else '') + ')'
    if k < 0.5:
        return '[' + ', '.join(es) + (',' if es and rnd.random() < 0.2 else '') + ']'
    if k < 0.75:
        return '{' + ', '.join(es) + '}'
    return 'f(' + ', '.join(es) + (', ' if es else '') + 'k := ' + sub() + ')'


# ----------------------------------------------------------------------------- string literals: pairs of character classes
# every ordered pair of character classes inside one literal, in every quoting style: the printer chooses the
# quoting / escaping of a string from ALL its characters, so single-class strings do not exercise the fall-backs

CHAR_CLASSES = [
    ('nl', '\n', '\\n'), ('tab', '\t', '\\t'), ('cr', '\r', '\\r'), ('ctl', '\x01', '\\x01'), ('esc', '\x1b', '\\x1b'),
    ('del', '\x7f', '\\x7f'), ('c1', '\x85', '\\u0085'), ('c1b', '\x9f', '\\u009f'), ('nbsp', '\xa0', '\\u00a0'),
    ('shy', '\xad', '\\u00ad'), ('latin', '\xe9', '\\u00e9'), ('bidi', '‮', '\\u202e'), ('bidi2', '⁦', '\\u2066'),
    ('zwsp', '​', '\\u200b'), ('bom', '﻿', '\\ufeff'), ('ls', ' ', '\\u2028'), ('astral', '\U0001f600', '\\U0001f600'),
    ('combining', 'é', 'e\\u0301'), ('squote', "'", "\\'"), ('dquote', '"', '\\"'), ('backslash', '\\\\', '\\\\'),
    ('dollar', '$', '$'), ('ddollar', '$$', '$$'), ('backtick', '`', '`'), ('interp', '\\(x)', '\\(x)'), ('space', ' ', ' '),
]


def string_class_texts(rnd, per_pair=2):
    out = []
    for na, ra, ea in CHAR_CLASSES:
        for nb, rb, eb in CHAR_CLASSES:
            forms = []
            body_e = 'a' + ea + 'b' + eb + 'c'
            body_r = 'a' + ra + 'b' + rb + 'c'
            body_m = 'a' + ea + 'b' + rb + 'c'
            forms.append("'" + body_e + "'")
            forms.append('"' + body_e.replace("\\'", "'") + '"' if '"' not in body_e.replace('\\"', '') else "'" + body_m + "'")
            if "'" not in body_r:
                forms.append("'" + body_r + "'")
                if '\\' not in body_r:
                    forms.append("r'" + body_r + "'")
            if '"' not in body_r:
                forms.append('"' + body_m + '"')
            if '$$' not in body_r and not body_r.endswith('$'):
                forms.append('$$' + body_r + '$$')
            else:
                forms.append('$q$' + body_r + '$q$')
            for lit in rnd.sample(forms, min(per_pair, len(forms))):
                ctx = rnd.choice(['select {};', 'select {};', 'select {};', "create type T { create annotation title := {} };",
                                  "select f({}, k := {}) ++ {};"])
                out.append(('block', ctx.replace('{}', lit)))
    return out


# ----------------------------------------------------------------------------- statements in every statement position
# exhaustive product (hole x statement form): which statement positions need parentheses depends on the pair

STMT_FORMS = [
    'select User filter .active', 'select 1', 'select User { name, friends: { name } } order by .name limit 1',
    "insert User { name := 'a' }", "insert User { name := 'a' } unless conflict on .name else (select User)",
    "update User filter .name = 'a' set { name := 'b' }", 'delete User filter .active', 'for y in {1, 2} union y',
    'for y in {1, 2} select y', 'for y in (select User filter .active) select y.name', 'for y in (select User) union y.name',
    'with z := 1 select z', 'with z := (select User) select z.name', 'group User by .name',
    'group User using n := .name by n', '(select User)', 'User', '{1, 2}', 'f(x)', 'x.y', '<int64>x', '-x', 'x + y',
    'x union y', 'x if y else z', '(x, y)', '[x]', 'x {a}', 'distinct x', 'exists x', 'not x', 'detached x',
]

STMT_HOLES = [
    ('block', 'for x in (@) union x.name;'), ('block', 'for x in (@) select x.name;'), ('block', 'for x in (@) insert T { n := x };'),
    ('block', 'for x in (@) update T set { n := x };'), ('block', 'for x in (@) delete T;'),
    ('block', 'for x in (@) for y in (@2) select (x, y);'), ('block', 'for x in (@) for y in (@2) union (x, y);'),
    ('block', 'for x in @ union x;'), ('block', 'for x in @ select x;'),
    ('block', 'for x in {1} union (@);'), ('block', 'for x in {1} @;'), ('block', 'for optional x in (@) union x;'),
    ('block', 'for x in {1} for y in {2} @;'), ('block', 'for x in {1} union (for y in {2} @);'),
    ('block', 'select (@);'), ('block', 'select (@).name;'), ('block', 'select count((@));'), ('block', 'select (@) union (@2);'),
    ('block', 'select User { a := (@) };'), ('block', 'with w := (@) select w;'), ('block', 'with w := @ select w;'),
    ('block', 'select 1 filter exists (@);'), ('block', "insert User { friends := (@) };"), ('block', 'update User set { friends := (@) };'),
    ('block', 'update User set { friends += (@) };'), ('block', 'select <str>(@);'), ('block', 'select (@) ?? (@2);'),
    ('block', 'select ((@), 1);'), ('block', 'select [(@)];'), ('block', 'select {(@), (@2)};'), ('block', 'select (@) if true else (@2);'),
    ('block', 'select 1 if (@) else 2;'), ('block', 'select (@) is User;'), ('block', 'select (@)[is User];'), ('block', 'select not exists (@);'),
    ('block', 'select -(@);'), ('block', 'select distinct (@);'), ('block', 'select detached (@);'), ('block', 'select (@) {name};'),
    ('block', 'select (@)[0];'), ('block', 'select (@) in (@2);'), ('block', 'select x filter (@) order by (@2) offset (@) limit (@2);'),
    ('block', 'select (a := (@));'), ('block', 'select f(k := (@));'), ('block', 'select assert_single((@));'),
    ('block', 'select User { name } filter .name = (@);'), ('block', 'select User { multi a := (@), required b := (@2) };'),
    ('block', 'insert T { n := (@) } unless conflict on .n else (@2);'), ('block', 'group (@) by .name;'),
    ('block', 'group x using n := (@) by n;'), ('block', 'analyze @;'), ('block', 'describe @;'), ('block', 'select (@) @2;'),
    ('block', 'create alias A := (@);'), ('block', 'create function f() -> int64 using (@);'),
    ('block', 'create function f(a: int64 = (@)) -> int64 using (@2);'),
    ('block', 'create type T { create property p := (@); };'), ('block', 'alter type T { create link l := (@) };'),
    ('block', 'create global g := (@);'), ('block', 'create type T { create trigger tr after insert for each do (@); };'),
    ('block', 'create type T { create access policy ap allow all using (exists (@)); };'),
    ('block', 'alter type T { alter property p { set required using (@) } };'),
    ('block', 'alter type T { alter link l { reset cardinality using (@) } };'),
    ('block', 'alter type T { alter link l { set single using (@) } };'),
    ('block', 'alter type T { alter property p { set type str using (@) } };'),
    ('block', 'alter type T { alter property p { reset optionality using (@) } };'),
    ('block', 'create type T { create property p -> str { set default := (@); create rewrite insert using (@2) } };'),
    ('block', 'create type T { create constraint expression on (@) except (@2); create index on (@) except (@2) };'),
    ('block', 'configure session set x := (@);'), ('block', 'set global g := (@);'), ('block', 'configure instance insert Auth { p := (@) };'),
    ('block', 'alter type T { alter property p { set default := (@); using (@2) } };'),
    ('sdl', 'type T { property p := (@); };'), ('sdl', 'alias A := (@);'), ('sdl', 'function f() -> int64 using (@);'),
    ('sdl', 'global g := (@);'), ('sdl', 'type T { link l -> U { default := (@); rewrite insert using (@2) }; trigger tr after insert for each do (@); };'),
    ('sdl', 'type T { access policy ap allow all using (exists (@)); constraint expression on (@2); index on (@) except (@2); };'),
    ('fragment', '(@)'), ('fragment', '(@).name'), ('fragment', 'exists (@) and (@2)'),
    ('migration', 'alter type T { alter link l { reset cardinality using (@) } }; create alias A := (@2);'),
]


def stmt_nest_texts(rnd, nrandom=300):
    out = []
    for e, h in STMT_HOLES:
        for st in STMT_FORMS:
            out.append((e, h.replace('@2', rnd.choice(STMT_FORMS)).replace('@', st)))
    # two levels: a hole filled with a filled hole (block holes only, without the trailing `;`)
    inner = [h[:-1] for e, h in STMT_HOLES if e == 'block' and h.endswith(';') and h.count(';') == 1
             and h.split()[0] in ('for', 'select', 'with', 'insert', 'update', 'group')]
    for _ in range(nrandom):
        e, h = rnd.choice(STMT_HOLES)
        mid = rnd.choice(inner).replace('@2', rnd.choice(STMT_FORMS)).replace('@', rnd.choice(STMT_FORMS))
        out.append((e, h.replace('@2', rnd.choice(STMT_FORMS)).replace('@', mid)))
    return out


# ----------------------------------------------------------------------------- statement templates
# DDL / SDL bodies that hold EVERY kind of sub-command of an object (productions whose reduce_* methods make
# semantic checks -- "computed link without expression", "CREATE CAST requires USING" -- are rarely accepted
# from blind derivations; forced coverage lists what is still unreached after these)

DDL_TEMPLATES = [
    ('block', "create cast from std::str to std::int64 { using sql function 'f'; alter annotation title := 'x'; create annotation description := 'y'; allow implicit; set volatility := 'Immutable'; };"),
    ('block', 'create cast from std::str to std::int64 using sql cast;'),
    ('block', 'create cast from std::str to std::int64 { using sql cast; allow assignment };'),
    ('block', 'create cast from std::str to std::int64 { using sql expression; };'),
    ('block', "create cast from std::str to std::int64 { using sql 'select 1'; };"),
    ('block', "create type T { create link l: U { create annotation title := 'x'; alter annotation title := 'y'; on source delete allow; on target delete restrict; set default := (select U limit 1); create index on (@p); create rewrite insert using (.l); create constraint exclusive; extending base; set required; create property p: str; } };"),
    ('block', 'create type T { create link l: U { on source delete delete target; on target delete allow; set readonly := true; } };'),
    ('block', 'create type T { create link l: U { on source delete delete target if orphan; on target delete deferred restrict; } };'),
    ('block', "create type T { create link l { using (select U); create annotation title := 'x'; } };"),
    ('block', 'create type T { create required multi link l { using (select U) } };'),
    ('block', 'create type T { create link l: U { using (select U); }; create link m: U { reset expression }; };'),
    ('block', "create type T { create property p: str { create annotation title := 'x'; alter annotation title := 'y'; set default := 'a'; create constraint exclusive; set required; create rewrite update using ('x'); extending q; } };"),
    ('block', "create type T { create property p { using (.a ++ .b); create annotation title := 'x' } };"),
    ('block', 'create type T { create required single property p { using (1) } };'),
    ('block', 'create type T { create property p: str { reset expression; } };'),
    ('block', 'alter type T { create property p { using (1) } }; alter type T { alter link l { create property p { using (1) } } }; alter abstract link L { create property p { using (1) } };'),
    ('block', "alter function f(a: int64) { using sql function 'g' }; alter function f() { using sql expression }; alter function f() { using sql 'select 1' }; alter function f() { using (1) };"),
    ('block', "create function f(a: int64) -> int64 { using sql function 'g'; alter annotation title := 'x' };"),
    ('block', 'create function f() -> int64 { using (1); };'),
    ('block', 'create function f() -> int64 { using (1) };'),
    ('block', "create infix operator o (a: int64, b: int64) -> bool { using sql operator '='; alter annotation title := 'x'; create annotation description := 'z' };"),
    ('block', "create infix operator o (a: int64, b: int64) -> bool using sql operator '=';"),
    ('block', 'create abstract infix operator o (a: int64, b: int64) -> bool;'),
    ('sdl', "module m { type T { link l -> U { constraint exclusive { errmessage := 'x' }; index on (@p) { annotation title := 'i' }; deferred index on (@p); rewrite insert using (.l) { annotation title := 'r' }; overloaded property p -> str { default := 'a' }; on source delete allow; extending base; x -> str { default := 'q' }; } } }"),
    ('sdl', "module m { type T { link l -> U { constraint exclusive; index on (@p); rewrite insert using (.l); on source delete allow; on target delete restrict; extending base; property p -> str; annotation title := 'x'; default := (select U); } } }"),
    ('sdl', 'module m { type T { overloaded required link l -> U { }; overloaded required property p -> str { }; overloaded x -> str { }; overloaded required y -> str { }; z := 1; required w := 2; } }'),
    ('sdl', "module m { type T { index on (.a) { annotation title := 'x'; }; deferred index on (.b) { annotation title := 'y' }; index fts::index(language := 'eng') on (.c) { annotation title := 'z' }; deferred index pg::gin(a := 1) on (.d) { }; deferred index pg::gin(a := 1) on (.d); deferred index named on (.e) { }; index named on (.f) { } } }"),
    ('sdl', "module m { type T { constraint expression on (.a > 0) { errmessage := 'x' }; delegated constraint exclusive on (.b) except (.c) { annotation title := 't' }; } }"),
    ('sdl', "module m { abstract inheritable annotation a extending b { annotation title := 'x' }; abstract annotation c; abstract constraint cc(x: int64) on (__subject__) extending dd; abstract index ii(named only x: int64) extending jj { code := 'c' }; abstract index kk(named only x: int64 = 1, ) { annotation title := 'a'; }; }"),
    ('sdl', "module m { global g -> str { default := 'x'; annotation title := 'y' }; global h := 1; required global k -> str { default := 'a' }; global e -> str { }; global f -> str { default := 'x' } }"),
    ('sdl', "module m { function f() -> int64 { using (1); annotation title := 'x'; volatility := 'Immutable' }; function g() -> int64 { volatility := 'Immutable'; using (1) }; function h() -> int64 { using sql function 'x' }; function e() -> int64 using (1); }"),
    ('sdl', "module m { alias A { using (select User); annotation title := 'x' }; alias B { using (1) }; alias C := 2; }"),
    ('sdl', "module m { scalar type S extending str { constraint max_len_value(3); annotation title := 'x' }; scalar type E extending enum<a, b>; scalar type Z extending str { }; scalar type Y extending str { annotation title := 'x' } }"),
    ('sdl', "module m { type T { access policy ap allow all using (true) { errmessage := 'no'; annotation title := 'x' }; access policy bp when (.a) deny select, insert using (false) { annotation title := 'x' }; access policy cp allow update read, update write; access policy dp allow all { } } }"),
    ('sdl', "module m { type T { trigger tr after insert, update for each when (true) do (select 1) { annotation title := 'x' }; trigger ts after delete for all do (1); trigger tu after insert for each do (1) { } } }"),
    ('sdl', "module m { type T { property p -> str { rewrite insert, update using (.p) { annotation title := 'x' }; }; property q -> str { rewrite update using ('a'); rewrite insert using ('a') { } }; } }"),
    ('sdl', "module m { abstract link L extending K { property p -> str; index on (@p) { annotation title := 'x' }; constraint exclusive { }; annotation title := 't'; readonly := true; overloaded q -> str { }; rewrite insert using (1) { } }; abstract link M { annotation title := 'a' }; abstract link N { readonly := true }; abstract link O { } }"),
    ('sdl', "module m { abstract property P extending Q { annotation title := 'x'; readonly := true; }; abstract property R { annotation title := 'x' }; abstract property S { readonly := true }; abstract property U { using (1) }; abstract property V { } }"),
    ('block', "create extension package foo version '1.0' { set ext_module := 'foo'; create module foo; };"),
    ('block', "create extension package foo migration from version '1.0' to version '2.0' { create module bar; alter type T { create property p: str } };"),
    ('block', "drop extension package foo migration from version '1.0' to version '2.0';"),
    ('block', "alter extension foo to version '2.0';"),
    ('block', "create extension foo version '1.0'; drop extension foo version '1.0'; create extension bar; drop extension bar;"),
    ('block', 'create data branch a from b; create schema branch a from b; create template branch a from b; create empty branch a;'),
    ('block', 'configure current branch set x := 1; configure current database set x := 1; configure instance reset x filter .a = 1; configure session insert Foo { a := 1 }; reset global g;'),
    ('block', 'select f(1, 2,); select (a := 1, b := 2,); select f(a := 1); select [1, 2,]; select {1, 2,};'),
    ('block', 'with a := 1, b := 2, select a + b; with module m, a as module n, select a::x;'),
    ('block', 'select User { multi a := 1, optional single b := 2, required multi c := 3, friends += (select User), enemies -= (select User) };'),
    ('block', "insert User { name := 'a', friends += (select User) }; update User set { friends -= (select User), name := 'x' };"),
    ('block', 'commit migration; commit migration rewrite; start migration rewrite; abort migration rewrite; populate migration; describe current migration as json; alter current migration reject proposed; reset schema to initial;'),
    ('block', "create abstract annotation a { create annotation title := 'x'; create annotation description := 'y' }; create abstract inheritable annotation b;"),
    ('block', "create global g -> str { set default := 'x'; create annotation title := 'y'; }; create global h := 1; create required global k -> str { set default := 'a' }; create global e { using (1); create annotation title := 'x' };"),
    ('block', "create index match for std::str using fts::index { create annotation title := 'x'; }; create index match for std::str using fts::index;"),
    ('block', "create abstract index ii(named only x: int64) { create annotation title := 'x'; set code := 'c' }; create abstract index jj() extending ii;"),
    ('block', "create type T { create trigger tr after insert for each do (1) { create annotation title := 'x' }; create access policy ap allow all using (true) { create annotation title := 'x'; set errmessage := 'e' }; create access policy bp allow all; };"),
    ('block', "alter type T { alter trigger tr { using (2); create annotation title := 'x'; }; alter access policy ap { allow select; when (true); reset when; using (false); reset expression; rename to bp; create annotation title := 'x' }; alter link l { create rewrite insert using (1) { create annotation title := 'x' }; alter rewrite insert { using (2) }; drop rewrite insert; } };"),
    ('block', "alter type T { alter property p { create annotation title := 'x'; alter annotation title := 'y'; drop annotation title; set default := 'a'; reset default; rename to q; set owned; drop owned; set readonly := true; reset readonly; set type str using (<str>.p); reset type; set required using ('x'); set optional; reset optionality; set single using (.p); set multi; reset cardinality using (.p); reset cardinality; using (1); reset expression; create constraint exclusive; alter constraint exclusive { set delegated; set not delegated; }; drop constraint exclusive; extending a, b first; drop extending a; } };"),
    ('block', "alter type T { alter link l { set required using (select U limit 1); set single using (select U limit 1); reset cardinality using (select U limit 1); reset optionality; set type U using (.l[is U]); on source delete allow; on target delete restrict; reset on target delete; reset on source delete; create index on (@p); alter index on (@p) { create annotation title := 'x' }; drop index on (@p); create property p: str; alter property p { set default := 'x' }; drop property p; extending a last; extending b before c; extending d after e; } };"),
    ('block', "alter type T { extending A, B first; drop extending C; rename to U; create annotation title := 'x'; alter annotation title := 'y'; drop annotation title; set abstract; reset abstract; create index on (.a); alter index on (.a) { set owned }; drop index on (.a); create constraint exclusive on (.a); alter constraint exclusive on (.a) { set errmessage := 'x' }; drop constraint exclusive on (.a); };"),
    ('block', "drop extension foo version '1.0';"),
    ('block', "drop extension package foo version '1.0';"),
    ('block', "create extension package foo migration from version '1.0' to version '2.0';"),
    ('block', 'alter type T { alter link l { reset cardinality using (.baz) } };'),
    ('block', 'alter type T { alter property p { set single using (.baz) } };'),
    ('block', 'alter type T { alter property p { set required using (.baz) } };'),
    ('block', 'for x in (select User filter .active) select x.name;'),
    ('block', "select '10\\u00a0km\\nnext';"),
]


# ----------------------------------------------------------------------------- partial reserved keywords in every name position
# `union`, `except`, `intersect` may be written bare only where the grammar takes a PathStepName / type name; the printer
# decides per position whether to quote.  Every identifier position of a seed text is tried with a quoted partial keyword.

PARTIAL_KW = ['`union`', '`except`', '`intersect`']


def partial_reserved_texts(rnd, seeds, keywords, per_text=3, every=False):
    """seeds: [(entry, text)]; one identifier of the text replaced by a quoted partial reserved keyword per case"""
    out = []
    kws = {k.lower() for k in keywords}
    for e, t in seeds:
        toks = rough_tokens(t)
        if len(toks) > 300:
            continue
        pos = [i for i, (k, v) in enumerate(toks)
               if (k == 'word' and not v.startswith('$') and v.lower() not in kws and not v.startswith('__')) or k == 'bq']
        if not pos:
            continue
        for i in (pos if every else rnd.sample(pos, min(per_text, len(pos)))):
            new = list(toks)
            new[i] = ('bq', rnd.choice(PARTIAL_KW))
            out.append((e, join_tokens(new)))
    return out
