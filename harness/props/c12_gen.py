"""C12 — case generators (user schema description, typed expression generator, exhaustive
streams, malformed stream).  Cases are s-expression lines shared by the OCaml-extracted model
(ocaml/c12_main.ml) and the real-compiler driver (harness/impl/c12_impl.py).

expr  ::= empty | (lit S) | (cast T E) | (tuple 0|1 (N E)...) | (array E...) | (set E...)
        | (op C E...) | (call C (E...) ((N E)...)) | (tidx E N) | (idx E E) | (objset O) | (ptr E N)
type  ::= any | anytuple | anyobject | (s S) | (arr T) | (rng T) | (mrng T) | (tup 0|1 (N T)...)
        | (obj O) | (union O...)
S/O/C/N = numeric ids of scalars / object types / callable names / element+parameter names
          (std part: Gen_StdSig.manifest.json; user part: USER below, ids >= 1000).
"""
from __future__ import annotations

import itertools

# ----------------------------------------------------------------------------- user schema

USER_SCALARS = [        # name, bases (first = the only base), enum labels
    ('default::myint', 'std::int64', None),
    ('default::myint2', 'default::myint', None),
    ('default::mystr', 'std::str', None),
    ('default::myfloat', 'std::float64', None),
    ('default::myint16', 'std::int16', None),
    ('default::Color', None, ['Red', 'Green', 'Blue']),
]
# name, abstract, bases, own pointers [(name, target type term, SDL declaration)]
_STR, _I64 = ('s', 'std::str'), ('s', 'std::int64')
USER_OBJTYPES = [
    ('default::Named', True, [], [('name', _STR, 'required name: str;')]),
    ('default::User', False, ['default::Named'],
     [('deck', ('obj', 'default::Card'), 'multi deck: Card { count: int64 };'),
      ('friends', ('obj', 'default::User'), 'multi friends: User { nickname: str };'),
      ('awards', ('obj', 'default::Award'), 'multi awards: Award;'),
      ('avatar', ('obj', 'default::Card'), 'avatar: Card { text: str };')]),
    ('default::Bot', False, ['default::User'], []),
    ('default::Card', False, ['default::Named'],
     [('element', _STR, 'required element: str;'), ('cost', _I64, 'required cost: int64;'),
      ('text', _STR, 'text: str;'), ('awards', ('obj', 'default::Award'), 'multi awards: Award;')]),
    ('default::SpecialCard', False, ['default::Card'], []),
    ('default::Award', False, ['default::Named'], []),
    ('default::Person', False, [],
     [('name', _STR, 'required name: str;'), ('multi_prop', _STR, 'multi multi_prop: str;'),
      ('notes', ('obj', 'default::Note'), 'multi notes: Note { metanote: str };'), ('tag', _STR, 'tag: str;')]),
    ('default::Note', False, [], [('name', _STR, 'required name: str;'), ('note', _STR, 'note: str;')]),
    ('default::Foo', False, [], [('val', _STR, 'required val: str;'), ('opt', _I64, 'opt: int64;')]),
]
# pointers every object type inherits from std::BaseObject
STD_PTRS = [('id', ('s', 'std::uuid')), ('__type__', ('obj', 'schema::ObjectType'))]
# name, params [(name, kind, typemod, type text, type term builder, default text)], ret typemod, ret type, body
# type terms are given as python tuples resolved by Ids.ty()
USER_FUNCS = [
    ('default::f_tup', [('x', 'pos', 'one', ('tup', 0, [('0', ('s', 'std::int64'))]), None)],
     'one', ('tup', 0, [('0', ('s', 'std::int64'))]), 'x'),
    ('default::f_ntup', [('x', 'pos', 'one', ('tup', 1, [('a', ('s', 'std::int64')), ('b', ('s', 'std::str'))]), None)],
     'one', ('tup', 1, [('a', ('s', 'std::int64')), ('b', ('s', 'std::str'))]), 'x'),
    ('default::f_lohi', [('x', 'pos', 'one', ('tup', 1, [('lo', ('s', 'std::float64')), ('hi', ('s', 'std::int64'))]), None)],
     'one', ('tup', 1, [('lo', ('s', 'std::float64')), ('hi', ('s', 'std::int64'))]), 'x'),
    ('default::f_myint', [('x', 'pos', 'one', ('s', 'default::myint'), None)], 'one', ('s', 'default::myint'), 'x'),
    ('default::f_over', [('x', 'pos', 'one', ('s', 'std::int64'), None)], 'one', ('s', 'std::int64'), 'x'),
    ('default::f_over', [('x', 'pos', 'one', ('s', 'std::float64'), None)], 'one', ('s', 'std::float64'), 'x'),
    ('default::f_over', [('x', 'pos', 'one', ('s', 'std::str'), None)], 'one', ('s', 'std::str'), 'x'),
    ('default::f_over2', [('x', 'pos', 'one', ('s', 'std::int32'), None), ('y', 'pos', 'one', ('s', 'std::float64'), None)],
     'one', ('s', 'std::int32'), 'x'),
    ('default::f_over2', [('x', 'pos', 'one', ('s', 'std::float64'), None), ('y', 'pos', 'one', ('s', 'std::int32'), None)],
     'one', ('s', 'std::float64'), 'x'),
    ('default::f_arr', [('x', 'pos', 'one', ('arr', ('s', 'std::float64')), None)], 'one', ('s', 'std::float64'), '1.0'),
    ('default::f_var', [('xs', 'var', 'one', ('arr', ('s', 'std::int64')), None)], 'one', ('s', 'std::int64'), '1'),
    ('default::f_def', [('x', 'pos', 'one', ('s', 'std::int64'), None), ('y', 'pos', 'one', ('s', 'std::float64'), '1.0')],
     'one', ('s', 'std::float64'), 'x + y'),
    ('default::f_set', [('x', 'pos', 'one', ('s', 'std::float64'), None)], 'set', ('s', 'std::float64'), '{x, x}'),
    ('default::f_opt', [('x', 'pos', 'opt', ('s', 'std::str'), None)], 'opt', ('s', 'std::str'), 'x'),
    ('default::f_obj', [('x', 'pos', 'one', ('obj', 'default::Named'), None)], 'one', ('s', 'std::str'), 'x.name'),
    ('default::f_rng', [('x', 'pos', 'one', ('rng', ('s', 'std::int64')), None)], 'one', ('s', 'std::bool'), 'true'),
    ('default::f_mrng', [('x', 'pos', 'one', ('mrng', ('s', 'std::int64')), None)], 'one', ('s', 'std::bool'), 'true'),
]
USER_NAMES = ['a', 'b', 'c', 'x', 'y', 'xs', 'lo', 'hi', 'mid', 'p'] + sorted(
    {p[0] for _, _, _, ps in USER_OBJTYPES for p in ps} | {p[0] for p in STD_PTRS})


def _c3(name, bases_of, memo):
    if name in memo:
        return memo[name]
    seqs = [list(_c3(b, bases_of, memo)) for b in bases_of[name]] + [list(bases_of[name])]
    res = [name]
    while any(seqs):
        seqs = [s for s in seqs if s]
        for s in seqs:
            cand = s[0]
            if not any(cand in t[1:] for t in seqs):
                break
        else:
            raise ValueError('inconsistent hierarchy')
        res.append(cand)
        for s in seqs:
            if s and s[0] == cand:
                del s[0]
    memo[name] = res
    return res


class Ids:
    """numbering shared with the model: std ids from the manifest + user ids"""

    def __init__(self, manifest):
        self.man = manifest
        self.scalar = dict(manifest['ids']['scalar'])
        self.objtype = dict(manifest['ids']['objtype'])
        self.callable = dict(manifest['ids']['callable'])
        self.name = dict(manifest['ids']['name'])
        self.user = {'scalar': {}, 'objtype': {}, 'callable': {}, 'name': {}}
        for i, (n, _, _) in enumerate(USER_SCALARS):
            self.user['scalar'][n] = 1000 + i
        for i, (n, _, _, _) in enumerate(USER_OBJTYPES):
            self.user['objtype'][n] = 1000 + i
        k = 0
        for f in USER_FUNCS:
            if f[0] not in self.user['callable']:
                self.user['callable'][f[0]] = 10000 + k
                k += 1
        k = 0
        for n in USER_NAMES:
            if n not in self.name:
                self.user['name'][n] = 1000 + k
                k += 1
        self.scalar.update(self.user['scalar'])
        self.objtype.update(self.user['objtype'])
        self.callable.update(self.user['callable'])
        self.name.update(self.user['name'])
        sig = manifest['sig']
        self.std_scalar_anc = {n: s['ancestors'] for n, s in sig['scalars'].items()}
        self.abstract = {n for n, s in sig['scalars'].items() if s['abstract']}
        self.enum = {n for n, s in sig['scalars'].items() if s['enum'] is not None}

    # -- type terms (python tuples with names) -> sexp text
    def ty(self, t):
        if isinstance(t, str):
            return t
        k = t[0]
        if k == 's':
            return f'(s {self.scalar[t[1]]})'
        if k == 'obj':
            return f'(obj {self.objtype[t[1]]})'
        if k in ('arr', 'rng', 'mrng'):
            return f'({k} {self.ty(t[1])})'
        if k == 'tup':
            return f'(tup {t[1]}' + ''.join(f' ({self.name[n]} {self.ty(e)})' for n, e in t[2]) + ')'
        raise ValueError(t)

    def ty_text(self, t):
        k = t[0]
        if k == 's' or k == 'obj':
            return t[1]
        if k == 'arr':
            return f'array<{self.ty_text(t[1])}>'
        if k == 'rng':
            return f'range<{self.ty_text(t[1])}>'
        if k == 'mrng':
            return f'multirange<{self.ty_text(t[1])}>'
        if k == 'tup':
            if t[1]:
                return 'tuple<' + ', '.join(f'{n}: {self.ty_text(e)}' for n, e in t[2]) + '>'
            return 'tuple<' + ', '.join(self.ty_text(e) for _, e in t[2]) + '>'
        raise ValueError(t)

    # -- user schema as SDL and as the model's <ext>
    def user_sdl(self):
        out = []
        for n, base, enum in USER_SCALARS:
            sn = n.split('::')[1]
            if enum:
                out.append(f'scalar type {sn} extending enum<{", ".join(enum)}>;')
            else:
                out.append(f'scalar type {sn} extending {base};')
        for n, ab, bases, ptrs in USER_OBJTYPES:
            sn = n.split('::')[1]
            ext = (' extending ' + ', '.join(b.split('::')[1] for b in bases)) if bases else ''
            body = ' '.join(p[2] for p in ptrs)
            out.append(f'{"abstract " if ab else ""}type {sn}{ext} {{ {body} }}')
        for n, params, rtm, rty, body in USER_FUNCS:
            sn = n.split('::')[1]
            ps = []
            for pn, pk, pm, pt, pd in params:
                if pk == 'var':
                    txt = f'variadic {pn}: {self.ty_text(pt[1])}'
                else:
                    txt = f'{"named only " if pk == "named" else ""}{pn}: ' \
                          f'{ {"one": "", "opt": "optional ", "set": "set of "}[pm]}{self.ty_text(pt)}'
                if pd is not None:
                    txt += f' = {pd}'
                ps.append(txt)
            rm = {"one": "", "opt": "optional ", "set": "set of "}[rtm]
            out.append(f'function {sn}({", ".join(ps)}) -> {rm}{self.ty_text(rty)} using ({body});')
        return '\n'.join(out)

    def user_ext(self):
        sc = []
        anc = {}
        for n, base, enum in USER_SCALARS:
            if enum:
                a = ['std::anyenum'] + self.std_scalar_anc['std::anyenum']
            else:
                a = [base] + (anc[base] if base in anc else self.std_scalar_anc[base])
            anc[n] = a
            sc.append(f'({self.scalar[n]} 0 {1 if enum else 0} ({" ".join(str(self.scalar[x]) for x in a)}))')
        ob = []
        bases_of = {n: (b if b else ['std::Object']) for n, _, b, _ in USER_OBJTYPES}
        bases_of['std::Object'] = ['std::BaseObject']
        bases_of['std::BaseObject'] = []
        memo = {}
        for n, _, _, _ in USER_OBJTYPES:
            a = _c3(n, bases_of, memo)[1:]
            ob.append(f'({self.objtype[n]} ({" ".join(str(self.objtype[x]) for x in a)}))')
        fs = []
        for n, params, rtm, rty, body in USER_FUNCS:
            named = sorted([p for p in params if p[1] == 'named'], key=lambda p: p[0])
            pos = [p for p in params if p[1] == 'pos']
            var = [p for p in params if p[1] == 'var']
            ps = ' '.join(f'({self.name[pn]} {pk} {pm} {self.ty(pt)} {0 if pd is None else 1})'
                          for pn, pk, pm, pt, pd in named + pos + var)
            fs.append(f'({self.callable[n]} 0 0 0 - ({ps}) {rtm} {self.ty(rty)})')
        ps = []
        for n, a in self.user_ptrs().items():
            for pn, pt in a:
                ps.append(f'({self.objtype[n]} {self.name[pn]} {self.ty(pt)})')
        return f'(({" ".join(sc)}) ({" ".join(ob)}) () ({" ".join(fs)}) ({" ".join(ps)}))'

    def user_ptrs(self):
        """object type -> [(pointer name, target)] with the inherited pointers (own declarations
        first, then the bases' in MRO order, then id / __type__)"""
        own = {n: ps for n, _, _, ps in USER_OBJTYPES}
        bases_of = {n: (b if b else []) for n, _, b, _ in USER_OBJTYPES}
        memo = {}
        out = {}
        for n in own:
            seen, lst = set(), []
            for a in _c3(n, bases_of, memo):
                for pn, pt, _ in own[a]:
                    if pn not in seen:
                        seen.add(pn)
                        lst.append((pn, pt))
            out[n] = lst + STD_PTRS
        # the std object type reached through __type__ (only the pointers the generators use)
        out['schema::ObjectType'] = [('name', ('s', 'std::str')), ('id', ('s', 'std::uuid'))]
        return out


# ----------------------------------------------------------------------------- expression builder

class G:
    def __init__(self, ids: Ids):
        self.ids = ids
        sig = ids.man['sig']
        S = ids.scalar
        self.LITS = ['std::int64', 'std::float64', 'std::str', 'std::bool', 'std::bigint', 'std::decimal',
                     'std::bytes']
        # which literal to cast from in order to get a value of a scalar type
        cast_pairs = {(c['from'][1], c['to'][1]) for c in sig['casts']
                      if c['from'][0] == 'name' and c['to'][0] == 'name'}
        self.src = {}
        for n, s in sig['scalars'].items():
            if s['abstract'] or n in self.LITS:
                continue
            for lit in ('std::str', 'std::int64', 'std::float64', 'std::json'):
                if (lit, n) in cast_pairs:
                    self.src[n] = lit
                    break
        for n, base, enum in USER_SCALARS:
            self.src[n] = 'std::str' if enum else base
        self.enums_std = sorted(ids.enum)
        self.core = ['std::int16', 'std::int32', 'std::int64', 'std::float32', 'std::float64', 'std::bigint',
                     'std::decimal', 'std::str', 'std::bool', 'std::bytes', 'std::uuid', 'std::json',
                     'std::datetime', 'std::duration']
        self.numeric = self.core[:7]
        self.points = ['std::int32', 'std::int64', 'std::float32', 'std::float64', 'std::decimal',
                       'std::datetime', 'std::cal::local_datetime', 'std::cal::local_date']
        concrete = sorted(n for n, s in sig['scalars'].items() if not s['abstract'])
        self.all_scalars = [n for n in concrete if n in self.LITS or n in self.src] + [u[0] for u in USER_SCALARS]
        self.no_atom = [n for n in concrete if n not in self.LITS and n not in self.src]
        self.objs = [n for n, ab, _, _ in USER_OBJTYPES]
        self.ptr_names = sorted({p[0] for _, _, _, ps in USER_OBJTYPES for p in ps} | {'id', '__type__'})
        ops = {}
        for o in sig['operators']:
            ops.setdefault(o['name'], set()).add(len(o['params']))
        self.infix = sorted(n for n, ar in ops.items() if 2 in ar and n not in ('std::[]',))
        self.prefix = sorted(n for n, ar in ops.items() if 1 in ar)
        self.funcs = {}
        for f in sig['functions']:
            self.funcs.setdefault(f['name'], []).append(f)
        for n, params, rtm, rty, body in USER_FUNCS:
            self.funcs.setdefault(n, []).append({'name': n, 'params': [
                {'name': p[0], 'kind': {'pos': 'PositionalParam', 'var': 'VariadicParam', 'named': 'NamedOnlyParam'}[p[1]],
                 'default': p[4] is not None} for p in params]})
        self.special_funcs = {'std::fts::search', 'std::fts::with_options', 'std::_warn_on_call'}

    # --- atoms
    def lit(self, n):
        return f'(lit {self.ids.scalar[n]})'

    def S(self, n):
        return f'(s {self.ids.scalar[n]})'

    def atom(self, n, empty=False):
        """an expression of scalar type n"""
        if empty:
            return f'(cast {self.S(n)} empty)'
        if n in self.LITS:
            return self.lit(n)
        src = self.src[n]
        if src in self.LITS:
            return f'(cast {self.S(n)} {self.lit(src)})'
        return f'(cast {self.S(n)} {self.atom(src)})'

    def op(self, name, *args):
        return f'(op {self.ids.callable[name]} {" ".join(args)})'

    def call(self, name, args, kw=()):
        k = ' '.join(f'({self.ids.name[n]} {e})' for n, e in kw)
        return f'(call {self.ids.callable[name]} ({" ".join(args)}) ({k}))'

    def tup(self, *els):
        return '(tuple 0 ' + ' '.join(f'({i} {e})' for i, e in enumerate(els)) + ')'

    def ntup(self, *pairs):
        return '(tuple 1 ' + ' '.join(f'({self.ids.name[n]} {e})' for n, e in pairs) + ')'

    def arr(self, *els):
        return '(array' + ''.join(' ' + e for e in els) + ')'

    def set(self, *els):
        return '(set' + ''.join(' ' + e for e in els) + ')'

    def rng(self, n):
        return self.call('std::range', [self.atom(n), self.atom(n)])

    def mrng(self, n):
        return self.call('std::multirange', [self.arr(self.rng(n))])

    def obj(self, n):
        return f'(objset {self.ids.objtype[n]})'

    def ptr(self, e, name):
        return f'(ptr {e} {self.ids.name[name]})'

    # --- the universe of "typed atoms" used by the exhaustive streams: (tag, expr)
    def universe(self, level):
        """level 0: core scalars; 1: + all scalars, collections over core; 2: + more collections, objects"""
        u = [(n, self.atom(n)) for n in self.core]
        if level >= 1:
            u += [(n, self.atom(n)) for n in self.all_scalars if n not in self.core]
            u += [(f'array<{n}>', self.arr(self.atom(n))) for n in self.numeric + ['std::str', 'std::json']]
            u += [(f'range<{n}>', self.rng(n)) for n in self.points[:5]]
            u += [(f'multirange<{n}>', self.mrng(n)) for n in self.points[:3]]
            u += [('tuple<int64>', self.tup(self.atom('std::int64'))),
                  ('tuple<int64,str>', self.tup(self.atom('std::int64'), self.atom('std::str'))),
                  ('tuple<float64,str>', self.tup(self.atom('std::float64'), self.atom('std::str'))),
                  ('tuple<a:int64,b:str>', self.ntup(('a', self.atom('std::int64')), ('b', self.atom('std::str')))),
                  ('tuple<b:int64,a:str>', self.ntup(('b', self.atom('std::int64')), ('a', self.atom('std::str')))),
                  ('tuple<a:float32>', self.ntup(('a', self.atom('std::float32')))),
                  ('tuple<a:int16>', self.ntup(('a', self.atom('std::int16')))),
                  ('empty', 'empty'), ('array[]', '(array)'),
                  ('<int64>{}', self.atom('std::int64', empty=True))]
        if level >= 2:
            u += [(n, self.obj(n)) for n in self.objs]
            O = self.obj
            u += [('User.name', self.ptr(O('default::User'), 'name')), ('Card.cost', self.ptr(O('default::Card'), 'cost')),
                  ('User.deck', self.ptr(O('default::User'), 'deck')), ('Foo.opt', self.ptr(O('default::Foo'), 'opt')),
                  ('User.deck.cost', self.ptr(self.ptr(O('default::User'), 'deck'), 'cost')),
                  ('Person.notes', self.ptr(O('default::Person'), 'notes')), ('Bot.id', self.ptr(O('default::Bot'), 'id'))]
            u += [(f'array<{n}>', self.arr(self.atom(n))) for n in self.core if n not in self.numeric + ['std::str', 'std::json']]
            u += [(f'range<{n}>', self.rng(n)) for n in self.points[5:]]
            u += [(f'multirange<{n}>', self.mrng(n)) for n in self.points[3:]]
            u += [('tuple<tuple<int16>,array<int64>>',
                   self.tup(self.tup(self.atom('std::int16')), self.arr(self.atom('std::int64')))),
                  ('tuple<tuple<float32>,array<float64>>',
                   self.tup(self.tup(self.atom('std::float32')), self.arr(self.atom('std::float64')))),
                  ('array<tuple<int64>>', self.arr(self.tup(self.atom('std::int64')))),
                  ('array<tuple<float64>>', self.arr(self.tup(self.atom('std::float64')))),
                  ('array<tuple<a:int64>>', self.arr(self.ntup(('a', self.atom('std::int64')))))]
        return u


# ----------------------------------------------------------------------------- streams

def stream_binops(g: G, univ):
    for name in g.infix:
        for (_, a), (_, b) in itertools.product(univ, univ):
            yield ('binop', g.op(name, a, b))


def stream_prefix(g: G, univ):
    for name in g.prefix:
        for _, a in univ:
            yield ('prefix', g.op(name, a))


def stream_setlike(g: G, univ):
    for (_, a), (_, b) in itertools.product(univ, univ):
        yield ('union', g.op('std::UNION', a, b))
        yield ('coalesce', g.op('std::??', a, b))
        yield ('ifelse', g.op('std::IF', a, g.lit('std::bool'), b))
        yield ('setlit', g.set(a, b))
        yield ('arraylit', g.arr(a, b))


def stream_triples(g: G):
    for a, b, c in itertools.product(g.numeric, repeat=3):
        x, y, z = g.atom(a), g.atom(b), g.atom(c)
        yield ('set3', g.set(x, y, z))
        yield ('union3', g.op('std::UNION', g.op('std::UNION', x, y), z))
        yield ('array3', g.arr(x, y, z))
        yield ('coalesce3', g.op('std::??', x, g.op('std::??', y, z)))


def stream_funcs(g: G, univ1, univ2, names=None):
    """every function name, with 1 and 2 positional arguments from the universes"""
    for name in sorted(g.funcs):
        if name in g.special_funcs or (names is not None and name not in names):
            continue
        ovs = g.funcs[name]
        ar = set()
        for f in ovs:
            ps = [p for p in f['params'] if p['kind'] != 'NamedOnlyParam']
            req = len([p for p in ps if p['kind'] == 'PositionalParam' and not p['default']])
            mx = 9 if any(p['kind'] == 'VariadicParam' for p in ps) else len(ps)
            if any(p['kind'] == 'NamedOnlyParam' and not p['default'] for p in f['params']):
                continue
            for n in (0, 1, 2, 3):
                if req <= n <= mx:
                    ar.add(n)
        if 0 in ar:
            yield ('func0', g.call(name, []))
        if 1 in ar:
            for _, a in univ1:
                yield ('func1', g.call(name, [a]))
        if 2 in ar:
            for (_, a), (_, b) in itertools.product(univ2, univ2):
                yield ('func2', g.call(name, [a, b]))


def stream_recursive(g: G):
    """tuple / array comparisons (recursive operators), element-type combinations"""
    cmp_ops = ['std::=', 'std::!=', 'std::<', 'std::>=', 'std::?=', 'std::IN', 'std::++', 'std::+']
    els = g.numeric + ['std::str', 'std::bool']
    for name in cmp_ops:
        for a, b in itertools.product(els, els):
            x, y = g.atom(a), g.atom(b)
            yield ('rec-tuple', g.op(name, g.tup(x), g.tup(y)))
            yield ('rec-array', g.op(name, g.arr(x), g.arr(y)))
            yield ('rec-tuple2', g.op(name, g.tup(x, g.atom('std::str')), g.tup(y, g.atom('std::str'))))
            yield ('rec-nested', g.op(name, g.tup(g.tup(x), g.arr(y)), g.tup(g.tup(y), g.arr(x))))
            yield ('rec-named', g.op(name, g.ntup(('a', x)), g.ntup(('a', y))))
            yield ('rec-mixednames', g.op(name, g.ntup(('a', x)), g.tup(y)))
            yield ('rec-arrtuple', g.op(name, g.arr(g.tup(x)), g.arr(g.tup(y))))
        yield ('rec-len', g.op(name, g.tup(g.atom('std::int64')), g.tup(g.atom('std::int64'), g.atom('std::int64'))))


def stream_indirection(g: G, univ):
    for _, a in univ:
        yield ('tidx', f'(tidx {a} 0)')
        yield ('tidx', f'(tidx {a} {g.ids.name["a"]})')
        yield ('tidx', f'(tidx {a} 1)')
        for i in ('std::int64', 'std::int16', 'std::str', 'std::float64', 'std::bigint'):
            yield ('idx', f'(idx {a} {g.atom(i)})')


def stream_paths(g: G, univ):
    """every pointer name on every object type (valid and invalid), two-step paths, paths on
    non-object and on union-typed expressions"""
    for o in g.objs:
        for p in g.ptr_names:
            yield ('path', g.ptr(g.obj(o), p))
            for q in ('name', 'cost', 'awards', 'id'):
                yield ('path2', g.ptr(g.ptr(g.obj(o), p), q))
    for _, a in univ:
        for p in ('name', 'id', 'cost'):
            yield ('path-any', g.ptr(a, p))
    for p in ('name', 'cost', 'deck'):
        yield ('path-union', g.ptr(g.set(g.obj('default::User'), g.obj('default::Card')), p))
        yield ('path-union', g.ptr(g.op('std::??', g.obj('default::Bot'), g.obj('default::User')), p))
        yield ('path-union', g.ptr(g.op('std::IF', g.obj('default::User'), g.lit('std::bool'), g.obj('default::User')), p))


def named_tuple_variants(g: G):
    """named tuples over the fields lo / hi (and overlapping / unnamed / nested variants) whose element
    types need implicit casts in OPPOSITE directions per field (int64 vs float64 swapped):
    Tuple.find_common_implicitly_castable_type keeps the names only when both operands carry the same
    names IN THE SAME ORDER"""
    i, f, s_ = g.atom('std::int64'), g.atom('std::float64'), g.atom('std::str')
    i16, f32 = g.atom('std::int16'), g.atom('std::float32')
    base = [
        ('lo:i,hi:f', g.ntup(('lo', i), ('hi', f))), ('lo:f,hi:i', g.ntup(('lo', f), ('hi', i))),   # (a) same names, same order
        ('lo:i,hi:i', g.ntup(('lo', i), ('hi', i))),
        ('hi:f,lo:i', g.ntup(('hi', f), ('lo', i))), ('hi:i,lo:f', g.ntup(('hi', i), ('lo', f))),   # (b) permuted
        ('hi:i,lo:i', g.ntup(('hi', i), ('lo', i))),
        ('lo:f,mid:i', g.ntup(('lo', f), ('mid', i))), ('x:i,hi:f', g.ntup(('x', i), ('hi', f))),   # (c) overlapping
        ('lo:i16,hi:f32', g.ntup(('lo', i16), ('hi', f32))),
        ('(f,i)', g.tup(f, i)), ('(i,f)', g.tup(i, f)),                                              # (d) unnamed
        ('lo:i', g.ntup(('lo', i))), ('lo:i,hi:f,mid:s', g.ntup(('lo', i), ('hi', f), ('mid', s_))),  # other arities
    ]
    nested = []
    for tag, e in base[:6]:                                                                          # (e) nested
        nested.append((f'[{tag}]', g.arr(e)))
        nested.append((f'({tag},i)', g.tup(e, i)))
        nested.append((f'(p:{tag})', g.ntup(('p', e))))
    return base, nested


def stream_named_tuples(g: G):
    base, nested = named_tuple_variants(g)
    b = g.lit('std::bool')
    for univ in (base, nested):
        for (_, x), (_, y) in itertools.product(univ, univ):
            yield ('nt-setlit', g.set(x, y))
            yield ('nt-union', g.op('std::UNION', x, y))
            yield ('nt-coalesce', g.op('std::??', x, y))
            yield ('nt-ifelse', g.op('std::IF', x, b, y))
            yield ('nt-arraylit', g.arr(x, y))
            yield ('nt-eq', g.op('std::=', x, y))
            yield ('nt-in', g.op('std::IN', x, g.set(y, y)))
            yield ('nt-func', g.call('std::array_agg', [g.set(x, y)]))
            yield ('nt-func', g.call('std::contains', [g.arr(x), y]))
            yield ('nt-func', g.call('std::array_get', [g.arr(x, y), g.atom('std::int64')]))
            yield ('nt-func', g.call('std::min', [g.set(x, y)]))
    for _, x in base + nested:
        yield ('nt-userfunc', g.call('default::f_lohi', [x]))
        yield ('nt-userfunc', g.call('default::f_ntup', [x]))
        yield ('nt-func', g.call('std::assert_single', [x]))
        yield ('nt-tidx', f'(tidx {x} {g.ids.name["lo"]})')
        yield ('nt-tidx', f'(tidx {x} {g.ids.name["hi"]})')
        yield ('nt-tidx', f'(tidx {x} 1)')
    # three operands: the names survive only if all three agree
    for (_, x), (_, y), (_, z) in itertools.product(base[:6], repeat=3):
        yield ('nt-set3', g.set(x, y, z))


def named_tuple_type_terms(g: G):
    """type terms for the type-algebra probes (find_common, cast distance, issubclass, ...)"""
    ids, S = g.ids, g.S
    n = ids.name
    I, F, I16, STR = S('std::int64'), S('std::float64'), S('std::int16'), S('std::str')
    base = [
        f'(tup 1 ({n["lo"]} {I}) ({n["hi"]} {F}))', f'(tup 1 ({n["lo"]} {F}) ({n["hi"]} {I}))',
        f'(tup 1 ({n["hi"]} {F}) ({n["lo"]} {I}))', f'(tup 1 ({n["hi"]} {I}) ({n["lo"]} {F}))',
        f'(tup 1 ({n["lo"]} {I}) ({n["hi"]} {I}))', f'(tup 1 ({n["hi"]} {I}) ({n["lo"]} {I}))',
        f'(tup 1 ({n["lo"]} {F}) ({n["mid"]} {I}))', f'(tup 1 ({n["x"]} {I}) ({n["hi"]} {F}))',
        f'(tup 1 ({n["lo"]} {I16}) ({n["hi"]} {F}))',
        f'(tup 0 (0 {F}) (1 {I}))', f'(tup 0 (0 {I}) (1 {F}))', f'(tup 1 ({n["lo"]} {I}))',
        f'(tup 1 ({n["lo"]} {I}) ({n["hi"]} {F}) ({n["mid"]} {STR}))',
    ]
    nested = []
    for t in base[:6]:
        nested += [f'(arr {t})', f'(tup 0 (0 {t}) (1 {I}))', f'(tup 1 ({n["p"]} {t}))']
    return base + nested


def stream_casts(g: G, univ):
    targets = [g.S(n) for n in g.core + ['default::myint', 'default::mystr', 'default::Color',
                                          'std::cal::local_date', 'std::anyint', 'std::anyscalar']]
    targets += [f'(arr {g.S(n)})' for n in ('std::int64', 'std::float64', 'std::str', 'std::json')]
    targets += [f'(rng {g.S(n)})' for n in ('std::int64', 'std::float64', 'std::int32')]
    targets += [f'(mrng {g.S(n)})' for n in ('std::int64', 'std::float64')]
    targets += [f'(tup 0 (0 {g.S("std::float64")}))', f'(tup 0 (0 {g.S("std::int64")}) (1 {g.S("std::str")}))',
                f'(tup 1 ({g.ids.name["a"]} {g.S("std::float64")}) ({g.ids.name["b"]} {g.S("std::str")}))',
                'any', 'anytuple', f'(arr any)']
    for t in targets:
        for _, a in univ:
            yield ('cast', f'(cast {t} {a})')


def stream_userfuncs(g: G, univ):
    for n in sorted(g.ids.user['callable']):
        ovs = g.funcs[n]
        maxar = max(len(f['params']) for f in ovs)
        for _, a in univ:
            yield ('userfunc1', g.call(n, [a]))
        if maxar >= 2 or any(p['kind'] == 'VariadicParam' for f in ovs for p in f['params']):
            for (_, a), (_, b) in itertools.product(univ[:14], univ[:14]):
                yield ('userfunc2', g.call(n, [a, b]))


# ----------------------------------------------------------------------------- random typed trees

def random_expr(g: G, r, depth, fam=None):
    """random expression, biased to well-typed combinations: a 'family' of mutually castable types
    is chosen for each subtree"""
    fams = [['std::int16', 'std::int32', 'std::int64', 'default::myint', 'default::myint2', 'default::myint16'],
            ['std::int16', 'std::float32', 'std::float64', 'default::myfloat'],
            ['std::int64', 'std::float64', 'std::int32'],
            ['std::int64', 'std::bigint', 'std::decimal'],
            ['std::str', 'default::mystr'], ['std::bool'], ['std::json'], ['std::datetime'], ['std::duration'],
            ['std::cal::local_date', 'std::cal::local_datetime'], ['std::bytes'], ['default::Color'], ['std::uuid']]
    if fam is None:
        fam = r.choice(fams[:5]) if r.random() < 0.75 else r.choice(fams)
    if r.random() < 0.04:
        fam = r.choice(fams)         # deliberate family switch: a likely type error
    if depth <= 0 or r.random() < 0.25:
        k = r.random()
        n = r.choice(fam)
        if k < 0.08:
            return g.atom(n, empty=True)
        if k < 0.10:
            return 'empty'
        if k < 0.22:        # a path of the family's type
            if n in ('std::str', 'default::mystr'):
                return r.choice([g.ptr(g.obj('default::User'), 'name'), g.ptr(g.obj('default::Card'), 'element'),
                                 g.ptr(g.ptr(g.obj('default::User'), 'deck'), 'name'),
                                 g.ptr(g.obj('default::Person'), 'tag')])
            if n in ('std::int64', 'std::int32', 'std::int16', 'default::myint'):
                return r.choice([g.ptr(g.obj('default::Card'), 'cost'), g.ptr(g.obj('default::Foo'), 'opt'),
                                 g.ptr(g.ptr(g.obj('default::User'), 'deck'), 'cost')])
        return g.atom(n)
    k = r.random()
    sub = lambda: random_expr(g, r, depth - 1, fam)        # noqa: E731
    if k < 0.22:
        name = r.choice(['std::+', 'std::-', 'std::*', 'std::/', 'std:://', 'std::%', 'std::^', 'std::++',
                         'std::+', 'std::-', 'std::*'])
        return g.op(name, sub(), sub())
    if k < 0.30:
        name = r.choice(['std::=', 'std::!=', 'std::<', 'std::<=', 'std::>', 'std::>=', 'std::?=', 'std::?!=',
                         'std::IN', 'std::NOT IN', 'std::AND', 'std::OR', 'std::LIKE'])
        return g.op(name, sub(), sub())
    if k < 0.42:
        return g.set(*[sub() for _ in range(r.choice((1, 2, 2, 3, 3, 4, 5, 11)))])
    if k < 0.50:
        return g.op(r.choice(['std::UNION', 'std::??', 'std::EXCEPT', 'std::INTERSECT']), sub(), sub())
    if k < 0.56:
        cond = g.lit('std::bool') if r.random() < 0.8 else random_expr(g, r, depth - 1, ['std::bool'])
        return g.op('std::IF', sub(), cond, sub())
    if k < 0.63:
        n = r.choice((1, 2, 3))
        if r.random() < 0.5:
            return g.tup(*[random_expr(g, r, depth - 1) if r.random() < 0.5 else sub() for _ in range(n)])
        names = r.sample(['a', 'b', 'c', 'x'], n)
        return g.ntup(*[(nm, random_expr(g, r, depth - 1) if r.random() < 0.5 else sub()) for nm in names])
    if k < 0.70:
        return g.arr(*[sub() for _ in range(r.choice((0, 1, 2, 2, 3)))])
    if k < 0.86:
        f = r.choice(['std::array_agg', 'std::array_unpack', 'std::min', 'std::max', 'std::sum', 'std::count',
                      'std::assert_single', 'std::assert_exists', 'std::assert_distinct', 'std::enumerate',
                      'std::array_get', 'std::array_fill', 'std::array_replace', 'std::contains', 'std::find',
                      'std::len', 'std::round', 'std::math::mean', 'std::math::abs', 'std::math::floor',
                      'std::math::ceil', 'std::to_str', 'std::range', 'std::range_unpack', 'std::multirange',
                      'std::array_join', 'std::all', 'std::any', 'std::math::stddev', 'std::bit_and',
                      'default::f_over', 'default::f_over2', 'default::f_def', 'default::f_var',
                      'default::f_set', 'default::f_arr', 'std::json_get', 'std::to_json'])
        if f in ('std::array_unpack', 'std::array_join', 'default::f_arr'):
            a = g.arr(sub(), sub())
            args = [a] if f != 'std::array_join' else [g.arr(g.atom('std::str')), g.atom('std::str')]
        elif f in ('std::array_get',):
            args = [g.arr(sub(), sub()), g.atom('std::int64')]
        elif f in ('std::array_fill',):
            args = [sub(), g.atom('std::int64')]
        elif f in ('std::array_replace',):
            args = [g.arr(sub()), sub(), sub()]
        elif f in ('std::contains', 'std::find'):
            args = [g.arr(sub(), sub()), sub()] if r.random() < 0.6 else [sub(), sub()]
        elif f in ('std::range', 'default::f_over2', 'default::f_def'):
            args = [sub(), sub()] if r.random() < 0.8 else [sub()]
        elif f == 'std::range_unpack':
            args = [g.call('std::range', [sub(), sub()])]
        elif f == 'std::multirange':
            args = [g.arr(g.call('std::range', [sub(), sub()]))]
        elif f == 'default::f_var':
            args = [sub() for _ in range(r.choice((0, 1, 2, 3)))]
        elif f == 'std::json_get':
            args = [g.atom('std::json')] + [g.atom('std::str') for _ in range(r.choice((1, 2)))]
            if r.random() < 0.5:
                return g.call(f, args, [('default', g.atom('std::json'))])
        else:
            args = [sub()]
        return g.call(f, args)
    if k < 0.92:
        n = r.choice(fam)
        return f'(cast {g.S(n)} {sub()})'
    if k < 0.96:
        inner = g.tup(sub(), random_expr(g, r, depth - 1))
        return f'(tidx {inner} {r.choice((0, 1))})'
    return f'(idx {g.arr(sub(), sub())} {g.atom("std::int64")})'


def stream_malformed(g: G, r, n):
    """ill-typed / edge-case expressions"""
    fixed = [
        g.arr(g.arr(g.atom('std::int64'))),                                  # nested arrays
        g.ntup(('a', g.atom('std::int64')), ('a', g.atom('std::str'))),      # duplicate field
        f'(cast any {g.atom("std::int64")})', f'(cast (arr any) (array))', f'(cast {g.S("std::anyint")} {g.atom("std::int64")})',
        g.call('std::len', []), g.call('std::len', [g.atom('std::str'), g.atom('std::str')]),
        g.call('std::count', [g.atom('std::int64')], [('default', g.atom('std::int64'))]),
        g.call('std::json_get', [g.atom('std::json')], [('default', g.atom('std::int64'))]),
        g.call('std::to_str', [g.atom('std::int64')], [('x', g.atom('std::str'))]),
        g.op('std::IF', g.atom('std::int64'), g.atom('std::int64'), g.atom('std::int64')),
        g.op('std::IF', 'empty', g.lit('std::bool'), g.atom('std::int64')),
        g.op('std::IF', g.atom('std::int64'), g.lit('std::bool'), 'empty'),
        g.op('std::UNION', 'empty', 'empty'), g.set('empty', 'empty'), g.set(), g.set(g.set(), g.set()),
        g.op('std::??', 'empty', g.atom('std::str')), g.op('std::??', g.atom('std::str'), 'empty'),
        g.arr(), g.arr('empty'), g.arr(g.atom('std::int64'), 'empty'), g.op('std::++', g.arr(), g.arr(g.atom('std::int64'))),
        g.op('std::++', g.arr(g.atom('std::int64')), g.arr()), g.op('std::=', g.arr(), g.arr()),
        g.op('std::=', g.tup(g.atom('std::int64')), g.tup(g.atom('std::int64'), g.atom('std::int64'))),
        g.op('std::=', g.tup(g.atom('std::int64')), g.arr(g.atom('std::int64'))),
        g.call('std::array_agg', ['empty']), g.call('std::array_unpack', [g.arr()]),
        g.call('std::min', ['empty']), g.call('std::sum', ['empty']), g.op('std::EXISTS', 'empty'),
        g.op('std::DISTINCT', 'empty'), g.op('std::IN', 'empty', 'empty'),
        g.call('default::f_tup', [g.tup(g.atom('std::int64'), g.atom('std::str'))]),
        g.call('default::f_tup', [g.tup(g.atom('std::int16'))]),
        g.call('default::f_ntup', [g.ntup(('b', g.atom('std::int64')), ('a', g.atom('std::str')))]),
        g.call('default::f_ntup', [g.tup(g.atom('std::int64'), g.atom('std::str'), g.atom('std::int64'))]),
        g.call('std::json_object_pack', [g.set(g.tup(g.atom('std::str'), g.atom('std::json'), g.atom('std::int64')))]),
        g.call('default::f_mrng', [g.rng('std::int64')]), g.call('default::f_mrng', [g.rng('std::datetime')]),
        g.call('default::f_mrng', [g.rng('std::int32')]), g.call('default::f_rng', [g.rng('std::int32')]),
        g.call('default::f_rng', [g.mrng('std::int64')]),
        g.set(g.mrng('std::int64'), g.rng('std::int64')), g.set(g.rng('std::int64'), g.mrng('std::int64')),
        g.set(g.rng('std::int32'), g.mrng('std::int64')),
    ]
    for e in fixed:
        yield ('malformed', e)
    for _ in range(n):
        k = r.random()
        if k < 0.3:      # random operator on random (likely mismatching) atoms
            name = r.choice(g.infix)
            a = random_expr(g, r, 1)
            b = random_expr(g, r, 1)
            yield ('malformed', g.op(name, a, b))
        elif k < 0.5:    # wrong arity / kwargs
            f = r.choice(sorted(g.funcs))
            if f in g.special_funcs:
                continue
            args = [random_expr(g, r, 1) for _ in range(r.choice((0, 1, 2, 3, 4)))]
            kw = [(r.choice(['a', 'b', 'x', 'y', 'name', 'cost']), random_expr(g, r, 0))] if r.random() < 0.3 else []
            yield ('malformed', g.call(f, args, kw))
        elif k < 0.7:    # heterogeneous sets / arrays
            els = [random_expr(g, r, 1) for _ in range(r.choice((2, 3)))]
            yield ('malformed', (g.set if r.random() < 0.5 else g.arr)(*els))
        elif k < 0.85:   # casts between unrelated / generic types
            t = r.choice(['any', 'anytuple', g.S('std::anyreal'), f'(arr {g.S("std::int64")})',
                          f'(tup 0 (0 {g.S("std::int64")}))', g.S(r.choice(g.all_scalars))])
            yield ('malformed', f'(cast {t} {random_expr(g, r, 1)})')
        else:
            yield ('malformed', f'(tidx {random_expr(g, r, 1)} {r.choice((0, 1, 5))})')


def leaf_types(line):
    """the set of distinct leaf descriptions of a case (for the non-triviality rule)"""
    import re
    return set(re.findall(r'\(lit \d+\)|\(cast \([a-z]+ [^()]*\)|empty|\(objset \d+\)', line))


def nontrivial(kind, line):
    """>= 2 distinct leaf types, or a collection constructor / polymorphic call over >= 1 leaf"""
    lt = leaf_types(line)
    return len(lt) >= 2 or any(t in line for t in ('(array', '(tuple', '(call', '(set'))
