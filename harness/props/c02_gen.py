"""Shared generator for C02 / C10: structured user schemas over a feature grammar, rendered as SDL,
and mutation operators that derive a target schema B from a schema A (and chains S1..Sn).

A schema is a list of declarations (dicts).  Every entity carries a stable `uid`; expressions are
templates (lists of strings and references ('P', ptr_uid) / ('T', type_uid) / ('S', scalar_uid) /
('F', func_uid) / ('G', global_uid)) that are resolved to the *current* names when the SDL text is
rendered, so a rename mutation keeps every dependent expression consistent.  Entities whose
references dangle after a drop are removed by `repair` (cascade), unless the mutation stream is the
malformed one.
"""
from __future__ import annotations

import copy
import json

STD_SCALARS = ['str', 'int64', 'int32', 'float64', 'bool']
LIT = {'str': ["'x'", "'hello'", "''"], 'int64': ['0', '1', '42'], 'int32': ['<int32>1', '<int32>7'],
       'float64': ['1.5', '0.0'], 'bool': ['true', 'false']}
NAMES_T = ['User', 'Post', 'Comment', 'Tag', 'Org', 'Item', 'Event', 'Doc', 'Team', 'File', 'Note', 'Card']
NAMES_P = ['name', 'title', 'body', 'slug', 'email', 'code', 'text', 'label', 'descr', 'kind']
NAMES_N = ['count_', 'rank', 'score', 'age', 'size', 'level', 'votes', 'idx']
NAMES_L = ['owner', 'author', 'parent', 'friends', 'items', 'tags', 'members', 'ref', 'target', 'peer']


class Dangling(Exception):
    pass


class Schema:
    def __init__(self):
        self.decls = []          # top-level declarations in document order
        self.next_uid = 1
        self.extra_modules = []  # extra (possibly nested) module names that exist even if empty

    def uid(self):
        u = self.next_uid
        self.next_uid += 1
        return u

    def clone(self):
        return copy.deepcopy(self)

    # -------- lookup
    def by_kind(self, *kinds):
        return [d for d in self.decls if d['k'] in kinds]

    def types(self):
        return self.by_kind('type')

    def get(self, uid):
        for d in self.decls:
            if d['uid'] == uid:
                return d
        return None

    def ancestors(self, t, seen=None):
        seen = seen if seen is not None else []
        for b in t['bases']:
            bt = self.get(b)
            if bt is not None and bt not in seen:
                seen.append(bt)
                self.ancestors(bt, seen)
        return seen

    def descendants(self, t):
        return [d for d in self.types() if t in self.ancestors(d)]

    def all_ptrs(self, t):
        """own + inherited pointers (own first)"""
        out = list(t['ptrs'])
        names = {p['name'] for p in out}
        for a in self.ancestors(t):
            for p in a['ptrs']:
                if p['name'] not in names:
                    names.add(p['name'])
                    out.append(p)
        return out

    def find_ptr(self, puid):
        for t in self.types():
            for p in t['ptrs']:
                if p['uid'] == puid:
                    return t, p
        return None, None

    def used_names(self):
        ns = set()
        for d in self.decls:
            ns.add(d['name'])
        return ns

    def hier_ptr_names(self, t):
        """pointer names used anywhere in the inheritance component of t (to avoid accidental clashes)"""
        comp = {id(t): t}
        changed = True
        while changed:
            changed = False
            for d in self.types():
                if id(d) in comp:
                    continue
                rel = set(id(x) for x in self.ancestors(d)) | {id(d)}
                if any(id(x) in rel for x in comp.values()) or any(
                        id(d) in (set(id(y) for y in self.ancestors(x)) | {id(x)}) for x in comp.values()):
                    comp[id(d)] = d
                    changed = True
        ns = set()
        for d in comp.values():
            for p in d['ptrs']:
                ns.add(p['name'])
        return ns


# ------------------------------------------------------------------ rendering

def qn(d):
    return f"{d.get('mod', 'default')}::{d['name']}"


def r_typ(s: Schema, typ):
    k = typ[0]
    if k == 'std':
        return typ[1]
    if k in ('scalar', 'obj'):
        d = s.get(typ[1])
        if d is None:
            raise Dangling(typ)
        return qn(d)
    if k == 'array':
        return f'array<{r_typ(s, typ[1])}>'
    if k == 'tuple':
        return 'tuple<' + ', '.join(r_typ(s, t) for t in typ[1]) + '>'
    raise ValueError(typ)


def r_tmpl(s: Schema, tmpl):
    out = []
    for part in tmpl:
        if isinstance(part, str):
            out.append(part)
            continue
        k, u = part[0], part[1]
        if k == 'P':
            t, p = s.find_ptr(u)
            if p is None:
                raise Dangling(part)
            out.append(p['name'])
        elif k in ('T', 'S', 'F', 'G', 'A'):
            d = s.get(u)
            if d is None:
                raise Dangling(part)
            out.append(qn(d))
        elif k == 'LP':         # link property: (LP, link uid, lprop uid)
            t, p = s.find_ptr(u)
            lp = None
            if p is not None:
                lp = next((x for x in p['lprops'] if x['uid'] == part[2]), None)
            if lp is None:
                raise Dangling(part)
            out.append(lp['name'])
        else:
            raise ValueError(part)
    return ''.join(out)


def r_cons(s, c, ind):
    head = ('delegated ' if c.get('delegated') else '') + 'constraint '
    if c['kind'] == 'custom':
        d = s.get(c['ref'])
        if d is None:
            raise Dangling(c)
        head += qn(d)
    else:
        head += c['kind'] + (f"({c['arg']})" if c.get('arg') is not None else '')
    if c.get('on') is not None:
        head += f" on ({r_tmpl(s, c['on'])})"
    if c.get('except') is not None:
        head += f" except ({r_tmpl(s, c['except'])})"
    body = []
    if c.get('errmessage'):
        body.append(f"errmessage := '{c['errmessage']}';")
    for a in c.get('annos', []):
        body.append(r_anno(s, a))
    if body:
        return ind + head + ' { ' + ' '.join(body) + ' };'
    return ind + head + ';'


def r_anno(s, a):
    if a['ref'] in ('title', 'description'):
        return f"annotation {a['ref']} := '{a['val']}';"
    d = s.get(a['ref'])
    if d is None:
        raise Dangling(a)
    return f"annotation {qn(d)} := '{a['val']}';"


def r_ptr(s, t, p, ind, overloaded=False, in_link=False):
    if p.get('computed') is not None and not p.get('force_block'):
        kw = 'property' if p['kind'] == 'property' else 'link'
        q = ''
        if p.get('ccard'):
            q = p['ccard'] + ' '
        if p.get('crequired'):
            q = 'required ' + q
        body = []
        for a in p.get('annos', []):
            body.append(ind + '    ' + r_anno(s, a))
        if body:
            return (f"{ind}{q}{kw} {p['name']} {{\n{ind}    using ({r_tmpl(s, p['computed'])});\n"
                    + '\n'.join(body) + f"\n{ind}}};")
        return f"{ind}{q}{kw} {p['name']} := ({r_tmpl(s, p['computed'])});"
    q = []
    if overloaded:
        q.append('overloaded')
    if p['required']:
        q.append('required')
    if p['card'] == 'multi':
        q.append('multi')
    elif p.get('explicit_single'):
        q.append('single')
    q.append('property' if p['kind'] == 'property' else 'link')
    head = ' '.join(q) + ' ' + p['name']
    if p.get('extending') is not None:
        d = s.get(p['extending'])
        if d is None:
            raise Dangling(p)
        head += ' extending ' + qn(d)
    head += ' -> ' + r_typ(s, p['target'])
    body = []
    i2 = ind + '    '
    if p.get('default') is not None:
        body.append(f"{i2}default := ({r_tmpl(s, p['default'])});")
    if p.get('readonly'):
        body.append(f'{i2}readonly := true;')
    if p.get('on_target_delete'):
        body.append(f"{i2}on target delete {p['on_target_delete']};")
    if p.get('on_source_delete'):
        body.append(f"{i2}on source delete {p['on_source_delete']};")
    for c in p.get('cons', []):
        body.append(r_cons(s, c, i2))
    for a in p.get('annos', []):
        body.append(i2 + r_anno(s, a))
    for lp in p.get('lprops', []):
        body.append(r_ptr(s, t, lp, i2, in_link=True))
    for rw in p.get('rewrites', []):
        body.append(f"{i2}rewrite {rw['kinds']} using ({r_tmpl(s, rw['expr'])});")
    if body:
        return ind + head + ' {\n' + '\n'.join(body) + '\n' + ind + '};'
    return ind + head + ';'


def r_decl(s: Schema, d, ind='    '):
    k = d['k']
    i2 = ind + '    '
    if k == 'scalar':
        if d.get('enum') is not None:
            head = f"scalar type {d['name']} extending enum<{', '.join(d['enum'])}>"
        else:
            head = f"scalar type {d['name']} extending {d['base']}"
        body = [r_cons(s, c, i2) for c in d.get('cons', [])] + [i2 + r_anno(s, a) for a in d.get('annos', [])]
    elif k == 'annodef':
        return f"{ind}abstract {'inheritable ' if d['inheritable'] else ''}annotation {d['name']};"
    elif k == 'acons':
        head = f"abstract constraint {d['name']}"
        body = [f"{i2}using ({r_tmpl(s, d['expr'])});"]
        if d.get('errmessage'):
            body.append(f"{i2}errmessage := '{d['errmessage']}';")
    elif k == 'alink':
        head = f"abstract link {d['name']}"
        body = [r_ptr(s, None, lp, i2, in_link=True) for lp in d.get('lprops', [])]
        body += [i2 + r_anno(s, a) for a in d.get('annos', [])]
    elif k == 'aprop':
        head = f"abstract property {d['name']}"
        body = [i2 + r_anno(s, a) for a in d.get('annos', [])]
    elif k == 'func':
        ps = ', '.join(f"{pn}: {r_typ(s, pt)}" for pn, pt in d['params'])
        head = f"function {d['name']}({ps}) -> {d.get('retmod', '')}{r_typ(s, d['ret'])}"
        body = []
        if d.get('volatility'):
            body.append(f"{i2}volatility := '{d['volatility']}';")
        body += [i2 + r_anno(s, a) for a in d.get('annos', [])]
        body.append(f"{i2}using ({r_tmpl(s, d['body'])});")
    elif k == 'global':
        if d.get('computed') is not None:
            return f"{ind}global {d['name']} := ({r_tmpl(s, d['computed'])});"
        head = f"{'required ' if d.get('required') else ''}global {d['name']} -> {r_typ(s, d['type'])}"
        body = []
        if d.get('default') is not None:
            body.append(f"{i2}default := ({r_tmpl(s, d['default'])});")
    elif k == 'alias':
        return f"{ind}alias {d['name']} := ({r_tmpl(s, d['expr'])});"
    elif k == 'type':
        head = ('abstract ' if d['abstract'] else '') + 'type ' + d['name']
        bases = []
        for b in d['bases']:
            bd = s.get(b)
            if bd is None:
                raise Dangling(('base', b))
            bases.append(qn(bd))
        if bases:
            head += ' extending ' + ', '.join(bases)
        inherited = set()
        for a in s.ancestors(d):
            for p in a['ptrs']:
                inherited.add(p['name'])
        body = []
        for p in d['ptrs']:
            body.append(r_ptr(s, d, p, i2, overloaded=p['name'] in inherited))
        for ix in d.get('indexes', []):
            body.append(f"{i2}index on ({r_tmpl(s, ix['expr'])})"
                        + (f" except ({r_tmpl(s, ix['except'])})" if ix.get('except') else '') + ';')
        for c in d.get('cons', []):
            body.append(r_cons(s, c, i2))
        for a in d.get('annos', []):
            body.append(i2 + r_anno(s, a))
        for pol in d.get('policies', []):
            body.append(f"{i2}access policy {pol['name']} {pol['action']} {pol['kinds']}"
                        + (f" using ({r_tmpl(s, pol['expr'])})" if pol.get('expr') is not None else '') + ';')
        for tr in d.get('triggers', []):
            body.append(f"{i2}trigger {tr['name']} after {tr['kinds']} for each"
                        + (f" when ({r_tmpl(s, tr['when'])})" if tr.get('when') is not None else '')
                        + f" do ({r_tmpl(s, tr['expr'])});")
    else:
        raise ValueError(k)
    if body:
        return ind + head + ' {\n' + '\n'.join(body) + '\n' + ind + '};'
    return ind + head + ';'


def render(s: Schema) -> str:
    """SDL text of the whole schema: one `module m { ... }` block per module"""
    mods = {}
    for d in s.decls:
        mods.setdefault(d.get('mod', 'default'), []).append(r_decl(s, d))
    for m in s.extra_modules:
        mods.setdefault(m, [])
    mods.setdefault('default', [])
    out = []
    for m in sorted(mods):
        out.append(f'module {m} {{\n' + '\n'.join(mods[m]) + '\n}')
    return '\n'.join(out)


def repair(s: Schema, max_rounds=20):
    """remove every entity whose references dangle (cascade) until the schema renders"""
    for _ in range(max_rounds):
        changed = False
        for d in list(s.decls):
            try:
                r_decl(s, d)
                continue
            except Dangling:
                pass
            # try to repair inside the declaration first
            if d['k'] == 'type':
                before = json.dumps(d, default=str)
                d['bases'] = [b for b in d['bases'] if s.get(b) is not None]
                for coll, fn in (('ptrs', lambda p: r_ptr(s, d, p, '')),
                                 ('indexes', lambda ix: (r_tmpl(s, ix['expr']), ix.get('except') and r_tmpl(s, ix['except']))),
                                 ('cons', lambda c: r_cons(s, c, '')),
                                 ('annos', lambda a: r_anno(s, a)),
                                 ('policies', lambda p: p.get('expr') is not None and r_tmpl(s, p['expr'])),
                                 ('triggers', lambda t: (r_tmpl(s, t['expr']), t.get('when') and r_tmpl(s, t['when'])))):
                    keep = []
                    for x in d.get(coll, []):
                        try:
                            fn(x)
                            keep.append(x)
                        except Dangling:
                            if coll == 'ptrs':
                                # drop only the dangling part if it is a sub-item
                                y = _repair_ptr(s, d, x)
                                if y is not None:
                                    keep.append(y)
                    d[coll] = keep
                if json.dumps(d, default=str) != before:
                    changed = True
                    continue
            s.decls.remove(d)
            changed = True
        if not changed:
            return s
    return s


def _repair_ptr(s, t, p):
    for coll, fn in (('cons', lambda c: r_cons(s, c, '')), ('annos', lambda a: r_anno(s, a)),
                     ('lprops', lambda lp: r_ptr(s, t, lp, '')),
                     ('rewrites', lambda rw: r_tmpl(s, rw['expr']))):
        keep = []
        for x in p.get(coll, []):
            try:
                fn(x)
                keep.append(x)
            except Dangling:
                pass
        p[coll] = keep
    if p.get('extending') is not None and s.get(p['extending']) is None:
        p['extending'] = None
    if p.get('default') is not None:
        try:
            r_tmpl(s, p['default'])
        except Dangling:
            p['default'] = None
    try:
        r_ptr(s, t, p, '')
        return p
    except Dangling:
        return None


# ------------------------------------------------------------------ random construction

class Gen:
    """feature-grammar generator.  `feat` records which features a schema/mutation used."""

    def __init__(self, rnd, rich=True):
        self.rnd = rnd
        self.rich = rich

    # ---- names
    def fresh(self, s: Schema, pool, used=None):
        used = used if used is not None else s.used_names()
        cands = [n for n in pool if n not in used]
        if cands and self.rnd.random() < 0.8:
            return self.rnd.choice(cands)
        while True:
            n = self.rnd.choice(pool) + str(self.rnd.randrange(2, 99))
            if n not in used:
                return n

    def scalar_typ(self, s: Schema, allow_custom=True):
        sc = s.by_kind('scalar')
        if allow_custom and sc and self.rnd.random() < 0.3:
            return ('scalar', self.rnd.choice(sc)['uid'])
        return ('std', self.rnd.choice(STD_SCALARS))

    def base_of(self, s, typ):
        """std base name of a scalar typ ('enum' for enums)"""
        if typ[0] == 'std':
            return typ[1]
        if typ[0] == 'scalar':
            d = s.get(typ[1])
            if d is None:
                return None
            return 'enum' if d.get('enum') is not None else d['base']
        return None

    def literal(self, s, typ):
        b = self.base_of(s, typ)
        if b == 'enum':
            d = s.get(typ[1])
            return [('S', d['uid']), '.' + self.rnd.choice(d['enum'])]
        if typ[0] == 'scalar':
            return ['<', ('S', typ[1]), '>' + self.rnd.choice(LIT[b])]
        if typ[0] == 'array':
            return ['<' , *self._typ_tmpl(s, typ), '>[]']
        return [self.rnd.choice(LIT[b])]

    def _typ_tmpl(self, s, typ):
        if typ[0] == 'std':
            return [typ[1]]
        if typ[0] in ('scalar',):
            return [('S', typ[1])]
        if typ[0] == 'obj':
            return [('T', typ[1])]
        if typ[0] == 'array':
            return ['array<', *self._typ_tmpl(s, typ[1]), '>']
        raise ValueError(typ)

    # ---- pieces
    def mk_cons(self, s, typ, feat):
        b = self.base_of(s, typ)
        r = self.rnd.random()
        acs = [a for a in s.by_kind('acons') if a['on'] == b]
        if acs and r < 0.2:
            feat.add('constraint:custom')
            return {'kind': 'custom', 'ref': self.rnd.choice(acs)['uid']}
        if r < 0.5:
            feat.add('constraint:exclusive')
            c = {'kind': 'exclusive'}
            if self.rnd.random() < 0.15:
                c['delegated'] = True
                feat.add('constraint:delegated')
            return c
        if b in ('int64', 'int32', 'float64'):
            feat.add('constraint:min_max')
            return {'kind': self.rnd.choice(['min_value', 'max_value']), 'arg': self.rnd.choice(['0', '10', '100'])}
        if b == 'str':
            if r < 0.8:
                feat.add('constraint:len')
                return {'kind': self.rnd.choice(['max_len_value', 'min_len_value']), 'arg': self.rnd.choice(['1', '5', '80'])}
            feat.add('constraint:expression')
            c = {'kind': 'expression', 'on': ["__subject__ != '" + self.rnd.choice(['', 'bad']) + "'"]}
            if self.rnd.random() < 0.4:
                c['errmessage'] = 'no ' + self.rnd.choice(['way', 'go'])
            return c
        feat.add('constraint:exclusive')
        return {'kind': 'exclusive'}

    def mk_anno(self, s, feat):
        ads = s.by_kind('annodef')
        if ads and self.rnd.random() < 0.5:
            feat.add('annotation:custom')
            return {'ref': self.rnd.choice(ads)['uid'], 'val': self.rnd.choice(['a', 'b', 'long value'])}
        feat.add('annotation:std')
        return {'ref': self.rnd.choice(['title', 'description']), 'val': self.rnd.choice(['A', 'B', 'some text'])}

    def mk_prop(self, s, t, feat, used):
        rnd = self.rnd
        typ = self.scalar_typ(s)
        if self.rich and rnd.random() < 0.08 and typ[0] == 'std':
            typ = ('array', typ)
            feat.add('type:array')
        b = self.base_of(s, typ)
        pool = NAMES_N if b in ('int64', 'int32', 'float64') else NAMES_P
        p = {'uid': s.uid(), 'kind': 'property', 'name': self.fresh(s, pool, used), 'card': 'single',
             'required': rnd.random() < 0.3, 'target': typ, 'cons': [], 'annos': [], 'lprops': [], 'rewrites': []}
        used.add(p['name'])
        if rnd.random() < 0.15:
            p['card'] = 'multi'
            feat.add('ptr:multi-property')
        if p['required']:
            feat.add('ptr:required')
        if typ[0] != 'array':
            if rnd.random() < 0.3:
                p['default'] = self.literal(s, typ)
                feat.add('default:literal')
            if rnd.random() < 0.3:
                p['cons'].append(self.mk_cons(s, typ, feat))
        if rnd.random() < 0.12:
            p['annos'].append(self.mk_anno(s, feat))
        if rnd.random() < 0.07:
            p['readonly'] = True
            feat.add('ptr:readonly')
        aps = s.by_kind('aprop')
        if aps and rnd.random() < 0.1:
            p['extending'] = rnd.choice(aps)['uid']
            feat.add('ptr:extending-abstract')
        return p

    def mk_link(self, s, t, feat, used):
        rnd = self.rnd
        tgts = s.types()
        tgt = rnd.choice(tgts) if tgts else t
        p = {'uid': s.uid(), 'kind': 'link', 'name': self.fresh(s, NAMES_L, used), 'card': 'single',
             'required': rnd.random() < 0.2, 'target': ('obj', tgt['uid']), 'cons': [], 'annos': [],
             'lprops': [], 'rewrites': []}
        used.add(p['name'])
        if rnd.random() < 0.4:
            p['card'] = 'multi'
            feat.add('ptr:multi-link')
        if p['required']:
            feat.add('ptr:required')
        if rnd.random() < 0.25:
            lused = {'source', 'target'}
            for _ in range(rnd.randint(1, 2)):
                lp = {'uid': s.uid(), 'kind': 'property', 'name': self.fresh(s, NAMES_P + NAMES_N, lused),
                      'card': 'single', 'required': False, 'target': ('std', rnd.choice(STD_SCALARS)),
                      'cons': [], 'annos': [], 'lprops': [], 'rewrites': []}
                lused.add(lp['name'])
                if rnd.random() < 0.2:
                    lp['default'] = self.literal(s, lp['target'])
                p['lprops'].append(lp)
            feat.add('ptr:link-property')
        if rnd.random() < 0.12:
            p['on_target_delete'] = rnd.choice(['allow', 'delete source', 'deferred restrict'] if not p['required']
                                               else ['delete source', 'restrict'])
            feat.add('ptr:on-target-delete')
        if rnd.random() < 0.1 and p['card'] == 'single':
            p['cons'].append({'kind': 'exclusive'})
            feat.add('constraint:exclusive-link')
        if rnd.random() < 0.1:
            p['annos'].append(self.mk_anno(s, feat))
        als = s.by_kind('alink')
        if als and rnd.random() < 0.12:
            p['extending'] = rnd.choice(als)['uid']
            feat.add('ptr:extending-abstract')
        return p

    # expressions over the pointers of t --------------------------------------------
    def single_props(self, s, t, base=None, own_only=False):
        ps = t['ptrs'] if own_only else s.all_ptrs(t)
        return [p for p in ps if p['kind'] == 'property' and p.get('computed') is None
                and p['card'] == 'single' and p['target'][0] != 'array'
                and (base is None or self.base_of(s, p['target']) in base)]

    def mk_computed(self, s, t, feat, used):
        rnd = self.rnd
        strs = self.single_props(s, t, ('str',))
        nums = self.single_props(s, t, ('int64',))
        links = [p for p in s.all_ptrs(t) if p['kind'] == 'link' and p.get('computed') is None]
        opts = []
        if strs:
            opts += ['concat', 'len']
        if nums:
            opts += ['plus']
        if links:
            opts += ['count', 'path', 'filter']
        back = [(u, p) for u in s.types() for p in u['ptrs']
                if p['kind'] == 'link' and p.get('computed') is None and p['target'] == ('obj', t['uid'])]
        if back:
            opts += ['backlink']
        opts += ['const']
        o = rnd.choice(opts)
        p = {'uid': s.uid(), 'card': 'single', 'required': False, 'cons': [], 'annos': [], 'lprops': [], 'rewrites': []}
        if o == 'concat':
            p.update(kind='property', name=self.fresh(s, NAMES_P, used), target=('std', 'str'),
                     computed=['.', ('P', rnd.choice(strs)['uid']), " ++ '!'"])
        elif o == 'len':
            p.update(kind='property', name=self.fresh(s, NAMES_N, used), target=('std', 'int64'),
                     computed=['len(.', ('P', rnd.choice(strs)['uid']), ')'])
        elif o == 'plus':
            p.update(kind='property', name=self.fresh(s, NAMES_N, used), target=('std', 'int64'),
                     computed=['.', ('P', rnd.choice(nums)['uid']), ' + 1'])
        elif o == 'count':
            p.update(kind='property', name=self.fresh(s, NAMES_N, used), target=('std', 'int64'),
                     computed=['count(.', ('P', rnd.choice(links)['uid']), ')'])
        elif o == 'path':
            l = rnd.choice(links)
            p.update(kind='link', name=self.fresh(s, NAMES_L, used), target=l['target'],
                     computed=['.', ('P', l['uid'])])
        elif o == 'filter':
            l = rnd.choice(links)
            p.update(kind='link', name=self.fresh(s, NAMES_L, used), target=l['target'],
                     computed=['select .', ('P', l['uid']), ' limit 1'])
        elif o == 'backlink':
            u, l = rnd.choice(back)
            p.update(kind='link', name=self.fresh(s, NAMES_L, used), target=('obj', u['uid']),
                     computed=['.<', ('P', l['uid']), '[is ', ('T', u['uid']), ']'])
            feat.add('computed:backlink')
        else:
            p.update(kind='property', name=self.fresh(s, NAMES_P, used), target=('std', 'str'),
                     computed=["'const'"])
        used.add(p['name'])
        feat.add('computed:' + ('link' if p['kind'] == 'link' else 'property'))
        return p

    def mk_index(self, s, t, feat):
        ps = self.single_props(s, t)
        if not ps:
            return None
        if len(ps) >= 2 and self.rnd.random() < 0.3:
            a, b = self.rnd.sample(ps, 2)
            feat.add('index:tuple')
            return {'expr': ['(.', ('P', a['uid']), ', .', ('P', b['uid']), ')']}
        feat.add('index:single')
        return {'expr': ['.', ('P', self.rnd.choice(ps)['uid'])]}

    def mk_objcons(self, s, t, feat):
        ps = self.single_props(s, t)
        nums = self.single_props(s, t, ('int64',))
        if nums and self.rnd.random() < 0.4:
            feat.add('constraint:object-expression')
            return {'kind': 'expression', 'on': ['.', ('P', self.rnd.choice(nums)['uid']), ' >= 0']}
        if len(ps) >= 2:
            a, b = self.rnd.sample(ps, 2)
            feat.add('constraint:object-exclusive-tuple')
            return {'kind': 'exclusive', 'on': ['(.', ('P', a['uid']), ', .', ('P', b['uid']), ')']}
        if ps:
            feat.add('constraint:object-exclusive')
            return {'kind': 'exclusive', 'on': ['.', ('P', ps[0]['uid'])]}
        return None

    def mk_policy(self, s, t, feat, used):
        rnd = self.rnd
        strs = self.single_props(s, t, ('str',))
        gl = [g for g in s.by_kind('global') if g.get('computed') is None and g['type'] == ('std', 'str')]
        pol = {'name': self.fresh(s, ['pol_a', 'pol_b', 'pol_c', 'pol_d'], used),
               'action': rnd.choice(['allow', 'allow', 'deny']),
               'kinds': rnd.choice(['all', 'select', 'insert', 'select, update read', 'delete', 'update write'])}
        used.add(pol['name'])
        r = rnd.random()
        if gl and strs and r < 0.4:
            pol['expr'] = ['.', ('P', rnd.choice(strs)['uid']), ' ?= global ', ('G', rnd.choice(gl)['uid'])]
            feat.add('policy:global')
        elif strs and r < 0.7:
            pol['expr'] = ['.', ('P', rnd.choice(strs)['uid']), " ?!= 'secret'"]
        elif r < 0.9:
            pol['expr'] = ['true']
        else:
            pol['expr'] = None
        feat.add('policy')
        return pol

    def mk_trigger(self, s, t, feat, used):
        rnd = self.rnd
        strs = self.single_props(s, t, ('str',))
        tr = {'name': self.fresh(s, ['trg_a', 'trg_b', 'trg_c'], used),
              'kinds': rnd.choice(['insert', 'update', 'delete', 'insert, update'])}
        used.add(tr['name'])
        var = '__old__' if tr['kinds'] == 'delete' else '__new__'
        if strs and rnd.random() < 0.7:
            tr['expr'] = ['select assert(', var, '.', ('P', rnd.choice(strs)['uid']), " ?!= 'bad')"]
        else:
            tr['expr'] = ['select 1']
        if tr['kinds'] == 'update' and strs and rnd.random() < 0.4:
            tr['when'] = ['__old__.', ('P', strs[0]['uid']), ' ?!= __new__.', ('P', strs[0]['uid'])]
        feat.add('trigger')
        return tr

    def mk_rewrite(self, s, t, p, feat):
        b = self.base_of(s, p['target'])
        if b != 'str' or p['card'] != 'single' or p.get('computed') is not None:
            return None
        feat.add('rewrite')
        kinds = self.rnd.choice(['insert', 'update', 'insert, update'])
        if self.rnd.random() < 0.5:
            return {'kinds': kinds, 'expr': ['str_lower(__subject__.', ('P', p['uid']), ')']}
        return {'kinds': kinds, 'expr': ["'rw'"]}

    # ---- declarations
    def mk_type(self, s, feat, abstract=None):
        rnd = self.rnd
        t = {'k': 'type', 'uid': s.uid(), 'name': self.fresh(s, NAMES_T), 'mod': 'default',
             'abstract': rnd.random() < 0.25 if abstract is None else abstract, 'bases': [], 'ptrs': [],
             'indexes': [], 'cons': [], 'annos': [], 'policies': [], 'triggers': []}
        mods = ['default'] + s.extra_modules
        if len(mods) > 1 and rnd.random() < 0.3:
            t['mod'] = rnd.choice(mods)
            feat.add('module:non-default')
        cands = [x for x in s.types()]
        if cands and rnd.random() < 0.45:
            k = 1 if rnd.random() < 0.7 or len(cands) < 2 else 2
            bs = rnd.sample(cands, k)
            # no diamond-free requirement; but avoid listing an ancestor together with its descendant
            bs = [b for b in bs if not any(b in s.ancestors(o) for o in bs if o is not b)]
            t['bases'] = [b['uid'] for b in bs]
            feat.add('inheritance:multiple' if len(bs) > 1 else 'inheritance:single')
        if t['abstract']:
            feat.add('type:abstract')
        s.decls.append(t)
        used = s.hier_ptr_names(t) | {'id'}
        for _ in range(rnd.choice([0, 1, 1, 2, 2, 3])):
            t['ptrs'].append(self.mk_prop(s, t, feat, used))
        for _ in range(rnd.choice([0, 0, 1, 1, 2])):
            t['ptrs'].append(self.mk_link(s, t, feat, used))
        self.decorate_type(s, t, feat, used)
        return t

    def decorate_type(self, s, t, feat, used, p=1.0):
        rnd = self.rnd
        if rnd.random() < 0.3 * p:
            t['ptrs'].append(self.mk_computed(s, t, feat, used))
        if rnd.random() < 0.25 * p:
            ix = self.mk_index(s, t, feat)
            if ix and all(ix['expr'] != o['expr'] for o in t['indexes']):
                t['indexes'].append(ix)
        if rnd.random() < 0.15 * p:
            c = self.mk_objcons(s, t, feat)
            if c and all(json.dumps(c.get('on')) != json.dumps(o.get('on')) or c['kind'] != o['kind'] for o in t['cons']):
                t['cons'].append(c)
        if rnd.random() < 0.12 * p:
            t['annos'].append(self.mk_anno(s, feat))
            refs = set()
            t['annos'] = [a for a in t['annos'] if not (a['ref'] in refs or refs.add(a['ref']))]
        if self.rich and rnd.random() < 0.12 * p:
            pu = {x['name'] for x in t['policies']}
            t['policies'].append(self.mk_policy(s, t, feat, pu))
        if self.rich and rnd.random() < 0.08 * p:
            tu = {x['name'] for x in t['triggers']}
            t['triggers'].append(self.mk_trigger(s, t, feat, tu))
        if self.rich and rnd.random() < 0.08 * p and t['ptrs']:
            pp = rnd.choice(t['ptrs'])
            rw = self.mk_rewrite(s, t, pp, feat)
            if rw and not pp['rewrites']:
                pp['rewrites'].append(rw)

    def mk_scalar(self, s, feat):
        rnd = self.rnd
        d = {'k': 'scalar', 'uid': s.uid(), 'name': self.fresh(s, ['Color', 'Status', 'Money', 'Code', 'Slug', 'Level']),
             'mod': 'default', 'cons': [], 'annos': []}
        if rnd.random() < 0.5:
            d['enum'] = rnd.sample(['Red', 'Green', 'Blue', 'Open', 'Closed', 'Low', 'High'], rnd.randint(2, 4))
            d['base'] = None
            feat.add('scalar:enum')
        else:
            d['enum'] = None
            d['base'] = rnd.choice(['str', 'int64', 'float64'])
            feat.add('scalar:custom')
            if rnd.random() < 0.5:
                c = self.mk_cons(s, ('std', d['base']), feat)
                if c['kind'] not in ('exclusive', 'custom'):
                    d['cons'].append(c)
        if rnd.random() < 0.1:
            d['annos'].append(self.mk_anno(s, feat))
        s.decls.append(d)
        return d

    def mk_misc(self, s, feat):
        """one non-type declaration"""
        rnd = self.rnd
        k = rnd.choice(['scalar', 'scalar', 'annodef', 'acons', 'alink', 'aprop', 'func', 'global', 'alias'])
        if k == 'scalar':
            return self.mk_scalar(s, feat)
        if k == 'annodef':
            d = {'k': 'annodef', 'uid': s.uid(), 'name': self.fresh(s, ['note', 'tagline', 'meta', 'hint']),
                 'mod': 'default', 'inheritable': rnd.random() < 0.5}
            feat.add('annotation:abstract-def')
        elif k == 'acons':
            on = rnd.choice(['str', 'int64'])
            d = {'k': 'acons', 'uid': s.uid(), 'name': self.fresh(s, ['positive', 'nonempty', 'sane', 'checked']),
                 'mod': 'default', 'on': on,
                 'expr': ['__subject__ > 0'] if on == 'int64' else ['len(__subject__) > 0']}
            if rnd.random() < 0.4:
                d['errmessage'] = 'invalid'
            feat.add('constraint:abstract-def')
        elif k == 'alink':
            d = {'k': 'alink', 'uid': s.uid(), 'name': self.fresh(s, ['related', 'owned', 'ordered']),
                 'mod': 'default', 'lprops': [], 'annos': []}
            if rnd.random() < 0.5:
                d['lprops'].append({'uid': s.uid(), 'kind': 'property', 'name': rnd.choice(['weight', 'since', 'note_']),
                                    'card': 'single', 'required': False, 'target': ('std', rnd.choice(['str', 'int64'])),
                                    'cons': [], 'annos': [], 'lprops': [], 'rewrites': []})
            feat.add('link:abstract-def')
        elif k == 'aprop':
            d = {'k': 'aprop', 'uid': s.uid(), 'name': self.fresh(s, ['described', 'tracked']),
                 'mod': 'default', 'annos': []}
            if rnd.random() < 0.5:
                d['annos'].append(self.mk_anno(s, feat))
            feat.add('property:abstract-def')
        elif k == 'func':
            typ = ('std', rnd.choice(['str', 'int64']))
            d = {'k': 'func', 'uid': s.uid(), 'name': self.fresh(s, ['fmt', 'calc', 'helper', 'norm']),
                 'mod': 'default', 'params': [('a', typ)], 'ret': typ, 'annos': [],
                 'body': ["a ++ 'f'"] if typ[1] == 'str' else ['a + 1']}
            ts = [t for t in s.types() if self.single_props(s, t, ('str',), own_only=True)]
            if ts and rnd.random() < 0.35:
                t = rnd.choice(ts)
                pp = rnd.choice(self.single_props(s, t, ('str',), own_only=True))
                d.update(params=[('o', ('obj', t['uid']))], ret=('std', 'str'), retmod='optional ',
                         body=['o.', ('P', pp['uid'])])
                feat.add('function:object-param')
            if rnd.random() < 0.2:
                d['volatility'] = rnd.choice(['Immutable', 'Stable', 'Volatile'])
            feat.add('function')
        elif k == 'global':
            typ = ('std', rnd.choice(['str', 'int64']))
            d = {'k': 'global', 'uid': s.uid(), 'name': self.fresh(s, ['cur_user', 'tenant', 'flag', 'limit_']),
                 'mod': 'default', 'type': typ, 'required': False}
            r = rnd.random()
            if r < 0.3:
                d['default'] = self.literal(s, typ)
                d['required'] = rnd.random() < 0.5
            elif r < 0.5:
                ts = [t for t in s.types() if not t['abstract']]
                if ts:
                    d['computed'] = ['select ', ('T', rnd.choice(ts)['uid']), ' limit 1']
                    feat.add('global:computed')
            feat.add('global')
        else:
            ts = s.types()
            if not ts:
                return self.mk_scalar(s, feat)
            t = rnd.choice(ts)
            d = {'k': 'alias', 'uid': s.uid(), 'name': self.fresh(s, ['View', 'Top', 'Recent', 'Summary']), 'mod': 'default'}
            ps = self.single_props(s, t)
            r = rnd.random()
            if ps and r < 0.4:
                d['expr'] = ['select ', ('T', t['uid']), ' { ', ('P', ps[0]['uid']), ', extra := 1 }']
                feat.add('alias:shape')
            elif ps and r < 0.6:
                d['expr'] = [('T', t['uid']), '.', ('P', ps[0]['uid'])]
            elif r < 0.8:
                d['expr'] = ['select ', ('T', t['uid']), ' limit 3']
            else:
                d['expr'] = ["{'a', 'b'}"]
            feat.add('alias')
        s.decls.append(d)
        return d

    def schema(self, size=None):
        """a random schema; returns (Schema, feature set)"""
        rnd = self.rnd
        s = Schema()
        feat = set()
        if self.rich and rnd.random() < 0.2:
            s.extra_modules = [rnd.choice(['other', 'default::sub', 'other::deep'])]
            if s.extra_modules[0] == 'other::deep':
                s.extra_modules.insert(0, 'other')
            feat.add('module:nested' if '::' in s.extra_modules[-1] else 'module:extra')
        n = size if size is not None else rnd.choice([0, 1, 2, 2, 3, 3, 4, 5, 6])
        nm = rnd.choice([0, 0, 1, 1, 2, 3]) if self.rich else rnd.choice([0, 0, 1])
        for _ in range(nm // 2):
            self.mk_misc(s, feat)
        for _ in range(n):
            self.mk_type(s, feat)
        for _ in range(nm - nm // 2):
            self.mk_misc(s, feat)
        # second pass: computeds/back-links/indexes can see all types now
        for t in s.types():
            used = s.hier_ptr_names(t) | {'id'}
            self.decorate_type(s, t, feat, used, p=0.5)
        if rnd.random() < 0.3:
            rnd.shuffle(s.decls)      # SDL is order-independent
        repair(s)
        return s, feat


# ------------------------------------------------------------------ mutation operators

class Mut:
    """mutation operators deriving B from A.  Each returns the operator name or None (not
    applicable).  `careful`: keep B valid when cheaply possible (drop dependents etc.)."""

    def __init__(self, gen: Gen):
        self.g = gen
        self.rnd = gen.rnd

    def _ptrs(self, s, pred=lambda t, p: True):
        return [(t, p) for t in s.types() for p in t['ptrs'] if pred(t, p)]

    def _stored(self, s, kind=None):
        return self._ptrs(s, lambda t, p: p.get('computed') is None and (kind is None or p['kind'] == kind))

    # -- renames
    def rename_type(self, s, feat):
        ts = s.types()
        if not ts:
            return None
        t = self.rnd.choice(ts)
        t['name'] = self.g.fresh(s, NAMES_T)
        return 'rename-type'

    def rename_ptr(self, s, feat):
        ps = self._ptrs(s)
        if not ps:
            return None
        t, p = self.rnd.choice(ps)
        # an overloaded pointer must be renamed at the root; keep it simple: only non-overloaded ones
        if any(p['name'] in {q['name'] for q in a['ptrs']} for a in s.ancestors(t)):
            return None
        old = p['name']
        new = self.g.fresh(s, NAMES_L if p['kind'] == 'link' else NAMES_P + NAMES_N, s.hier_ptr_names(t) | {'id'})
        p['name'] = new
        for d in s.descendants(t):      # overloads follow
            for q in d['ptrs']:
                if q['name'] == old:
                    q['name'] = new
        return 'rename-pointer'

    def rename_misc(self, s, feat):
        ds = s.by_kind('scalar', 'annodef', 'acons', 'alink', 'aprop', 'func', 'global', 'alias')
        if not ds:
            return None
        d = self.rnd.choice(ds)
        d['name'] = d['name'].rstrip('0123456789') + str(self.rnd.randrange(100, 999))
        return 'rename-' + d['k']

    def rename_lprop(self, s, feat):
        ps = self._ptrs(s, lambda t, p: p['lprops'])
        if not ps:
            return None
        t, p = self.rnd.choice(ps)
        lp = self.rnd.choice(p['lprops'])
        lp['name'] = self.g.fresh(s, NAMES_P + NAMES_N, {x['name'] for x in p['lprops']} | {'source', 'target'})
        return 'rename-link-property'

    # -- pointer shape
    def toggle_card(self, s, feat):
        ps = self._stored(s)
        if not ps:
            return None
        t, p = self.rnd.choice(ps)
        if p['card'] == 'single':
            p['card'] = 'multi'
            return 'single-to-multi'
        p['card'] = 'single'          # multi -> single needs a USING clause in general: mostly rejected
        return 'multi-to-single'

    def toggle_required(self, s, feat):
        ps = self._stored(s)
        if not ps:
            return None
        t, p = self.rnd.choice(ps)
        p['required'] = not p['required']
        if p['required'] and p.get('on_target_delete') in ('allow', 'deferred restrict'):
            p['on_target_delete'] = None
        return 'optional-to-required' if p['required'] else 'required-to-optional'

    def retarget(self, s, feat):
        ps = self._stored(s)
        if not ps:
            return None
        t, p = self.rnd.choice(ps)
        if p['kind'] == 'link':
            cur = s.get(p['target'][1])
            cands = [x for x in s.types() if x is not cur]
            if not cands:
                return None
            anc = s.ancestors(cur) if cur else []
            if anc and self.rnd.random() < 0.6:
                nt = self.rnd.choice(anc)          # widening: castable without USING
                op = 'retarget-link-to-ancestor'
            else:
                nt = self.rnd.choice(cands)
                op = 'retarget-link'
            p['target'] = ('obj', nt['uid'])
            return op
        b = self.g.base_of(s, p['target'])
        if b == 'int32' and self.rnd.random() < 0.7:
            p['target'] = ('std', 'int64')            # implicit cast exists
            op = 'retarget-property-widen'
        else:
            p['target'] = self.g.scalar_typ(s)
            op = 'retarget-property'
        p['default'] = None
        p['cons'] = []
        p['rewrites'] = []
        return op

    def add_ptr(self, s, feat):
        ts = s.types()
        if not ts:
            return None
        t = self.rnd.choice(ts)
        used = s.hier_ptr_names(t) | {'id'}
        r = self.rnd.random()
        if r < 0.45:
            t['ptrs'].append(self.g.mk_prop(s, t, feat, used))
            return 'add-property'
        if r < 0.8:
            t['ptrs'].append(self.g.mk_link(s, t, feat, used))
            return 'add-link'
        t['ptrs'].append(self.g.mk_computed(s, t, feat, used))
        return 'add-computed'

    def drop_ptr(self, s, feat):
        ps = self._ptrs(s)
        if not ps:
            return None
        t, p = self.rnd.choice(ps)
        t['ptrs'].remove(p)
        return 'drop-pointer'

    def move_ptr_to_parent(self, s, feat):
        ps = self._ptrs(s, lambda t, p: t['bases'])
        if not ps:
            return None
        t, p = self.rnd.choice(ps)
        par = s.get(self.rnd.choice(t['bases']))
        if par is None or p['name'] in s.hier_ptr_names(par) - {p['name']} and any(
                q['name'] == p['name'] for q in par['ptrs']):
            return None
        t['ptrs'].remove(p)
        par['ptrs'].append(p)
        return 'move-pointer-to-parent'

    def move_ptr_to_child(self, s, feat):
        ps = self._ptrs(s, lambda t, p: s.descendants(t))
        if not ps:
            return None
        t, p = self.rnd.choice(ps)
        ch = self.rnd.choice(s.descendants(t))
        if any(q['name'] == p['name'] for q in ch['ptrs']):
            return None
        t['ptrs'].remove(p)
        ch['ptrs'].append(p)
        return 'move-pointer-to-child'

    def add_overload(self, s, feat):
        cands = []
        for t in s.types():
            own = {p['name'] for p in t['ptrs']}
            for p in s.all_ptrs(t):
                if p['name'] not in own and p.get('computed') is None:
                    cands.append((t, p))
        if not cands:
            return None
        t, p = self.rnd.choice(cands)
        q = {'uid': s.uid(), 'kind': p['kind'], 'name': p['name'], 'card': p['card'], 'required': p['required'],
             'target': p['target'], 'cons': [], 'annos': [self.g.mk_anno(s, feat)], 'lprops': [], 'rewrites': []}
        if p['kind'] == 'property' and p['target'][0] != 'array' and self.rnd.random() < 0.5:
            c = self.g.mk_cons(s, p['target'], feat)
            if c['kind'] != 'exclusive':
                q['cons'].append(c)
        t['ptrs'].append(q)
        feat.add('ptr:overloaded')
        return 'add-overloaded-pointer'

    def toggle_lprop(self, s, feat):
        ps = self._stored(s, 'link')
        if not ps:
            return None
        t, p = self.rnd.choice(ps)
        if p['lprops'] and self.rnd.random() < 0.5:
            p['lprops'].remove(self.rnd.choice(p['lprops']))
            return 'drop-link-property'
        lp = {'uid': s.uid(), 'kind': 'property',
              'name': self.g.fresh(s, NAMES_P + NAMES_N, {x['name'] for x in p['lprops']} | {'source', 'target'}),
              'card': 'single', 'required': False, 'target': ('std', self.rnd.choice(STD_SCALARS)),
              'cons': [], 'annos': [], 'lprops': [], 'rewrites': []}
        p['lprops'].append(lp)
        feat.add('ptr:link-property')
        return 'add-link-property'

    def computed_stored(self, s, feat):
        ps = self._ptrs(s)
        if not ps:
            return None
        t, p = self.rnd.choice(ps)
        if p.get('computed') is not None:
            p['computed'] = None
            p['required'] = False
            return 'computed-to-stored'
        if p['target'][0] == 'obj':
            tt = s.get(p['target'][1])
            if tt is None:
                return None
            p['computed'] = ['select ', ('T', tt['uid']), ' limit 1'] if p['card'] == 'single' else [('T', tt['uid'])]
        elif p['target'][0] == 'array':
            return None
        else:
            p['computed'] = self.g.literal(s, p['target'])
        for k in ('default', 'readonly', 'on_target_delete', 'extending'):
            p[k] = None
        p['cons'] = []
        p['lprops'] = []
        p['rewrites'] = []
        p['required'] = False
        return 'stored-to-computed'

    def change_computed(self, s, feat):
        ps = self._ptrs(s, lambda t, p: p.get('computed') is not None)
        if not ps:
            return None
        t, p = self.rnd.choice(ps)
        used = s.hier_ptr_names(t) | {'id'}
        q = self.g.mk_computed(s, t, feat, used)
        if q['kind'] != p['kind']:
            return None
        p['computed'] = q['computed']
        p['target'] = q['target']
        return 'change-computed-expr'

    # -- type shape
    def toggle_abstract(self, s, feat):
        ts = s.types()
        if not ts:
            return None
        t = self.rnd.choice(ts)
        t['abstract'] = not t['abstract']
        return 'concrete-to-abstract' if t['abstract'] else 'abstract-to-concrete'

    def add_base(self, s, feat):
        ts = s.types()
        if len(ts) < 2:
            return None
        t = self.rnd.choice(ts)
        cands = [x for x in ts if x is not t and t not in s.ancestors(x) and x['uid'] not in t['bases']
                 and x not in s.ancestors(t)]
        # pointer-name clashes between unrelated hierarchies make B invalid: avoid them
        mine = {p['name'] for d in [t] + s.descendants(t) + s.ancestors(t) for p in d['ptrs']}
        cands = [x for x in cands if not (mine & {p['name'] for d in [x] + s.ancestors(x) for p in d['ptrs']})]
        if not cands:
            return None
        t['bases'].append(self.rnd.choice(cands)['uid'])
        return 'add-base'

    def drop_base(self, s, feat):
        ts = [t for t in s.types() if t['bases']]
        if not ts:
            return None
        t = self.rnd.choice(ts)
        t['bases'].remove(self.rnd.choice(t['bases']))
        return 'drop-base'

    def drop_adjacent_bases(self, s, feat):
        """`extending X, Y, A, B` -> `extending X, B`: two ADJACENT bases dropped in one step"""
        ts = [t for t in s.types() if len(t['bases']) >= 3]
        if not ts:
            return None
        t = self.rnd.choice(ts)
        i = self.rnd.randrange(0, len(t['bases']) - 1)
        del t['bases'][i:i + 2]
        return 'drop-two-adjacent-bases'

    def reorder_bases(self, s, feat):
        ts = [t for t in s.types() if len(t['bases']) >= 2]
        if not ts:
            return None
        t = self.rnd.choice(ts)
        old = list(t['bases'])
        for _ in range(5):
            self.rnd.shuffle(t['bases'])
            if t['bases'] != old:
                return 'reorder-bases'
        t['bases'] = old[::-1]
        return 'reorder-bases'

    def insert_two_bases(self, s, feat):
        """`extending X, Z` -> `extending W, X, Y, Z`: two NEW bases at non-adjacent positions"""
        ts = [t for t in s.types() if len(t['bases']) >= 1]
        if not ts:
            return None
        t = self.rnd.choice(ts)
        new = []
        for _ in range(2):
            d = {'k': 'type', 'uid': s.uid(), 'name': self.g.fresh(s, NAMES_T), 'mod': 'default',
                 'abstract': self.rnd.random() < 0.5, 'bases': [], 'ptrs': [], 'indexes': [], 'cons': [], 'annos': [],
                 'policies': [], 'triggers': []}
            s.decls.insert(s.decls.index(t), d)
            new.append(d['uid'])
        if self.rnd.random() < 0.5:
            # the new bases already exist in A?  no: they are created in the same migration
            pass
        t['bases'].insert(0, new[0])
        t['bases'].insert(min(2, len(t['bases'])), new[1])
        return 'insert-two-bases'

    def rename_abstract_and_concrete(self, s, feat):
        ps = self._ptrs(s, lambda t, p: p.get('extending') is not None and s.get(p['extending']) is not None)
        if not ps:
            return None
        t, p = self.rnd.choice(ps)
        if any(p['name'] in {q['name'] for q in a['ptrs']} for a in s.ancestors(t)):
            return None
        d = s.get(p['extending'])
        d['name'] = d['name'].rstrip('0123456789') + str(self.rnd.randrange(100, 999))
        old = p['name']
        new = self.g.fresh(s, NAMES_L if p['kind'] == 'link' else NAMES_P, s.hier_ptr_names(t) | {'id'})
        p['name'] = new
        for c in s.descendants(t):
            for q in c['ptrs']:
                if q['name'] == old:
                    q['name'] = new
        return 'rename-abstract-and-concrete-pointer'

    def drop_from_one_base(self, s, feat):
        """two bases define the same (non-overloaded) pointer; drop it from only one of them"""
        cands = []
        for t in s.types():
            bs = [s.get(b) for b in t['bases'] if s.get(b) is not None]
            for i, x in enumerate(bs):
                for y in bs[i + 1:]:
                    for p in x['ptrs']:
                        if any(q['name'] == p['name'] for q in y['ptrs']):
                            cands.append((x, y, p['name']))
        if not cands:
            return None
        x, y, nm = self.rnd.choice(cands)
        side = self.rnd.choice([x, y])
        side['ptrs'] = [p for p in side['ptrs'] if p['name'] != nm]
        return 'drop-pointer-from-one-of-two-bases'

    def drop_overloaded_attr(self, s, feat):
        """an overloaded pointer stops overriding an attribute its parent also sets"""
        cands = []
        for t in s.types():
            for p in t['ptrs']:
                for a in s.ancestors(t):
                    for q in a['ptrs']:
                        if q['name'] == p['name'] and p.get('computed') is None:
                            for fld in ('default', 'readonly'):
                                if p.get(fld) and q.get(fld):
                                    cands.append((p, fld))
        if not cands:
            return None
        p, fld = self.rnd.choice(cands)
        p[fld] = None
        return 'drop-overloaded-' + fld

    def add_type(self, s, feat):
        self.g.mk_type(s, feat)
        return 'add-type'

    def drop_type(self, s, feat):
        ts = s.types()
        if not ts:
            return None
        t = self.rnd.choice(ts)
        s.decls.remove(t)
        for d in s.types():
            d['bases'] = [b for b in d['bases'] if b != t['uid']]
        return 'drop-type'

    def add_misc(self, s, feat):
        d = self.g.mk_misc(s, feat)
        return 'add-' + d['k']

    def drop_misc(self, s, feat):
        ds = s.by_kind('scalar', 'annodef', 'acons', 'alink', 'aprop', 'func', 'global', 'alias')
        if not ds:
            return None
        d = self.rnd.choice(ds)
        s.decls.remove(d)
        return 'drop-' + d['k']

    def change_misc(self, s, feat):
        ds = s.by_kind('scalar', 'func', 'global', 'alias', 'annodef', 'acons')
        if not ds:
            return None
        d = self.rnd.choice(ds)
        k = d['k']
        if k == 'scalar':
            if d.get('enum') is not None:
                extra = [l for l in ['Red', 'Green', 'Blue', 'Open', 'Closed', 'Low', 'High', 'Extra'] if l not in d['enum']]
                if self.rnd.random() < 0.7 and extra:
                    d['enum'] = d['enum'] + [self.rnd.choice(extra)]
                    return 'enum-add-label'
                if len(d['enum']) > 1:
                    d['enum'] = d['enum'][:-1]
                    return 'enum-drop-label'
                return None
            if d['cons']:
                d['cons'] = []
                return 'scalar-drop-constraint'
            c = self.g.mk_cons(s, ('std', d['base']), feat)
            if c['kind'] in ('exclusive', 'custom'):
                return None
            d['cons'].append(c)
            return 'scalar-add-constraint'
        if k == 'func':
            if d['ret'] == ('std', 'str') and d['params'][0][1] == ('std', 'str'):
                d['body'] = ["a ++ '" + self.rnd.choice(['g', 'h', 'zz']) + "'"]
            elif d['ret'] == ('std', 'int64'):
                d['body'] = ['a + ' + str(self.rnd.randrange(2, 9))]
            else:
                d['volatility'] = self.rnd.choice(['Stable', 'Volatile'])
            return 'function-change-body'
        if k == 'global':
            if d.get('computed') is not None:
                return None
            if d.get('default') is None:
                d['default'] = self.g.literal(s, d['type'])
                return 'global-add-default'
            d['default'] = None
            d['required'] = False
            return 'global-drop-default'
        if k == 'alias':
            ts = s.types()
            if not ts:
                return None
            d['expr'] = ['select ', ('T', self.rnd.choice(ts)['uid']), ' limit ' + str(self.rnd.randrange(1, 9))]
            return 'alias-change-expr'
        if k == 'annodef':
            d['inheritable'] = not d['inheritable']
            return 'annotation-toggle-inheritable'
        if k == 'acons':
            d['errmessage'] = None if d.get('errmessage') else 'changed'
            return 'abstract-constraint-errmessage'
        return None

    # -- decorations
    DECOS = ['index', 'cons', 'anno', 'policy', 'trigger', 'pcons', 'panno', 'default',
             'readonly', 'otd', 'rewrite', 'annoval']

    def toggle_decoration(self, s, feat, kind=None):
        ts = s.types()
        if not ts:
            return None
        t = self.rnd.choice(ts)
        kind = kind or self.rnd.choice(self.DECOS)
        rnd = self.rnd
        if kind == 'index':
            if t['indexes'] and rnd.random() < 0.5:
                t['indexes'].remove(rnd.choice(t['indexes']))
                return 'drop-index'
            ix = self.g.mk_index(s, t, feat)
            if ix and all(ix['expr'] != o['expr'] for o in t['indexes']):
                t['indexes'].append(ix)
                return 'add-index'
            return None
        if kind == 'cons':
            if t['cons'] and rnd.random() < 0.5:
                t['cons'].remove(rnd.choice(t['cons']))
                return 'drop-object-constraint'
            c = self.g.mk_objcons(s, t, feat)
            if c and all(json.dumps(c.get('on')) != json.dumps(o.get('on')) for o in t['cons']):
                t['cons'].append(c)
                return 'add-object-constraint'
            return None
        if kind == 'anno':
            if t['annos'] and rnd.random() < 0.5:
                t['annos'].remove(rnd.choice(t['annos']))
                return 'drop-annotation'
            a = self.g.mk_anno(s, feat)
            if all(a['ref'] != o['ref'] for o in t['annos']):
                t['annos'].append(a)
                return 'add-annotation'
            return None
        if kind == 'annoval':
            holders = [t] + t['ptrs']
            holders = [h for h in holders if h.get('annos')]
            if not holders:
                return None
            a = rnd.choice(rnd.choice(holders)['annos'])
            a['val'] = a['val'] + ' v2'
            return 'change-annotation-value'
        if kind == 'policy':
            if t['policies'] and rnd.random() < 0.5:
                t['policies'].remove(rnd.choice(t['policies']))
                return 'drop-policy'
            t['policies'].append(self.g.mk_policy(s, t, feat, {x['name'] for x in t['policies']}))
            return 'add-policy'
        if kind == 'trigger':
            if t['triggers'] and rnd.random() < 0.5:
                t['triggers'].remove(rnd.choice(t['triggers']))
                return 'drop-trigger'
            t['triggers'].append(self.g.mk_trigger(s, t, feat, {x['name'] for x in t['triggers']}))
            return 'add-trigger'
        stored = [p for p in t['ptrs'] if p.get('computed') is None]
        if not stored:
            return None
        p = rnd.choice(stored)
        if kind == 'pcons':
            if p['cons'] and rnd.random() < 0.5:
                p['cons'].remove(rnd.choice(p['cons']))
                return 'drop-pointer-constraint'
            if p['kind'] == 'link' or p['target'][0] == 'array':
                c = {'kind': 'exclusive'}
            else:
                c = self.g.mk_cons(s, p['target'], feat)
            if all((c['kind'], c.get('ref')) != (o['kind'], o.get('ref')) for o in p['cons']):
                p['cons'].append(c)
                return 'add-pointer-constraint'
            return None
        if kind == 'panno':
            if p['annos'] and rnd.random() < 0.5:
                p['annos'].remove(rnd.choice(p['annos']))
                return 'drop-pointer-annotation'
            a = self.g.mk_anno(s, feat)
            if all(a['ref'] != o['ref'] for o in p['annos']):
                p['annos'].append(a)
                return 'add-pointer-annotation'
            return None
        if kind == 'default':
            if p.get('default') is not None:
                p['default'] = None
                return 'drop-default'
            if p['kind'] == 'property' and p['target'][0] != 'array':
                p['default'] = self.g.literal(s, p['target'])
                return 'add-default'
            if p['kind'] == 'link' and p['card'] == 'single':
                tt = s.get(p['target'][1])
                if tt is not None:
                    p['default'] = ['select ', ('T', tt['uid']), ' limit 1']
                    feat.add('default:expression')
                    return 'add-link-default'
            return None
        if kind == 'readonly':
            p['readonly'] = not p.get('readonly')
            return 'toggle-readonly'
        if kind == 'otd':
            if p['kind'] != 'link':
                return None
            p['on_target_delete'] = rnd.choice([None, 'allow', 'delete source', 'restrict'])
            if p['required'] and p['on_target_delete'] == 'allow':
                p['on_target_delete'] = 'restrict'
            return 'change-on-target-delete'
        if kind == 'rewrite':
            if p['rewrites']:
                p['rewrites'] = []
                return 'drop-rewrite'
            rw = self.g.mk_rewrite(s, t, p, feat)
            if rw:
                p['rewrites'].append(rw)
                return 'add-rewrite'
            return None
        return None

    def toggle_module(self, s, feat):
        if s.extra_modules:
            m = s.extra_modules[-1]
            if any(d.get('mod') == m or str(d.get('mod', '')).startswith(m + '::') for d in s.decls):
                # move a declaration back to default
                ds = [d for d in s.decls if d.get('mod') == m]
                if ds:
                    self.rnd.choice(ds)['mod'] = 'default'
                    return 'move-to-default-module'
                return None
            s.extra_modules.pop()
            return 'drop-module'
        m = self.rnd.choice(['other', 'default::sub'])
        s.extra_modules.append(m)
        ts = s.types()
        if ts and self.rnd.random() < 0.6:
            self.rnd.choice(ts)['mod'] = m
            feat.add('module:non-default')
            return 'move-type-to-new-module'
        return 'add-module'

    OPS = [('rename_type', 6), ('rename_ptr', 7), ('rename_misc', 3), ('rename_lprop', 2),
           ('toggle_card', 5), ('toggle_required', 5), ('retarget', 5), ('add_ptr', 8), ('drop_ptr', 6),
           ('move_ptr_to_parent', 4), ('move_ptr_to_child', 2), ('add_overload', 3), ('toggle_lprop', 4),
           ('computed_stored', 4), ('change_computed', 2), ('toggle_abstract', 4), ('add_base', 4),
           ('drop_base', 4), ('reorder_bases', 3), ('drop_adjacent_bases', 2), ('insert_two_bases', 2), ('rename_abstract_and_concrete', 2),
           ('drop_from_one_base', 2), ('drop_overloaded_attr', 2), ('add_type', 5), ('drop_type', 5), ('add_misc', 4), ('drop_misc', 3),
           ('change_misc', 4), ('toggle_decoration', 14), ('toggle_module', 2)]

    def mutate(self, s: Schema, n, feat, careful=True):
        """apply n applicable operators to a clone of s; returns (new schema, [op names])"""
        b = s.clone()
        names, weights = zip(*self.OPS)
        done = []
        tries = 0
        while len(done) < n and tries < 40 * max(1, n):
            tries += 1
            op = self.rnd.choices(names, weights)[0]
            try:
                r = getattr(self, op)(b, feat)
            except (Dangling, IndexError, KeyError, ValueError):
                r = None
            if r:
                done.append(r)
                if careful:
                    repair(b)
        repair(b)
        return b, done


# ------------------------------------------------------------------ malformed / edge stream

def malformed_sdl(rnd, base_text):
    """targets that the system must REJECT at START MIGRATION (not valid user schemas), plus edge
    documents.  Returns (sdl, tag)."""
    k = rnd.randrange(9)
    if k == 0:
        return 'module default { type A { link l -> Missing; } }', 'dangling-target'
    if k == 1:
        return 'module default { type A extending B; type B extending A; }', 'inheritance-cycle'
    if k == 2:
        return 'module default { type A { property p -> str; property p -> int64; } }', 'duplicate-pointer'
    if k == 3:
        return 'module default { type A { property c := (.c ++ "x"); } }', 'computed-self-cycle'
    if k == 4:
        return 'module default { type A { required property p -> str { default := (1); } } }', 'default-type-mismatch'
    if k == 5:
        return 'module default { type A { property p -> str } ', 'syntax-error'
    if k == 6:
        return 'module default { scalar type S extending enum<>; }', 'empty-enum'
    if k == 7:
        # truncate a valid document in the middle
        cut = rnd.randrange(max(1, len(base_text)))
        return base_text[:cut], 'truncated-document'
    return 'module default { type A; type A; }', 'duplicate-type'


# ------------------------------------------------------------------ case streams

def gen_pair_struct(rnd, rich=True):
    """(A, B, meta) as Schema objects -- C02 case"""
    g = Gen(rnd, rich)
    m = Mut(g)
    feat = set()
    r = rnd.random()
    a, fa = g.schema()
    feat |= fa
    if r < 0.08:
        b, ops = Schema(), ['to-empty']
    elif r < 0.16:
        b, ops = a, ['from-empty']
        a = Schema()
    elif r < 0.22:
        b, fb = g.schema()              # unrelated target (drop + create + accidental matches)
        feat |= fb
        ops = ['unrelated']
    else:
        b, ops = m.mutate(a, rnd.choice([1, 1, 1, 2, 2, 3, 4, 6]), feat)
    return a, b, {'ops': ops, 'feat': sorted(feat), 'ntypes': (len(a.types()), len(b.types()))}


def gen_pair(rnd, rich=True):
    a, b, m = gen_pair_struct(rnd, rich)
    return render(a), render(b), m


def enrich(g: Gen, s: Schema, feat):
    """add the shapes that the shape-specific operators need (kept small and always valid)"""
    def T(name, **kw):
        d = {'k': 'type', 'uid': s.uid(), 'name': g.fresh(s, [name]), 'mod': 'default', 'abstract': False, 'bases': [],
             'ptrs': [], 'indexes': [], 'cons': [], 'annos': [], 'policies': [], 'triggers': []}
        d.update(kw)
        s.decls.append(d)
        return d

    def P(name, typ, kind='property', **kw):
        p = {'uid': s.uid(), 'kind': kind, 'name': name, 'card': 'single', 'required': False, 'target': typ,
             'cons': [], 'annos': [], 'lprops': [], 'rewrites': []}
        p.update(kw)
        return p
    al = {'k': 'alink', 'uid': s.uid(), 'name': g.fresh(s, ['rel_x']), 'mod': 'default', 'annos': [],
          'lprops': [P('w_', ('std', 'int64'))]}
    ap = {'k': 'aprop', 'uid': s.uid(), 'name': g.fresh(s, ['tracked_x']), 'mod': 'default', 'annos': []}
    s.decls += [al, ap]
    pa = T('PA')
    pb = T('PB')
    pa['ptrs'].append(P('shared_', ('std', 'str')))
    pb['ptrs'].append(P('shared_', ('std', 'str')))
    pb['ptrs'].append(P('onlyb_', ('std', 'int64')))
    T('PC', bases=[pa['uid'], pb['uid']])
    op = T('OP')
    op['ptrs'].append(P('xdef_', ('std', 'int64'), default=['1']))
    op['ptrs'].append(P('lnk_', ('obj', pa['uid']), kind='link', extending=al['uid']))
    op['ptrs'].append(P('trk_', ('std', 'str'), extending=ap['uid']))
    oc = T('OC', bases=[op['uid']])
    oc['ptrs'].append(P('xdef_', ('std', 'int64'), default=['5']))
    q = [T('QA'), T('QB'), T('QC'), T('QD')]
    T('QE', bases=[x['uid'] for x in q])
    feat |= {'ptr:overloaded', 'ptr:extending-abstract', 'inheritance:multiple', 'link:abstract-def', 'property:abstract-def'}
    return s


def gen_sweep_struct(rnd):
    """one pair per mutation operator (and per decoration kind), each applied alone to a rich base
    schema: guarantees that every operator kind is exercised in every run.  -> [(A, B, meta)]"""
    g = Gen(rnd, True)
    m = Mut(g)
    out = []
    todo = [(op, None) for op, _ in Mut.OPS if op != 'toggle_decoration'] + \
           [('toggle_decoration', k) for k in Mut.DECOS]
    base = None
    for _ in range(30):
        s, f = g.schema(size=5)
        if len(s.types()) >= 4 and any(t['bases'] for t in s.types()) and \
                sum(1 for t in s.types() for p in t['ptrs'] if p['kind'] == 'link') >= 2:
            base = (s, f)
            break
    if base is None:
        base = g.schema(size=5)
    enrich(g, base[0], base[1])
    for op, kind in todo:
        for attempt in range(40):
            if attempt and attempt % 10 == 0:
                base = g.schema(size=5)          # operator not applicable to this base: try another one
                enrich(g, base[0], base[1])
            b = base[0].clone()
            feat = set(base[1])
            try:
                r = m.toggle_decoration(b, feat, kind) if kind else getattr(m, op)(b, feat)
            except (Dangling, IndexError, KeyError, ValueError):
                r = None
            if r:
                repair(b)
                out.append((base[0], b, {'ops': [r], 'feat': sorted(feat), 'sweep': op + (':' + kind if kind else ''),
                                         'ntypes': (len(base[0].types()), len(b.types()))}))
                break
    return out


def gen_sweep(rnd):
    return [(render(a), render(b), m) for a, b, m in gen_sweep_struct(rnd)]


def gen_chain_struct(rnd, rich=True, maxlen=5):
    """([S1..Sn], meta) as Schema objects -- C10 case"""
    g = Gen(rnd, rich)
    m = Mut(g)
    feat = set()
    s, f = g.schema(size=rnd.choice([1, 2, 2, 3, 4]))
    feat |= f
    n = rnd.randint(2, maxlen)
    schemas = [s]
    allops = [['initial']]
    for _ in range(n - 1):
        s, ops = m.mutate(s, rnd.choice([1, 1, 2, 2, 3]), feat)
        schemas.append(s)
        allops.append(ops)
    return schemas, {'ops': allops, 'feat': sorted(feat), 'len': n}


def gen_chain(rnd, rich=True, maxlen=5):
    ss, m = gen_chain_struct(rnd, rich, maxlen)
    return [render(s) for s in ss], m


# ------------------------------------------------------------------ shrinker (structured)

def _shrink_candidates(schemas):
    """edits as (description, function(list of schemas) -> None); applied to deep copies"""
    cands = []
    uids = []
    for s in schemas:
        for d in s.decls:
            if d['uid'] not in uids:
                uids.append(d['uid'])
    for u in uids:
        def rm_decl(ss, u=u):
            for s in ss:
                s.decls = [d for d in s.decls if d['uid'] != u]
                for d in s.types():
                    d['bases'] = [b for b in d['bases'] if b != u]
        cands.append((f'drop decl {u}', rm_decl))
    puids = []
    for s in schemas:
        for t in s.types():
            for p in t['ptrs']:
                if p['uid'] not in puids:
                    puids.append(p['uid'])
    for u in puids:
        def rm_ptr(ss, u=u):
            for s in ss:
                for t in s.types():
                    t['ptrs'] = [p for p in t['ptrs'] if p['uid'] != u]
        cands.append((f'drop ptr {u}', rm_ptr))
    for coll in ('indexes', 'cons', 'annos', 'policies', 'triggers'):
        def rm_coll(ss, coll=coll):
            for s in ss:
                for t in s.types():
                    t[coll] = []
        cands.append((f'clear {coll}', rm_coll))
        for u in uids:
            def rm_coll_t(ss, coll=coll, u=u):
                for s in ss:
                    t = s.get(u)
                    if t is not None and t['k'] == 'type':
                        t[coll] = []
            if any((s.get(u) or {}).get(coll) for s in schemas):
                cands.append((f'clear {coll} of {u}', rm_coll_t))
    for u in puids:
        for fld, val in (('cons', []), ('annos', []), ('lprops', []), ('rewrites', []), ('default', None),
                         ('readonly', None), ('on_target_delete', None), ('extending', None), ('required', False)):
            def rs(ss, u=u, fld=fld, val=val):
                for s in ss:
                    t, p = s.find_ptr(u)
                    if p is not None:
                        p[fld] = copy.deepcopy(val)
            if any((s.find_ptr(u)[1] or {}).get(fld) for s in schemas):
                cands.append((f'reset {fld} of ptr {u}', rs))
    for u in uids:
        def rb(ss, u=u):
            for s in ss:
                t = s.get(u)
                if t is not None and t['k'] == 'type':
                    t['bases'] = []
        if any((s.get(u) or {}).get('bases') for s in schemas):
            cands.append((f'clear bases of {u}', rb))
    def rmods(ss):
        for s in ss:
            s.extra_modules = []
            for d in s.decls:
                d['mod'] = 'default'
    cands.append(('single module', rmods))
    return cands


def shrink_struct(schemas, pred, budget=40, deadline=None):
    """greedy structured shrinking: pred(list of SDL texts) -> True while the failure persists"""
    import time
    cur = [s.clone() for s in schemas]
    n = 0
    progress = True
    while progress and n < budget:
        progress = False
        for desc, fn in _shrink_candidates(cur):
            if n >= budget or (deadline is not None and time.time() > deadline):
                return cur
            trial = [s.clone() for s in cur]
            fn(trial)
            for s in trial:
                repair(s)
            try:
                texts = [render(s) for s in trial]
            except Dangling:
                continue
            if texts == [render(s) for s in cur]:
                continue
            n += 1
            if pred(texts):
                cur = trial
                progress = True
                break
    return cur


# ------------------------------------------------------------------ delta_objects stub cases
# line: D;<pc>;<olds>;<news>;<x:y:s[:sub/sub]...>;<renames y:x>;<guidance c,c|y:x|d,d or ->
# similarity levels 0..6 = 0.0 0.3 0.6 0.61 0.8 0.95 1.0  (0.6 is the alter threshold)

def gen_dobj(rnd, maxn=6):
    n_old = rnd.randint(0, maxn)
    n_new = rnd.randint(0, maxn)
    pool = list(range(1, 2 * maxn + 3))
    olds = rnd.sample(pool, n_old)
    share = [o for o in olds if rnd.random() < rnd.choice([0.0, 0.3, 0.6, 0.9])]
    rest = [p for p in pool if p not in olds]
    news = share + rnd.sample(rest, min(len(rest), max(0, n_new - len(share))))
    rnd.shuffle(news)
    mode = rnd.random()
    ents = []
    for x in news:
        for y in olds:
            if (x in olds or y in news) and x != y:
                continue            # never compared by the real code
            if x == y:
                s = rnd.choice([6, 6, 6, 5, 4, 3, 2, 1, 0])
            elif mode < 0.3:
                s = rnd.choice([0, 1, 2])
            elif mode < 0.6:
                s = rnd.choice([3, 4, 5, 4, 4])          # many ties
            else:
                s = rnd.choice([0, 1, 2, 3, 4, 5, 6])
            e = f'{x}:{y}:{s}'
            if rnd.random() < 0.3:
                e += ':' + '/'.join(rnd.choice(['n', '3', '4', '5', '6', '1']) for _ in range(rnd.randint(1, 3)))
            ents.append(e)
    rens = []
    if rnd.random() < 0.25 and olds:
        for y in rnd.sample(olds, min(len(olds), rnd.randint(1, 2))):
            cand = [x for x in news if x not in olds] or news
            if cand:
                x = rnd.choice(cand)
                if all(x != r[1] for r in rens):
                    rens.append((y, x))
        if rnd.random() < 0.2:
            rens.append((99, rnd.choice(news) if news else 98))      # a rename of another class's object
    gd = '-'
    if rnd.random() < 0.25:
        bc = [x for x in news if rnd.random() < 0.2]
        bd = [y for y in olds if rnd.random() < 0.2]
        ba = [(y, x) for x in news for y in olds if rnd.random() < 0.1]
        gd = ','.join(map(str, bc)) + '|' + ','.join(f'{y}:{x}' for y, x in ba) + '|' + ','.join(map(str, bd))
    pc = rnd.choice(['n', 'n', '1', 'h'])
    return ';'.join(['D', pc, ','.join(map(str, olds)), ','.join(map(str, news)), ','.join(ents),
                     ','.join(f'{y}:{x}' for y, x in rens), gd])


def dobj_exhaustive():
    """all cases with olds ⊆ {1,2}, news ⊆ {2,3} non-empty sides, similarity levels {0,3,6} on every
    compared pair, no guidance/renames, pc in {n,1}"""
    import itertools
    out = []
    for olds in ([1], [2], [1, 2], [2, 1]):
        for news in ([2], [3], [2, 3], [3, 2]):
            pairs = [(x, y) for x in news for y in olds if x == y or (x not in olds and y not in news)]
            for lv in itertools.product((0, 2, 3, 6), repeat=len(pairs)):
                for pc in ('n', '1'):
                    ents = ','.join(f'{x}:{y}:{s}' for (x, y), s in zip(pairs, lv))
                    out.append(';'.join(['D', pc, ','.join(map(str, olds)), ','.join(map(str, news)), ents, '', '-']))
    return out


def dobj_nontrivial(line):
    f = line.split(';')
    olds = f[2].split(',') if f[2] else []
    news = f[3].split(',') if f[3] else []
    return len(olds) >= 2 and len(news) >= 2 and len([e for e in f[4].split(',') if e and e.split(':')[2] in '345']) >= 2


# ------------------------------------------------------------------ running the real code

def run_e2e(cases, workers=8, timeout=7200):
    """run JSON cases through harness/impl/c02_impl.py in `workers` processes (each loads the std
    schema once); results aligned with `cases`"""
    import os
    import subprocess
    from concurrent.futures import ThreadPoolExecutor
    import lib
    impl = os.path.join(lib.VERIF, 'harness', 'impl', 'c02_impl.py')
    env = lib.impl_env()
    argv = [lib.PY, impl, lib.REPO, 'e2e']
    # warm the std-schema cache in ONE process (cold build ~11 s; keyed by the repo's sources)
    p = subprocess.run(argv, input='', env=env, stdout=subprocess.PIPE, stderr=subprocess.PIPE, text=True,
                       timeout=1800)
    if p.returncode != 0:
        raise RuntimeError('c02_impl warm-up failed:\n' + p.stderr[-3000:])
    if not cases:
        return []
    workers = max(1, min(workers, 8, len(cases)))
    idx = [list(range(w, len(cases), workers)) for w in range(workers)]

    def one(ix):
        data = '\n'.join(json.dumps(cases[i]) for i in ix) + '\n'
        q = subprocess.run(argv, input=data, env=env, stdout=subprocess.PIPE, stderr=subprocess.PIPE,
                           text=True, timeout=timeout)
        if q.returncode != 0:
            raise RuntimeError(f'c02_impl rc={q.returncode}\n{q.stderr[-3000:]}')
        out = [l for l in q.stdout.split('\n') if l]
        if len(out) != len(ix):
            raise RuntimeError(f'c02_impl: {len(out)} results for {len(ix)} cases\n{q.stderr[-2000:]}')
        return [json.loads(l) for l in out]

    res = [None] * len(cases)
    with ThreadPoolExecutor(workers) as ex:
        for ix, rs in zip(idx, ex.map(one, idx)):
            for i, r in zip(ix, rs):
                res[i] = r
    return res


def run_dobj(lines):
    import os
    import lib
    impl = os.path.join(lib.VERIF, 'harness', 'impl', 'c02_impl.py')
    return lib.parallel_lines([lib.PY, impl, lib.REPO, 'dobj'], [l[2:] for l in lines], env=lib.impl_env())


# ------------------------------------------------------------------ known findings (proposals)
# An entry suppresses nothing unless the main author has put its id into /verif/known_findings.json.

USER_INPUT_RE = ('cannot be cast automatically', 'cannot automatically convert', 'cannot make ',
                 'cannot change concrete base')

TREE_ONLY_FIELDS = {('Function', 'params'), ('Constraint', 'params'), ('Constraint', 'finalexpr'),
                    ('Link', 'computed_link_alias'), ('Property', 'computed_link_alias')}

PROPOSED = {
    'C02-errmessage-reset': {
        'property': 'C02',
        'site': 'edb/schema/constraints.py (AlterConstraint / errmessage field, DDL generation of RESET errmessage) '
                'via edb/schema/ddl.py::ddlast_from_delta',
        'predicate': 'A declares `errmessage := ...` on a constraint (abstract or concrete) and B declares the same '
                     'constraint without errmessage (possibly renamed)',
        'what': 'the computed migration contains no statement for the dropped errmessage: after POPULATE/COMMIT the '
                'constraint keeps the old errmessage while the target has the inherited default; delta_schemas('
                'result, target) is not empty (the server would answer "cannot commit incomplete migration"); the '
                'command tree applied directly does reset it',
        'replay': "A: module default { abstract constraint c { using (__subject__ > 0); errmessage := 'invalid'; }; } "
                  "B: module default { abstract constraint c { using (__subject__ > 0); }; }"},
    'C02-drop-extending-renamed-base': {
        'property': 'C02',
        'site': 'edb/schema/ordering.py::linearize_delta + edb/schema/inheriting.py (RebaseInheritingObject._get_ast): '
                'DROP EXTENDING is printed with the base type\'s NEW name but ordered before the base type\'s RENAME',
        'predicate': 'an object type T is renamed to T2 in the same migration in which a subtype drops T as a base',
        'what': 'the script is `ALTER TYPE Sub { DROP EXTENDING T2 }; ALTER TYPE T RENAME TO T2;` - the first statement '
                'is accepted as a no-op, the committed schema still has Sub extending T2 while the target does not',
        'replay': 'A: module default { type Post; type Tag extending default::Post { multi link tags -> default::Post; }; '
                  'abstract type Comment; }  B: module default { type User; type Tag; }'},
    'C02-computed-grandchild-optionality': {
        'property': 'C02',
        'site': 'edb/schema/pointers.py (AlterPointer stored -> computed: `required` / inherited_fields propagation to '
                'descendants of descendants) via edb/schema/inheriting.py',
        'predicate': 'a stored pointer of an object type that has descendants at depth >= 2 becomes computed (`p -> T` to `p := expr`)',
        'what': 'after COMMIT the grandchild\'s inherited pointer does not carry `required` in inherited_fields (the target '
                'does); delta_schemas(result, target) = `alter type GrandChild { alter property p { reset optionality; }; }`; '
                'a later step that renames the types is then rejected ("illegal for the computed property ... to overload an '
                'existing property") although the same step is accepted on the directly migrated schema',
        'replay': 'A: module default { type Tag { property email -> bool; }; type Mid extending default::Tag; type Leaf extending default::Mid; } '
                  'B: the same with `property email := (false);`'},
    'C02-explicit-default-on-target-delete': {
        'property': 'C02',
        'site': 'edb/schema/links.py / pointers.py (on_target_delete field: compare sees equal values, the explicit-vs-inherited '
                'status kept in inherited_fields of the descendants is not migrated)',
        'predicate': 'B declares `on target delete restrict` (the default value) explicitly on a link that is inherited by a '
                     'subtype; A does not declare it',
        'what': 'the computed migration is empty for this change; after COMMIT the subtype\'s inherited link lacks '
                '`on_target_delete` in inherited_fields (the target has it); delta_schemas(result, target) is a non-empty '
                'delta that prints no DDL',
        'replay': 'A: module default { abstract type Tag { multi link tags -> default::Tag; }; type Card extending default::Tag; } '
                  'B: the same with `multi link tags -> default::Tag { on target delete restrict; }`'},
    'C02-set-owned-then-parent-rename': {
        'property': 'C02',
        'site': 'edb/schema/delta.py::delta_objects (similarity heuristic pairs the parent\'s pointer with another name) + '
                'edb/schema/ordering.py / referencing.py (the parent\'s RENAME propagates to the child\'s pointer although the '
                'child took ownership of it earlier in the same script)',
        'predicate': 'a pointer p moves from a parent type to a child type (child: `ALTER p { SET OWNED }`) in a migration in '
                     'which the diff engine also RENAMES the parent\'s p to another pointer name (e.g. parent loses p and another '
                     'pointer of it changes) and the parent type itself is renamed',
        'what': 'script: `ALTER TYPE Child { ALTER PROPERTY p { SET OWNED ... } }; ALTER TYPE Parent { DROP PROPERTY q }; ... '
                'ALTER TYPE Parent2 { ALTER PROPERTY p { RENAME TO q } }` - the rename drags the child\'s owned p along: the '
                'committed schema has no Child.p (it is an owned Child.q); delta_schemas(result, target) = create property p, '
                'alter q DROP OWNED',
        'replay': 'A: module default { type Team { property rank -> int64; property idx25 -> int64; }; type Doc extending default::Team; } '
                  'B: module default { type User { property rank -> int64 { default := (1); }; }; type Doc extending default::User '
                  '{ property idx25 -> int64; }; }'},
    'C02-inherited-policy-redeclared-cross-module': {
        'property': 'C02',
        'site': 'edb/schema/policies.py::_alter_begin (the "cannot alter the definition of inherited access policy" check depends on '
                'the order in which apply_sdl lays out the declarations) + edb/edgeql/codegen.py::_process_special_set (no DDL '
                'spelling for ALTER ACCESS POLICY ... access_kinds)',
        'predicate': 'a type re-declares an access policy with the NAME of a policy it inherits from a base type that is declared in '
                     'another module (e.g. child in `default`, base in `other`), with different action / access kinds',
        'what': 'START MIGRATION accepts the target (the same two declarations inside ONE module are rejected: "cannot alter the '
                'definition of inherited access policy"); the computed migration - also from the EMPTY schema - is then rejected at '
                'COMMIT: EdgeQLSourceGeneratorError "unknown special field: \'access_kinds\'"',
        'replay': 'B: module default { type C extending other::O { access policy pol_d allow insert using (true); }; } '
                  'module other { abstract type O { access policy pol_d deny select; }; }'},
    'C02-drop-adjacent-bases': {
        'property': 'C02',
        'site': 'edb/schema/inheriting.py::_compute_new_bases (removes from the base list while iterating over it), via '
                'RebaseInheritingObject for `DROP EXTENDING a, b`',
        'predicate': 'two bases that are ADJACENT in the old base list of a type are dropped in the same migration '
                     '(`extending X, Y, A, B` -> `extending X, B`)',
        'what': 'the script `ALTER TYPE C DROP EXTENDING A, Y;` is accepted but only one of the two bases is removed; '
                'delta_schemas(result, target) = `alter type C drop extending A` (the next migration removes it: the '
                'stepwise schema differs from the directly migrated one for one step)',
        'replay': 'A: module default { type X; type Y; type A; type B; type C extending default::X, default::Y, default::A, default::B; } '
                  'B: the same with `type C extending default::X, default::B`'},
    'C02-reorder-bases': {
        'property': 'C02',
        'site': 'edb/schema/inheriting.py::RebaseInheritingObject / _compute_new_bases (a base that is already present is '
                'never moved by `EXTENDING b BEFORE a`)',
        'predicate': 'B lists the same set of bases of a type as A, in a different order (pure reorder)',
        'what': 'the computed script `ALTER TYPE C EXTENDING Y BEFORE X;` is accepted but bases / ancestors stay X, Y; '
                'delta_schemas(result, target) is again that statement (the migration never converges)',
        'replay': 'A: module default { type X { property a -> str; }; type Y { property b -> str; }; type C extending default::X, default::Y; } '
                  'B: the same with `type C extending default::Y, default::X`'},
    'C02-drop-overloaded-default': {
        'property': 'C02',
        'site': 'edb/schema/pointers.py / inheriting.py (an overloaded pointer that stops overriding `default`: compare / '
                'as_alter_delta produce no command to fall back to the inherited value)',
        'predicate': 'a child declares `overloaded property x { default := v2 }`, the parent declares `default := v1`; B keeps '
                     'the overload but drops its default',
        'what': 'the computed script is empty; after COMMIT the child keeps default v2 (target: inherited v1, `default` in '
                'inherited_fields); delta_schemas(result, target) is a non-empty delta that prints no DDL; the raw command '
                'tree applied directly does reach the target',
        'replay': 'A: module default { type P { property x -> int64 { default := (1); }; }; type Ch extending default::P '
                  '{ overloaded property x -> int64 { default := (5); }; }; }  B: the same with `overloaded property x -> int64;`'},
    'C02-move-to-parent-reowned': {
        'property': 'C02',
        'site': 'edb/schema/ordering.py::linearize_delta (splits the child\'s ALTER) + edb/schema/pointers.py / referencing.py '
                '(ALTER LINK p { RESET TYPE } on an inherited, no longer owned pointer marks it owned again)',
        'predicate': 'a pointer is moved from a child type to its parent (child: DROP OWNED, RESET TYPE) in a migration that also '
                     'changes the bases of a sibling, so that the script places `ALTER LINK p { RESET TYPE; }` of the child in a '
                     'later statement than `ALTER LINK p { DROP OWNED; }`',
        'what': 'after COMMIT the child\'s pointer is still `owned` (the target\'s is purely inherited); delta_schemas(result, '
                'target) = `alter type Child { alter link p { DROP OWNED; }; }` again; the raw tree applied directly reaches the target',
        'replay': 'A: module default { type User; type Comment extending default::User { link peer -> default::User; }; type Doc '
                  'extending default::User; }  B: module default { type User { link peer -> default::User; }; type Comment extending '
                  'default::User; type Org; type Doc extending default::User, default::Org; }'},
    'C02-tree-form-bookkeeping': {
        'property': 'C02',
        'site': 'edb/schema/delta.py DeltaRoot.apply of the tree returned by delta_schemas (functions.py RenameCallableObject, '
                'constraints.py finalexpr, pointers.py computed_link_alias)',
        'predicate': 'form = command tree applied directly (not through its DDL) AND the committed schema and the text replay '
                     'both equal the target (tree-only divergence).  Seen so far: Function/Constraint.params (+ Parameter object '
                     'names) after a rename of a function / abstract constraint, Constraint.finalexpr text after the constraint\'s '
                     'subject moved to another module, Link.computed_link_alias after stored -> computed, Alias.type / '
                     'created_types dangling after an alias changes from a scalar to an object expression',
        'what': 'the directly applied command tree leaves these bookkeeping fields different from the target (Parameter '
                'objects keep the old function name inside their own names; finalexpr keeps `(.p)` vs `.p`; '
                'computed_link_alias is not set)',
        'replay': 'A: module default { function f(a: int64) -> int64 using (a + 1); }  B: the same with f renamed to g'},
    'C02-create-order-policy-computed': {
        'property': 'C02',
        'site': 'edb/schema/ordering.py::linearize_delta / edb/schema/ddl.py::ddlast_from_delta (expression refs computed in '
                'the target schema are resolved before the referenced objects exist)',
        'predicate': 'migration FROM THE EMPTY schema; the target has an object type with an access policy whose ancestor '
                     'declares a computed link/property selecting through a link to that hierarchy, plus a sibling subtype',
        'what': "POPULATE MIGRATION fails with InvalidReferenceError \"property 'id' does not exist\": the valid target schema "
                'cannot be created by the computed migration',
        'replay': 'B: module default { abstract type P { multi link tags -> P; link members := (select .tags limit 1); }; '
                  'type U extending P { access policy pol_a allow all using (true); }; type F extending P; }'},
}


def _diff_items(cmpres):
    """(class, field) items named by a monitor result"""
    items = set()
    if not isinstance(cmpres, dict):
        return items
    for d in cmpres.get('dump_diff', []):
        if d[0] == 'field':
            items.add((d[1].split(' ', 1)[0], d[2]))
        else:
            items.add((d[1].split(' ', 1)[0], d[0]))
    return items


def _base_lists(text):
    import re
    return {m.group(1): [b.strip().split('::')[-1] for b in m.group(2).split(',')]
            for m in re.finditer(r'type (\w+) extending ([\w:, ]+?)\s*[{;]', text)}


def set_owned_then_renamed(script):
    """the script makes a child pointer p owned and later renames a pointer called p (in the parent)"""
    import re
    if not script:
        return False
    for m in re.finditer(r'ALTER (?:PROPERTY|LINK) (\w+) \{[^}]*?SET OWNED', script, re.S | re.I):
        p = m.group(1)
        if re.search(r'ALTER (?:PROPERTY|LINK) ' + re.escape(p) + r' \{\s*RENAME TO', script[m.end():], re.I):
            return True
    return False


def adjacent_bases_dropped(a_text, b_text):
    """some type loses two bases that were adjacent in its old base list"""
    a, b = _base_lists(a_text), _base_lists(b_text)
    for n, old in a.items():
        new = b.get(n, [])
        gone = [x not in new for x in old]
        if any(gone[i] and gone[i + 1] for i in range(len(old) - 1)):
            return True
    return False


def same_bases_reordered(a_text, b_text):
    """some type has the same SET of bases in A and B but in a different order"""
    a, b = _base_lists(a_text), _base_lists(b_text)
    return any(n in b and a[n] != b[n] and sorted(a[n]) == sorted(b[n]) for n in a)


def classify_monitor(form, cmpres, mon, a_text, b_text, script):
    """finding id proposed for a failed monitor, or None"""
    if not isinstance(cmpres, dict) or 'rejected' in cmpres:
        return None
    items = _diff_items(cmpres)
    if items and items <= {('Constraint', 'errmessage'), ('Constraint', 'inherited_fields')} \
            and 'errmessage' in a_text and form in ('commit', 'text'):
        return 'C02-errmessage-reset'
    if form in ('commit', 'text') and items and items <= {('Property', 'inherited_fields'), ('Link', 'inherited_fields')} \
            and ':= (' in b_text and (form == 'text' or 'reset optionality' in (cmpres.get('own_diff') or '')):
        return 'C02-computed-grandchild-optionality'
    if form in ('commit', 'text') and items and items <= {('Property', 'inherited_fields'), ('Link', 'inherited_fields')} \
            and 'on target delete restrict' in b_text and 'on target delete restrict' not in a_text \
            and (form == 'text' or cmpres.get('own_diff') == ''):
        return 'C02-explicit-default-on-target-delete'
    if form in ('commit', 'text') and items and all(f in ('bases', 'ancestors') for _, f in items) \
            and (form == 'text' or ' before ' in (cmpres.get('own_diff') or '').lower()
                 or ' first' in (cmpres.get('own_diff') or '').lower()
                 or ' last' in (cmpres.get('own_diff') or '').lower()) \
            and script and 'EXTENDING' in script.upper() and 'DROP EXTENDING' not in script.upper() \
            and same_bases_reordered(a_text, b_text):
        return 'C02-reorder-bases'
    if form in ('commit', 'text') and items and items <= {('Property', 'default'), ('Link', 'default'),
                                                           ('Property', 'inherited_fields'), ('Link', 'inherited_fields')} \
            and any(f == 'default' for _, f in items) and 'overloaded' in a_text and 'overloaded' in b_text \
            and (form == 'text' or cmpres.get('own_diff') == ''):
        return 'C02-drop-overloaded-default'
    if form in ('commit', 'text') and items and items <= {('Link', 'owned'), ('Property', 'owned')} and script \
            and (form == 'text' or 'drop owned' in (cmpres.get('own_diff') or '').lower()):
        up = script.upper()
        i = up.find('DROP OWNED')
        if i >= 0 and up.find('RESET TYPE', i) > i:
            return 'C02-move-to-parent-reowned'
    if form in ('commit', 'text') and set_owned_then_renamed(script) \
            and any(i[1] in ('missing-in-result', 'owned') for i in items):
        return 'C02-set-owned-then-parent-rename'
    if form in ('commit', 'text') and items and all(f in ('bases', 'ancestors') for _, f in items) \
            and (form == 'text' or 'drop extending' in (cmpres.get('own_diff') or '').lower()) \
            and adjacent_bases_dropped(a_text, b_text):
        return 'C02-drop-adjacent-bases'
    if form in ('commit', 'text') and 'drop extending' in (cmpres.get('own_diff') or '').lower() \
            and script and 'DROP EXTENDING' in script.upper() and 'RENAME TO' in script.upper():
        import re
        m = re.search(r'drop extending ([\w:]+)', cmpres['own_diff'])
        if m:
            nm = m.group(1)
            up = script
            i = up.upper().find('DROP EXTENDING ' + nm.upper())
            j = up.upper().find('RENAME TO ' + nm.upper())
            if 0 <= i < j:
                return 'C02-drop-extending-renamed-base'
    if form == 'tree':
        # tree-only divergence: items that neither the committed schema nor the text replay show;
        # only the raw command tree applied directly (an internal form the system never commits)
        # differs there.  The (class, field) items are recorded in the evidence (tree_form_divergences).
        other = _diff_items(mon.get('commit')) | _diff_items(mon.get('text'))
        if items and not (items & other):
            return 'C02-tree-form-bookkeeping'
    return None


def classify_reject(step, from_empty, b_text):
    """finding id proposed for a rejected migration from the empty schema"""
    e = step.get('err') or {}
    if from_empty and e.get('type') == 'InvalidReferenceError' and "property 'id' does not exist" in e.get('msg', '') \
            and 'access policy' in b_text and ':= (' in b_text:
        return 'C02-create-order-policy-computed'
    if e.get('type') == 'EdgeQLSourceGeneratorError' and "unknown special field: 'access_kinds'" in e.get('msg', '') \
            and 'access policy' in b_text and b_text.count('module ') >= 2:
        return 'C02-inherited-policy-redeclared-cross-module'
    return None


def reject_class(step):
    e = step.get('err') or {}
    msg = e.get('msg', '')
    if step.get('status') == 'diff-error':
        return 'diff-reports-dependency-cycle' if 'dependency cycle' in msg else 'diff-error:' + e.get('type', '?')
    if any(s in msg for s in USER_INPUT_RE):
        return 'needs-user-input(cast/conversion)'
    return f"{e.get('type', '?')}@{e.get('where', '?')}"


# ------------------------------------------------------------------ abstract replay of the real partition

def partition_line(step):
    """K-line for the extracted Coq checker: the top-level objects of A and B and the real delta's
    top-level create / delete / alter(+rename) commands, abstracted to names and classes.  Objects
    present on both sides without a command are paired with themselves."""
    topA, topB = step.get('topA'), step.get('topB')
    if topA is None or topB is None:
        return None
    ids = {}
    cls_ids = {}

    def nid(n):
        return ids.setdefault(n, len(ids) + 1)

    def cid(c):
        return cls_ids.setdefault(c, len(cls_ids) + 1)
    cur = {n: n for n in topA}          # current name -> original old name
    created = {}                        # current name -> True
    deleted = []
    for c in step['cmds']:
        if c[0] != 0 and not (c[1] == 'rename' and c[0] == 1):
            continue
        op, name = c[1], c[3]
        if op == 'create' and c[0] == 0:
            if name in topB:
                created[name] = True
        elif op == 'delete' and c[0] == 0:
            if name in cur:
                deleted.append(cur.pop(name))
            elif name in created:
                created.pop(name)
        elif op == 'rename':
            new = c[4]
            if name in cur:
                cur[new] = cur.pop(name)
            elif name in created:
                created.pop(name)
                created[new] = True
    cmds = []
    for newn, old in cur.items():
        cmds.append(f'a:{nid(old)}:{nid(newn)}')
    for n in created:
        cmds.append(f'c:{nid(n)}')
    for n in deleted:
        cmds.append(f'd:{nid(n)}')
    sa = ';'.join(f'{nid(n)}:{cid(c)}:0:' for n, c in topA.items())
    sb = ';'.join(f'{nid(n)}:{cid(c)}:0:' for n, c in topB.items())
    return f'K|{sa}|{sb}|' + ','.join(cmds)


# ------------------------------------------------------------------ abstract model self-check cases

def gen_abstract(rnd, maxn=7):
    """P-line: random well-formed abstract schemas A, B (acyclic references) and a valid matching"""
    def mk(names):
        objs = []
        for i, n in enumerate(names):
            refs = [m for m in names[:i] if rnd.random() < 0.35]
            objs.append((n, rnd.randint(1, 3), rnd.randint(0, 9), refs))
        return objs
    na = rnd.sample(range(1, 30), rnd.randint(0, maxn))
    A = mk(na)
    keep = [n for n in na if rnd.random() < 0.6]
    fresh = [n for n in range(30, 60)]
    rnd.shuffle(fresh)
    m = []
    bnames = []
    clsA = {n: c for n, c, _, _ in A}
    for n in keep:
        if rnd.random() < 0.6:
            bnames.append(n)
            if rnd.random() < 0.85:
                m.append((n, n))
        else:
            x = fresh.pop()
            bnames.append(x)
            m.append((n, x))
    for _ in range(rnd.randint(0, 3)):
        bnames.append(fresh.pop())
    rnd.shuffle(bnames)
    B = mk(bnames)
    # classes of matched objects must agree
    back = {x: y for y, x in m}
    B = [(n, clsA[back[n]] if n in back else c, d, r) for n, c, d, r in B]
    enc = lambda S: ';'.join(f'{n}:{c}:{d}:' + ','.join(map(str, r)) for n, c, d, r in S)
    return 'P|' + enc(A) + '|' + enc(B) + '|' + ','.join(f'{y}:{x}' for y, x in m)


# ------------------------------------------------------------------ forced chain sweep (C10)
# Hand-shaped histories (names / variants randomised) for the classes that random chains rarely
# reach: object lifecycles over >= 3 steps, re-parenting at two positions, renames of scalars used
# inside collection types, dropping adjacent bases, rename + drop-as-base.

def gen_chain_sweep(rnd):
    """-> [(texts, meta)]; every family appears once per call"""
    def pick(pool):
        return rnd.choice(pool)
    out = []
    wrap = lambda body: 'module default {\n' + body + '\n}'

    # (1) alias / computed-global lifecycles
    for kind in ('alias', 'global'):
        T = pick(['Item', 'Doc', 'Note', 'Card']) + str(rnd.randrange(10, 99))
        V = pick(['View', 'Top', 'Cur', 'Sel']) + str(rnd.randrange(10, 99))
        decl = (lambda e: f'    alias {V} := ({e});') if kind == 'alias' else (lambda e: f'    global {V} := ({e});')
        lim = '' if kind == 'alias' else ' limit 1'
        tdef = f'    type {T} {{ property p -> str; property q -> int64; multi link l -> {T}; }};'
        exprs = {
            'plain': f'select {T}{lim}',
            'shape': f'select {T} {{ p }}{lim}',
            'shape_tuple': f'select {T} {{ p, b := (.p, .q) }}{lim}',
            'shape_link': f'select {T} {{ p, l: {{ q }} }}{lim}',
            'tuple': f'select (select {T}{lim}) {{ t := (.q, .p) }}',
            'named_tuple': f'select {T} {{ nt := (a := .p, b := [.q]) }}{lim}',
            'scalar': f'(select {T}{lim}).p',
            'array': f'array_agg({T}.p)',
            'tuple_expr': f'(count({T}), array_agg({T}.q))',
        }
        e1 = pick(['shape', 'plain', 'shape_link'])
        e2 = pick(['shape_tuple', 'named_tuple', 'tuple', 'tuple_expr'])
        e3 = pick([None, 'array', 'scalar', 'shape', 'tuple_expr'])
        touch = pick([f'    type {T} {{ property p -> str; multi link l -> {T}; }};',
                      f'    type {T} {{ property p -> str; property q -> int64; property r -> bool; multi link l -> {T}; }};',
                      f'    type {T}x {{ property p -> str; property q -> int64; multi link l -> {T}x; }};'])
        s1 = wrap(tdef + '\n' + decl(exprs[e1]))
        s2 = wrap(tdef + '\n' + decl(exprs[e2]))
        s3 = wrap(tdef + ('\n' + decl(exprs[e3]) if e3 else ''))
        s4 = wrap(touch)          # the alias/global (if still there) goes away while its source type is touched
        out.append(([s1, s2, s3, s4], {'family': f'{kind}-lifecycle', 'variant': [e1, e2, e3],
                                       'ops': [['sweep:' + kind + '-lifecycle']] * 4, 'feat': [kind, 'lifecycle'], 'len': 4}))

    # (2) re-parenting at two positions, inherited defaults differ between the bases
    A, B, X, Y, C = [n + str(rnd.randrange(10, 99)) for n in ('A', 'B', 'X', 'Y', 'C')]
    dv = rnd.sample(['1', '2', '3', '4', '5', '6'], 4)
    base = '\n'.join(f'    type {n} {{ property d -> int64 {{ default := ({v}); }}; property o{n} -> str; }};'
                     for n, v in zip((A, B, X, Y), dv))
    s1 = wrap(base + f'\n    type {C} extending {A}, {B};')
    s2 = wrap(base + f'\n    type {C} extending {X}, {A}, {Y}, {B};')
    s3 = wrap(base + f'\n    type {C} extending {X}, {A}, {Y}, {B} {{ property own -> str; }};')
    s4 = wrap(base + f'\n    type {C} extending {A}, {B} {{ property own -> str; }};')
    out.append(([s1, s2, s3, s4], {'family': 'reparent-two-positions', 'ops': [['sweep:reparent-two-positions']] * 4,
                                   'feat': ['inheritance:multiple', 'default:inherited'], 'len': 4}))

    # (3) renamed scalars / enums used inside collection types.  Three chains:
    #   named-first   : step 1 uses the scalar ONLY in a named tuple; step 2 renames the scalar AND adds a property of
    #                   the same-shaped UNNAMED tuple (which did not exist before) - and of other collections;
    #   unnamed-first : the mirror image;
    #   mixed         : named, unnamed, array, nested tuple, array of tuples all present, scalar + enum renamed and
    #                   structurally identical new properties added in the same step.
    def sc(sn, en):
        return f'    scalar type {sn} extending str;\n    scalar type {en} extending enum<R, G, B>;'

    def typ(ps):
        return '    type T {\n' + '\n'.join('        ' + x for x in ps) + '\n    };'
    for variant in ('named-first', 'unnamed-first', 'mixed'):
        S, E = 'Sku' + str(rnd.randrange(10, 99)), 'Col' + str(rnd.randrange(10, 99))
        S2 = S + 'r'
        E2 = E + 'r' if (variant == 'mixed' and rnd.random() < 0.6) else E
        named = lambda sn: f'tuple<a: {sn}, b: int64>'
        unnamed = lambda sn: f'tuple<{sn}, int64>'
        if variant == 'named-first':
            p1 = [f'property a -> {named(S)};']
            p2 = [f'property a -> {named(S2)};', f'property d -> {unnamed(S2)};', f'property c -> array<{S2}>;']
            p3 = [f'property d -> {unnamed(S2)};', f'property f -> {named(S2)};']
        elif variant == 'unnamed-first':
            p1 = [f'property d -> {unnamed(S)};']
            p2 = [f'property d -> {unnamed(S2)};', f'property a -> {named(S2)};', f'property g -> array<{unnamed(S2)}>;']
            p3 = [f'property a -> {named(S2)};', f'property e -> {unnamed(S2)};']
        else:
            p1 = [f'property a -> {named(S)};', f'property c -> array<{S}>;', f'property d -> {unnamed(S)};',
                  f'property n -> tuple<x: tuple<{S}, {E}>, y: array<{E}>>;']
            p2 = [f'property a -> {named(S2)};', f'property c -> array<{S2}>;', f'property d -> {unnamed(S2)};',
                  f'property n -> tuple<x: tuple<{S2}, {E2}>, y: array<{E2}>>;', f'property e -> {unnamed(S2)};',
                  f'property f -> {named(S2)};', f'property g -> array<tuple<{S2}, {E2}>>;']
            p3 = [f'property e -> {unnamed(S2)};', f'property g -> array<tuple<{S2}, {E2}>>;']
        s1 = wrap(sc(S, E) + '\n' + typ(p1))
        s2 = wrap(sc(S2, E2) + '\n' + typ(p2))
        s3 = wrap(sc(S2, E2) + '\n' + typ(p3))
        s4 = wrap(sc(S2, E2) + '\n    type T;')
        out.append(([s1, s2, s3, s4], {'family': 'scalar-in-collections-rename:' + variant,
                                       'ops': [['sweep:scalar-in-collections-rename:' + variant]] * 4,
                                       'feat': ['type:tuple', 'type:array', 'scalar:enum', 'scalar:custom'], 'len': 4}))

    # (4) dropping adjacent bases; rename + drop-as-base
    names = [n + str(rnd.randrange(10, 99)) for n in ('P', 'Q', 'R', 'S')]
    tl = '\n'.join(f'    type {n};' for n in names)
    s1 = wrap(tl + f'\n    type D extending {", ".join(names)};')
    keep = [names[0], names[3]]
    s2 = wrap(tl + f'\n    type D extending {", ".join(keep)};')
    s3 = wrap(tl + f'\n    type D extending {", ".join(keep)} {{ property z -> str; }};')
    out.append(([s1, s2, s3], {'family': 'drop-adjacent-bases', 'ops': [['sweep:drop-adjacent-bases']] * 3,
                               'feat': ['inheritance:multiple'], 'len': 3}))
    a, b = 'Ra' + str(rnd.randrange(10, 99)), 'Rb' + str(rnd.randrange(10, 99))
    s1 = wrap(f'    type {a} {{ property x -> str; }};\n    type {b} extending {a};')
    s2 = wrap(f'    type {a}n {{ property x -> str; }};\n    type {b} {{ link a -> {a}n | {b}; }};')
    s3 = wrap(f'    type {a}n {{ property x -> str; }};\n    type {b} {{ link a -> {a}n | {b}; property y -> str; }};')
    out.append(([s1, s2, s3], {'family': 'rename-and-drop-as-base', 'ops': [['sweep:rename-and-drop-as-base']] * 3,
                               'feat': ['inheritance:single', 'type:union'], 'len': 3}))
    return out
