"""C02 — A computed migration turns the old schema into exactly the new one.

Proof:  coq/theories/Evo (abstract evolution model + transliteration of delta_objects),
        statements in coq/theories/C02/Props.v.
Tie:    (1) correspondence: the REAL edb.schema.delta.delta_objects runs on stub objects with a
            scripted compare() and must print exactly what the extracted model prints;
        (2) the REAL top-level partition of every generated migration is abstracted and checked by
            the extracted Coq checker partition_okb (the hypothesis of C02_apply_partition);
        (3) the END-TO-END statement is decided on the real code by differential monitors through
            the substrate: generated schema pairs (A, B); the computed migration is committed
            (START/POPULATE/COMMIT path), applied as a command tree, and replayed as DDL text; each
            result must equal B (repo's own delta_schemas empty AND independent structural dump equal).
The real per-class diff/ordering/apply code is NOT modelled; mutations there are caught by (3).
"""
from __future__ import annotations

import hashlib
import json
import os
import time

import lib
from props import c02_gen as G

PROP = 'C02'
THEOREMS = [
    'C02_apply_partition', 'C02_diff_any_order', 'C02_diff_apply', 'C02_migrate_ok', 'C02_migrate_no_error', 'C02_nothing_left',
    'C02_sch_eqb_iff', 'C02_partition_injective', 'C02_partition_wellformed', 'C02_partition',
    'C02_partition_disjoint', 'C02_alter_is_pair', 'C02_alter_threshold',
]
EVO_TARGETS = ['theories/Evo/ProofsTop.vo', 'theories/Evo/ProofsDObj.vo', 'theories/Evo/ProofsDiff.vo']


# ---------------------------------------------------------------- cases

def corpus():
    p = os.path.join(lib.VERIF, 'corpus', PROP)
    out = []
    if os.path.isdir(p):
        for f in sorted(os.listdir(p)):
            if f.endswith('.json'):
                out.append(json.load(open(os.path.join(p, f)))['case'])
    return out


def gen_cases(tier):
    n_pairs = 110 if tier == 'quick' else 600
    n_sweeps = 1 if tier == 'quick' else 4
    n_mal = 12 if tier == 'quick' else 60
    cases = []
    for c in corpus():
        c = dict(c)
        c.update(id=len(cases), kind='corpus', detail=True)
        c.setdefault('verify_from', max(0, len(c['chain']) - 1))
        cases.append(c)
    for i in range(n_pairs):
        rnd = lib.rng(f'C02pair{i}')
        a, b, meta = G.gen_pair(rnd)
        cases.append({'id': len(cases), 'kind': 'pair', 'tag': f'C02pair{i}', 'chain': [a, b], 'verify_from': 1,
                      'detail': True, 'meta': meta, 'full': tier == 'thorough' and i % 5 == 0,
                      'session': i % 5 == 0})
    for k in range(n_sweeps):
        for j, (a, b, meta) in enumerate(G.gen_sweep(lib.rng(f'C02sweep{k}'))):
            cases.append({'id': len(cases), 'kind': 'sweep', 'tag': f'C02sweep{k}/{j}', 'chain': [a, b], 'verify_from': 1,
                          'detail': True, 'meta': meta})
    # deep change in a large type (added after seed C02/4): the ONLY difference between A and B sits
    # several child-collection levels below a type with many pointers, so that the type's similarity
    # score is within rounding distance of 1.0 - it must still be diffed as changed
    rnd = lib.rng('C02deep')
    for i in range(6 if tier == 'quick' else 30):
        a, b, what = deep_change_pair(rnd, i)
        cases.append({'id': len(cases), 'kind': 'deep', 'tag': f'C02deep{i}', 'chain': [a, b], 'verify_from': 1,
                      'detail': True, 'meta': {'ops': ['deep:' + what], 'feat': ['deep']}, 'session': i % 3 == 0})
    rnd = lib.rng('C02malformed')
    for i in range(n_mal):
        a, _, _ = G.gen_pair(lib.rng(f'C02mal{i}'))
        bad, tag = G.malformed_sdl(rnd, a)
        cases.append({'id': len(cases), 'kind': 'malformed', 'tag': tag, 'chain': [a, bad], 'verify_from': 1,
                      'detail': False, 'meta': {'ops': ['malformed:' + tag], 'feat': []}})
    return cases


def deep_change_pair(rnd, i):
    n = (12, 18, 26, 40, 14, 22)[i % 6] + rnd.randint(0, 3)
    props = ' '.join(f'property p{k} -> {rnd.choice(("str", "int64", "bool", "float64"))};' for k in range(n))
    kind = ('anno-on-constraint-on-linkprop', 'errmessage-on-linkprop-constraint', 'linkprop-default',
            'anno-on-index', 'anno-on-linkprop', 'constraint-arg-on-linkprop')[i % 6]

    def doc(v):
        lp = {'anno-on-constraint-on-linkprop':
              f"property w -> int64 {{ constraint max_value(100) {{ annotation description := '{v} limit'; }}; }};",
              'errmessage-on-linkprop-constraint':
              f"property w -> int64 {{ constraint max_value(100) {{ errmessage := '{v} message'; }}; }};",
              'linkprop-default': f"property w -> int64 {{ default := {1 if v == 'old' else 2}; }};",
              'anno-on-linkprop': f"property w -> int64 {{ annotation title := '{v} title'; }};",
              'constraint-arg-on-linkprop':
              f"property w -> int64 {{ constraint max_value({100 if v == 'old' else 101}); }};",
              }.get(kind, 'property w -> int64;')
        idx = f"index on (.p0) {{ annotation description := '{v} index'; }};" if kind == 'anno-on-index' else ''
        return ('module default { type Big { ' + props + ' multi link items -> Big { ' + lp + ' }; ' + idx +
                ' }; type Other { link b -> Big; }; }')
    return doc('old'), doc('new'), kind


def is_empty_sdl(text):
    return ''.join(text.split()) in ('moduledefault{}', '')


# ---------------------------------------------------------------- verdict per case

def judge(case, res, known):
    """-> list of (kind, fid_or_None, what, payload) ; kind in violation / known"""
    out = []
    if 'harness_error' in res:
        return [('harness', None, 'harness error: ' + json.dumps(res['harness_error'])[:300], {'case': slim(case)})]
    steps = res['steps']
    chain = case['chain']
    for i, st in enumerate(steps):
        a_text = chain[i - 1] if i > 0 else 'module default {}'
        b_text = chain[i]
        a_empty = i == 0 or is_empty_sdl(a_text)
        b_empty = is_empty_sdl(b_text)
        if st['status'] in ('rejected', 'diff-error') and (a_empty or b_empty) and case['kind'] != 'malformed':
            fid = G.classify_reject(st, a_empty, b_text)
            what = (f"the computed migration {'from the empty schema' if a_empty else 'to the empty schema'} is "
                    f"rejected by the system itself: {st['err']['type']}: {st['err']['msg'][:160]}")
            out.append(('known' if fid in known else 'violation', fid, what,
                        {'case': slim(case), 'step': i, 'observed': st.get('err'), 'stage': st.get('stage'),
                         'required': 'a migration between a valid schema and the empty schema needs no user input and must apply'}))
        if st['status'] != 'accepted' or i < case.get('verify_from', 0):
            continue
        mon = st.get('mon') or {}
        fids = {}
        sr = mon.get('session_refused')
        if isinstance(sr, dict) and str(sr.get('msg', '')).startswith('cannot commit incomplete migration') \
                and mon.get('commit', 'eq') == 'eq':
            # the server path refuses its own computed migration while the library path reaches the target.
            # Only the recorded class is reported (as a known finding); other refusals are evidence only.
            fid = 'C02-server-populate-residual-after-parent-rename'
            if fid in known:
                out.append(('known', fid, 'START / POPULATE / COMMIT MIGRATION through the server compiler is refused '
                            '("cannot commit incomplete migration") although CREATE MIGRATION {computed DDL} reaches the target',
                            {'case': slim(case), 'step': i, 'observed': sr}))
        for form in ('commit', 'text', 'tree', 'session', 'interactive'):
            v = mon.get(form, 'eq')
            if v == 'eq':
                continue
            fid = G.classify_monitor(form if form in ('commit', 'text', 'tree') else 'commit', v, mon, a_text, b_text,
                                     st.get('script'))
            if form == 'interactive' and not (isinstance(v, dict) and isinstance(mon.get('commit'), dict)
                                              and v.get('dump_diff') == mon['commit'].get('dump_diff')):
                fid = None      # an accepted interactive session that differs from the target in its OWN way
            if fid is None and form != 'commit' and isinstance(v, dict) and isinstance(mon.get('commit'), dict) \
                    and v.get('dump_diff') == mon['commit'].get('dump_diff'):
                fid = fids.get('commit')       # the same difference as the committed schema shows
            fids[form] = fid
            desc = {'commit': 'COMMIT MIGRATION (CREATE MIGRATION {computed DDL})',
                    'tree': 'the command tree of delta_schemas applied directly',
                    'text': "the migration's DDL text replayed as text",
                    'session': 'START / POPULATE / COMMIT MIGRATION through the server compiler (server/compiler/ddl.py)',
                    'interactive': 'an interactive session (DESCRIBE CURRENT MIGRATION AS JSON, some proposals '
                                   'rejected with ALTER CURRENT MIGRATION REJECT PROPOSED, POPULATE, COMMIT) whose '
                                   'COMMIT MIGRATION was accepted'}[form]
            if isinstance(v, dict) and 'rejected' in v:
                what = f'accepted migration, but {desc} is rejected: {v["rejected"]["type"]}: {v["rejected"]["msg"][:120]}'
            else:
                what = f'accepted migration does not produce the target schema via {desc}: ' + brief(v)
            out.append(('known' if fid in known else 'violation', fid, what,
                        {'case': slim(case), 'step': i, 'form': form, 'observed': v,
                         'required': 'resulting schema == target (delta_schemas empty and structural dumps equal)',
                         'migration_script': st.get('script')}))
    return out


def brief(v):
    if not isinstance(v, dict):
        return str(v)
    parts = []
    if v.get('own_diff') is not None:
        parts.append('delta_schemas(result, target) = ' + (v['own_diff'][:120] or '<non-empty delta without DDL text>'))
    for d in v.get('dump_diff', [])[:2]:
        parts.append(' '.join(str(x)[:80] for x in d[:3]))
    return '; '.join(parts)


def slim(case):
    return {k: case[k] for k in ('chain', 'verify_from', 'kind', 'tag', 'direct', 'to_empty', 'session') if k in case}


def shrink_pair(case, fails, deadline):
    """structured shrinking of a generated pair (regenerated from its tag); `fails(result)` says
    whether the failure persists.  Candidate edits of a round run in parallel."""
    if case.get('kind') != 'pair':
        return None
    a, b, _ = G.gen_pair_struct(lib.rng(case['tag']))
    cur = [a, b]
    for _ in range(6):
        if time.time() > deadline:
            break
        cands = []
        for desc, fn in G._shrink_candidates(cur)[:48]:
            trial = [s.clone() for s in cur]
            fn(trial)
            try:
                for s in trial:
                    G.repair(s)
                texts = [G.render(s) for s in trial]
            except G.Dangling:
                continue
            if texts != [G.render(s) for s in cur]:
                cands.append((trial, texts))
        if not cands:
            break
        rs = G.run_e2e([{'id': k, 'chain': t, 'verify_from': 1, 'detail': False} for k, (_, t) in enumerate(cands)])
        ok = [k for k, r in enumerate(rs) if fails(r)]
        if not ok:
            break
        k = min(ok, key=lambda k: sum(len(x) for x in cands[k][1]))
        cur = cands[k][0]
    return [G.render(s) for s in cur]


# ---------------------------------------------------------------- Coq literals for the cross-check

def _nl(xs):
    return '[' + '; '.join(f'{x}%N' for x in xs) + ']'


SIMV = {0: 0, 1: 30, 2: 60, 3: 61, 4: 80, 5: 95, 6: 100}


def coq_dobj(line):
    f = line.split(';')[1:]
    pc, olds, news, sims, rens, gd = f
    ints = lambda s: [int(x) for x in s.split(',')] if s else []
    ents = [e.split(':') for e in sims.split(',')] if sims else []
    d_sim = '; '.join(f'(({e[0]}, {e[1]}), {SIMV[int(e[2])]})%N' for e in ents)
    subs = []
    for e in ents:
        if len(e) > 3 and e[3] != '':
            vals = '; '.join('None' if t == 'n' else f'Some {SIMV[int(t)]}%N' for t in e[3].split('/'))
            subs.append(f'(({e[0]}, {e[1]})%N, [{vals}])')
    ren = '; '.join('({}, {})%N'.format(*r.split(':')) for r in rens.split(',')) if rens else ''
    if gd == '-':
        g = 'None'
    else:
        c, a, d = gd.split('|')
        ba = '; '.join('({}, {})%N'.format(*r.split(':')) for r in a.split(',')) if a else ''
        g = f'Some {{| banned_c := {_nl(ints(c))}; banned_a := [{ba}]; banned_d := {_nl(ints(d))} |}}'
    p = {'n': 'PNone', '1': 'POne'}.get(pc, 'POther')
    return (f'dobj {{| d_old := {_nl(ints(olds))}; d_new := {_nl(ints(news))}; d_sim := [{d_sim}]; '
            f'd_sub := [{"; ".join(subs)}]; d_ren := [{ren}]; d_guid := {g}; d_pc := {p} |}}')


def coq_dobj_result(s):
    import re
    out = []
    for m in re.finditer(r'D(Create|Alter|Delete)\s+([0-9 ]+?)(?=;|\]|$)', s.replace('%N', '')):
        k, nums = m.group(1), m.group(2).split()
        if k == 'Create':
            out.append(f'C{nums[0]}@{nums[1]}')
        elif k == 'Delete':
            out.append(f'D{nums[0]}@{nums[1]}')
        else:
            out.append(f'A{nums[0]}>{nums[1]}@{nums[2]}')
    return ' '.join(out) if out else '-'


def coq_schema(s):
    objs = []
    for e in (s.split(';') if s else []):
        n, c, d, r = e.split(':')
        refs = [int(x) for x in r.split(',')] if r else []
        objs.append(f'({n}%N, mkObj {c}%N {d}%N {_nl(refs)})')
    return '[' + '; '.join(objs) + ']'


def coq_plan(line):
    _, a, b, m = line.split('|')
    mm = '; '.join('({}, {})%N'.format(*r.split(':')) for r in m.split(',')) if m else ''
    A, B = coq_schema(a), coq_schema(b)
    return (f'match plan [{mm}] {A} {B} with Plan cs => match apply_all cs {A} with '
            f'inl s => if sch_eqb s {B} then 1 else 2 | inr _ => 3 end | PlanCycle => 4 | PlanInvalid => 5 end')


PLAN_CODE = {'1': 'ok eq=1', '2': 'ok eq=0', '3': 'err', '4': 'cycle', '5': 'invalid'}


# ---------------------------------------------------------------- run

def run(tier):
    rep = lib.Report(PROP, tier, 'proof')
    thorough = tier == 'thorough'
    pf = lib.proof_stage(rep, PROP, THEOREMS, extra_targets=EVO_TARGETS, thorough=thorough)
    hyg = lib.hygiene(['Evo'])
    if hyg:
        pf['ok'] = False
        pf['broken'] += ['hygiene: ' + h for h in hyg]
    exe, blog = lib.build_model('c02', 'ExtractC02.v', 'c02_main.ml', 'C02_ext')
    known = {k['id'] for k in lib.known_findings(PROP)}

    # ---- (1) delta_objects: real code on stub objects vs extracted model
    rnd = lib.rng('C02dobj')
    dlines = G.dobj_exhaustive() + [G.gen_dobj(rnd) for _ in range(4000 if not thorough else 60000)]
    d_impl = G.run_dobj(dlines)
    d_model = lib.run_model(exe, dlines) if exe else None
    d_mism = []
    if d_model is not None:
        d_mism = [i for i, (x, y) in enumerate(zip(d_impl, d_model)) if x != y]
    d_monitor = dobj_monitor(dlines, d_impl)

    # ---- abstract model self-check (planner never fails on valid inputs)
    rnd = lib.rng('C02abs')
    plines = [G.gen_abstract(rnd) for _ in range(3000 if not thorough else 40000)]
    p_model = lib.run_model(exe, plines) if exe else []
    p_bad = [i for i, o in enumerate(p_model) if not (o.startswith('ok eq=1') or o == 'cycle')]

    # ---- (3) end-to-end on the real code
    cases = gen_cases(tier)
    t0 = time.time()
    results = G.run_e2e(cases)
    e2e_s = time.time() - t0

    # ---- (2) real partition through the extracted checker
    klines, kidx = [], []
    for ci, (c, r) in enumerate(zip(cases, results)):
        for si, st in enumerate(r.get('steps', [])):
            if st.get('status') == 'accepted' and si >= c.get('verify_from', 0):
                kl = G.partition_line(st)
                if kl:
                    klines.append(kl)
                    kidx.append((ci, si))
    k_model = lib.run_model(exe, klines) if (exe and klines) else []
    k_bad = [j for j, o in enumerate(k_model) if not o.startswith('wfA=1 wfB=1 part=1')]

    # ---- Coq-internal evaluation of a sample (guards extraction)
    coq_diff, n_coq = [], 0
    if exe:
        r2 = lib.rng('C02coq')
        di = sorted(r2.sample(range(len(dlines)), 150 if not thorough else 600))
        pi = sorted(r2.sample(range(len(plines)), 60 if not thorough else 300))
        outs = lib.coq_eval('C02', 'From Coq Require Import List NArith. Import ListNotations.\n'
                                   'From Verif.Evo Require Import Model.',
                            [coq_dobj(dlines[i]) for i in di] + [coq_plan(plines[i]) for i in pi])
        n_coq = len(outs)
        for i, o in zip(di, outs[:len(di)]):
            if coq_dobj_result(o) != d_model[i]:
                coq_diff.append(dlines[i])
        for i, o in zip(pi, outs[len(di):]):
            code = PLAN_CODE.get(o.strip().split()[0].replace('%nat', ''), '?')
            if not p_model[i].startswith(code):
                coq_diff.append(plines[i])

    # ---- verdict
    findings = []
    for c, r in zip(cases, results):
        findings += [(c, *f) for f in judge(c, r, known)]
    viol = [f for f in findings if f[1] in ('violation', 'harness')]
    kn = [f for f in findings if f[1] == 'known']
    by_fid = {}
    for c, kind, fid, what, payload in kn:
        by_fid.setdefault(fid, []).append(c['id'])
    kf = {k['id']: k for k in lib.known_findings(PROP)}
    for fid, ids in by_fid.items():
        rep.known_finding(fid, kf[fid].get('what', '')[:200] + f' ({len(ids)} generated cases hit it)')
    deadline = time.time() + (120 if not thorough else 600)
    seen_what = set()
    for c, kind, fid, what, payload in sorted(viol, key=lambda f: sum(len(x) for x in f[0]['chain'])):
        key = (fid, what[:60])
        if key in seen_what:
            continue
        seen_what.add(key)
        if fid:
            payload['proposed_known_finding'] = dict(G.PROPOSED.get(fid, {}), id=fid)
        form = payload.get('form')
        if c.get('kind') == 'pair' and time.time() < deadline and len(seen_what) <= 3:
            def fails(r, form=form, fid=fid):
                for st in r.get('steps', [])[1:2]:
                    if form and isinstance((st.get('mon') or {}).get(form), dict):
                        return True
                    if not form and st.get('status') in ('rejected', 'diff-error'):
                        return True
                return False
            try:
                small = shrink_pair(c, fails, deadline)
                if small:
                    payload['shrunk_case'] = {'chain': small, 'verify_from': 1}
            except Exception as e:  # noqa
                payload['shrink_error'] = str(e)[:200]
        payload['how'] = ('echo \'<json of replay.case or replay.shrunk_case>\' | PYTHONPATH=' + lib.REPO +
                          ':/verif/harness /venv/bin/python harness/impl/c02_impl.py ' + lib.REPO + ' e2e')
        rep.violation(what, payload)
    if d_monitor:
        i = d_monitor[0]
        rep.violation('real delta_objects output is not a partition: ' + d_monitor[0][1],
                      {'case': dlines[d_monitor[0][0]], 'impl_result': d_impl[d_monitor[0][0]]})
    if not viol and not d_monitor:
        if exe is None:
            rep.violation('model does not build: ' + blog[-1500:], {'broken': 'extraction of theories/Evo/Model.v'}, False)
        elif d_mism:
            i = min(d_mism, key=lambda i: len(dlines[i]))
            rep.violation('correspondence broken: the real delta_objects and the model disagree '
                          f'({len(d_mism)} of {len(dlines)} stub cases), no end-to-end monitor failed',
                          {'broken': 'correspondence Evo.Model.dobj vs edb.schema.delta.delta_objects',
                           'case': dlines[i], 'impl_result': d_impl[i], 'model_result': d_model[i]}, False)
        if k_bad:
            j = k_bad[0]
            ci, si = kidx[j]
            rep.violation('the real top-level partition of an accepted migration does not satisfy partition_okb '
                          '(hypothesis of C02_apply_partition), although the end-to-end monitors passed',
                          {'broken': 'abstraction of the real delta vs Evo.Model.partition_okb', 'k_line': klines[j],
                           'model_result': k_model[j], 'case': slim(cases[ci])}, False)
        if p_bad:
            rep.violation('abstract planner failed on a valid abstract input',
                          {'broken': 'Evo.Model.plan', 'case': plines[p_bad[0]], 'model_result': p_model[p_bad[0]]}, False)
        if coq_diff:
            rep.violation('extracted model disagrees with vm_compute inside Coq',
                          {'broken': 'extraction', 'case': coq_diff[0]}, False)
        if not pf['ok']:
            rep.violation('proof obligations no longer check: ' + '; '.join(pf['broken'][:6]),
                          {'broken': pf['broken'], 'log_tail': pf['log'][-3000:]}, False)

    # ---- evidence
    fill_evidence(rep, tier, cases, results, dlines, d_impl, d_mism, plines, p_model, klines, k_bad, n_coq,
                  findings, e2e_s)
    return rep.finish()


def dobj_monitor(dlines, d_impl):
    """the partition property evaluated directly on the REAL delta_objects output (cases without
    guidance / pre-decided renames): every new name created xor altered-to at most once, every old
    name deleted xor altered-from at most once, unpaired names all covered except identical pairs"""
    bad = []
    for i, (l, o) in enumerate(zip(dlines, d_impl)):
        f = l.split(';')
        if o.startswith('E '):
            bad.append((i, 'exception ' + o))
            continue
        olds = f[2].split(',') if f[2] else []
        news = f[3].split(',') if f[3] else []
        ops = o.split() if o != '-' else []
        cx = [p[1:].split('@')[0] for p in ops if p[0] == 'C']
        dy = [p[1:].split('@')[0] for p in ops if p[0] == 'D']
        al = [p[1:].split('@')[0].split('>') for p in ops if p[0] == 'A']
        ax, ay = [a[1] for a in al], [a[0] for a in al]
        if len(set(cx + ax)) != len(cx + ax) or len(set(dy + ay)) != len(dy + ay):
            bad.append((i, 'an object gets two commands'))
        if not set(cx + ax) <= set(news) or not set(dy + ay) <= set(olds):
            bad.append((i, 'command on an unknown object'))
        for y, x in al:
            if x != y and (x in olds or y in news):
                bad.append((i, 'a name present on both sides is paired with another name'))
        if f[5] == '' and f[6] == '-':
            # identical pairs (similarity 1.0) are the only objects without a command
            sim100 = {(e.split(':')[0], e.split(':')[1]) for e in (f[4].split(',') if f[4] else []) if e.split(':')[2] == '6'}
            free_x = set(news) - set(cx + ax)
            free_y = set(olds) - set(dy + ay)
            if len(free_x) != len(free_y):
                bad.append((i, 'unpaired objects without a command'))
            elif free_x and not all(any((x, y) in sim100 for y in free_y) for x in free_x):
                bad.append((i, 'an object without a command is not identical to any old object'))
    return bad


def fill_evidence(rep, tier, cases, results, dlines, d_impl, d_mism, plines, p_model, klines, k_bad, n_coq,
                  findings, e2e_s):
    from collections import Counter
    status, rejects, ops, feats, forms, kinds = Counter(), Counter(), Counter(), Counter(), Counter(), Counter()
    tree_only = Counter()
    sizes, ncmds = Counter(), Counter()
    distinct = set()
    n_eval = 0
    accepted = 0
    for c, r in zip(cases, results):
        kinds[c['kind']] += 1
        for o in c.get('meta', {}).get('ops', []):
            ops[o] += 1
        for f in c.get('meta', {}).get('feat', []):
            feats[f] += 1
        for si, st in enumerate(r.get('steps', [])):
            if si < c.get('verify_from', 0):
                status['setup:' + st['status']] += 1
                continue
            n_eval += 1
            status[st['status']] += 1
            if st['status'] in ('rejected', 'diff-error'):
                rejects[G.reject_class(st)] += 1
            if st['status'] == 'invalid-target':
                rejects['invalid-target:' + (st.get('err') or {}).get('type', '?')] += 1
            if st['status'] == 'accepted':
                accepted += 1
                top = [x for x in st.get('cmds', []) if x[0] == 0]
                tops = Counter(x[1] for x in top)
                ncmds[min(st.get('ncmds', 0) // 10 * 10, 100)] += 1
                sizes[min(st.get('nobjs', 0) // 20 * 20, 200)] += 1
                for k, v in (st.get('mon') or {}).items():
                    if k in ('session_refused', 'interactive_refused'):
                        forms[k] += 1
                        continue
                    if k == 'interactive_rejections':
                        forms['interactive:proposals_rejected'] += v
                        forms['interactive:accepted_after_rejections'] += 1 if v else 0
                        continue
                    forms[k + (':eq' if v == 'eq' else ':DIFF')] += 1
                    if k == 'tree' and v != 'eq':
                        for it in (G._diff_items(v) or {('tree', 'rejected')}):
                            tree_only['.'.join(it)] += 1
                ren = any(x[1] == 'rename' for x in st.get('cmds', []))
                if st.get('ncmds', 0) >= 3 and (tops.get('alter') or ren):
                    distinct.add(hashlib.sha256(json.dumps(c['chain']).encode()).hexdigest())
    rep.coverage.update({
        'evaluations': n_eval + len(dlines) + len(plines),
        'distinct_nontrivial': len(distinct),
        'rule': 'end-to-end: generated schema pairs (A,B) over the feature grammar of harness/props/c02_gen.py '
                '(A random, B = A mutated by 1..6 operators, or unrelated, or empty); non-trivial = the computed '
                'migration is accepted, has >= 3 commands and alters or renames at least one existing object; '
                'distinct = distinct (A,B) SDL text.  Additionally delta_objects stub cases (all cases over 2 old x 2 new '
                'names and 4 similarity levels + random up to 6x6 with ties, renames, guidance) and random abstract '
                'plans for the extracted model.',
        'exhaustive': False,
        'exhaustive_subspaces': ['delta_objects: olds subset {1,2}, news subset {2,3}, similarity levels {0,0.6,0.61,1.0} per compared pair, parent_confidence in {None,1.0}'],
        'samples': [c['chain'][-1][:400] for c in cases if c['kind'] == 'pair'][:3],
        'traces_validated_against_impl': len(dlines) + len(klines),
        'e2e_pairs': n_eval,
        'e2e_accepted': accepted,
        'e2e_seconds': round(e2e_s, 1),
        'e2e_status': dict(status),
        'e2e_not_accepted_classes': dict(rejects.most_common(25)),
        'e2e_monitor_forms': dict(forms),
        'tree_form_divergences': dict(tree_only),
        'case_kinds': dict(kinds),
        'mutation_operators': dict(ops.most_common()),
        'features': dict(feats.most_common()),
        'delta_commands_histogram': dict(sorted(ncmds.items())),
        'schema_objects_histogram': dict(sorted(sizes.items())),
        'dobj_cases': len(dlines),
        'dobj_nontrivial': len({l for l in dlines if G.dobj_nontrivial(l)}),
        'dobj_model_vs_impl_disagreements': len(d_mism),
        'dobj_result_kinds': dict(Counter(''.join(sorted({p[0] for p in o.split()})) for o in d_impl).most_common(8)),
        'abstract_plans': len(plines),
        'abstract_plan_results': dict(Counter(o.split(' n=')[0] for o in p_model)),
        'real_partitions_checked_by_extracted_checker': len(klines),
        'real_partitions_rejected_by_checker': len(k_bad),
        'real_partitions_rejected_samples': [klines[j] for j in k_bad[:3]],
        'coq_vm_compute_cross_checked': n_coq,
        'monitor_failures': len([f for f in findings if f[1] == 'violation']),
        'known_finding_hits': dict(Counter(f[2] for f in findings if f[1] == 'known')),
        'trusted_base': [
            'Coq 8.16.1 kernel (coqc; coqchk in the thorough tier); vm_compute only in cases.v evaluation and Examples',
            'extraction: ExtrOcamlBasic only; OCaml 4.13.1; ocaml/conv.ml + c02_main.ml',
            'harness/props/c02.py + c02_gen.py (generators, shrinker, classifier) + harness/impl/c02_impl.py '
            '(driver of the real code, structural dump, monitors)',
            'runtime substrate harness/rt (parser substitute, std schema bootstrap) - see rt/STATUS.md',
            'NOT modelled: per-class Object.compare/as_alter_delta/_get_ast, ordering.linearize_delta, Command.apply '
            'of the ~40 schema classes; they are exercised only by the end-to-end monitors',
            'schema equivalence = repo\'s own delta_schemas empty AND independent dump equal; the dump skips id, '
            'backend_id, span, ephemeral fields, Migration/SchemaVersion objects',
        ],
    })
    rep.assumptions = [
        'abstract model: one command per object; references must exist at creation (cyclic reference shapes that the '
        'real system resolves by create-then-alter splitting are reported as PlanCycle, not covered by the theorem)',
        '"accepted" = POPULATE (DDL generation) and COMMIT (CREATE MIGRATION {ddl}) succeed; rejected migrations '
        '(user input needed, dependency cycle reported, or internal error) are counted, not judged, except '
        'migrations from/to the empty schema which must always apply',
    ]
    rep.notes.append('level partial: theorems are about the abstract algorithm and the transliterated delta_objects; '
                     'the end-to-end property on the real code is checked by differential monitors on generated inputs.')


def replay(path):
    d = json.load(open(path))
    pl = d['replay']
    case = pl.get('shrunk_case') or pl.get('case')
    if isinstance(case, str):
        exe, _ = lib.build_model('c02', 'ExtractC02.v', 'c02_main.ml', 'C02_ext')
        print('case :', case)
        if case.startswith('D;'):
            print('impl :', G.run_dobj([case])[0])
        print('model:', lib.run_model(exe, [case])[0] if exe else 'model does not build')
        return 0
    case = dict(case, id=0, detail=True)
    print('case :')
    for i, t in enumerate(case['chain']):
        print(f'--- schema {i}\n{t}')
    r = G.run_e2e([case])[0]
    for i, st in enumerate(r.get('steps', [])):
        print(f'step {i}: status={st["status"]} err={st.get("err")} monitors={json.dumps(st.get("mon"))[:1500]}')
        if st.get('script'):
            print('migration script:\n' + st['script'])
        kl = G.partition_line(st) if st.get('status') == 'accepted' else None
        if kl:
            exe, _ = lib.build_model('c02', 'ExtractC02.v', 'c02_main.ml', 'C02_ext')
            print('model (partition checker on the real top-level partition):', lib.run_model(exe, [kl])[0] if exe else '-')
    return 0
