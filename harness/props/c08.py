"""C08 -- declared capabilities cover what a statement does.

Proof: coq/theories/C08 (Gen_Caps.v regenerated from the source; Model.v: recording of DML in
       env.dml_exprs through every nesting position and through (inlined) function calls, volatility
       inference and the declared>=inferred rule of CREATE/ALTER FUNCTION, statement-kind dispatch,
       scripts and unit groups; Props.v: theorems for ALL expressions / schemas / sessions).
Tie:   (a) translator harness/translate/c08_caps.py (Capability flag values, the isinstance chain of
           _compile_dispatch_ql, the qlast class hierarchy, QueryUnitGroup.append, has_dml, the recording
           statements of compile_Insert/Update/DeleteQuery and compile_FunctionCall), fail-closed;
       (b) correspondence: the REAL server compiler (compiler.compile on a CompileContext; see
           harness/impl/c08_impl.py) vs the OCaml-extracted model on generated statements, scripts and
           function-DDL histories: per-unit capabilities, len(ir.dml_exprs), group capabilities,
           accept/reject class, stored function volatilities;
       (c) monitors on the real compiler's output, independent of the model: emitted SQL (text and pgast
           tree) writes a user table => MODIFICATIONS; parsed statement contains DML (also through user
           function bodies) => MODIFICATIONS; function with DML body stored Modifying; kind => DDL /
           TRANSACTION / SESSION_CONFIG / PERSISTENT_CONFIG; group = union; enum sanity.
"""
from __future__ import annotations

import json
import os
import subprocess
import sys
import time

import lib

sys.path.insert(0, os.path.join(lib.VERIF, 'harness', 'translate'))
sys.path.insert(0, os.path.join(lib.VERIF, 'harness', 'props'))
import c08_caps  # noqa: E402
import c08_gen as G  # noqa: E402

PROP = 'C08'
THEOREMS = [
    'C08_mod_complete_expr', 'C08_mod_complete', 'C08_write_complete', 'C08_readonly_no_write',
    'C08_function_volatility', 'C08_kind_caps', 'C08_kind_caps_model', 'C08_group_union',
    'C08_group_covers_units', 'C08_script_units', 'C08_flags_distinct', 'C08_reachable',
]
IMPL = os.path.join(lib.VERIF, 'harness', 'impl', 'c08_impl.py')
GEN_DIR = os.path.join(lib.COQ, 'theories', 'C08')
KF_MIGDML = 'C08-migration-dml'
NPROC = 8


# ================================================================ statements: text + model encoding
def L(v=0):
    return ('L', v)


INS = ('ins', [], [], [], None)
UPD = ('upd', [], None, [L()], [])
DEL = ('del', [], None, None, None, None)
SELO = ('selO', [], [], [], None, None, None, None)

SESS_TEXT = ['set alias al as module std', 'set module default', 'reset alias *', 'reset module', 'reset alias al']
CFG_TEXT = {
    0: ["configure session set apply_access_policies := false", "configure session reset apply_access_policies"],
    1: ['set global g := 1', 'reset global g'],
    2: ["configure current database set query_execution_timeout := <duration>'1 hour'",
        "configure current branch reset query_execution_timeout"],
    3: ["configure instance set session_idle_timeout := <duration>'1 hour'",
        "configure instance reset session_idle_timeout"],
}


def holder_text(h, k, x):
    if h == 0:
        return f'create alias AL{k} := ({x})'
    if h == 1:
        return f'create global cg{k} := ({x})'
    if h == 2:
        return f'create type HT{k} {{ create multi property p := ({x}) }}'
    if h == 3:
        return f'create type HT{k} {{ create access policy ap allow all using (sum(({x})) > 0) }}'
    if h == 4:
        return f'create global dg{k} -> int64 {{ set default := sum(({x})) }}'
    if h == 5:
        return f'create type HT{k} {{ create property p -> int64; create index on (.p + ({x})) }}'
    if h == 6:
        return f'create type HT{k} {{ create multi property p -> int64 {{ set default := ({x}) }} }}'
    if h == 7:
        return f'create type HT{k} {{ create trigger tr after insert for each do (select ({x})) }}'
    if h == 8:
        return f'create type HT{k} {{ create property p -> int64 {{ create rewrite insert using (sum(({x}))) }} }}'
    raise ValueError(h)


def stmt_text(st):
    k = st[0]
    if k == 'Q':
        return G.render_query(st[1])
    if k == 'B':
        return 'describe type Aux as sdl'
    if k == 'A':
        return 'analyze ' + G.render_query(st[1])
    if k == 'M':
        return 'administer statistics_update()'
    if k == 'T':
        t = st[1]
        if t == 's':
            return 'start transaction'
        if t == 'c':
            return 'commit'
        if t == 'r':
            return 'rollback'
        return {'d': 'declare savepoint s%d', 'l': 'release savepoint s%d', 'b': 'rollback to savepoint s%d'}[t[0]] % t[1]
    if k == 'S':
        return SESS_TEXT[st[1] % len(SESS_TEXT)]
    if k == 'G':
        return CFG_TEXT[st[1]][st[2] % 2]
    if k == 'Fc':
        return G.render_create_fn(st[1], st[2], st[3], st[4])
    if k == 'Fb':
        return G.render_alter_body(st[1], st[2])
    if k == 'Fv':
        return G.render_alter_vol(st[1], st[2])
    if k == 'Fd':
        return f'drop function f{st[1]}(a: int64)'
    if k == 'H':
        return holder_text(st[1], st[2], G.render(st[3], G.stmt_env()))
    if k == 'O':
        return f'create type OT{st[1]}'
    if k == 'Xs':
        return 'start migration to { %%SDL%% module extra' + str(st[1]) + ' { type MX; } }'
    if k == 'Xp':
        return 'populate migration'
    if k == 'Xd':
        return 'describe current migration as json'
    if k == 'Xc':
        return 'commit migration'
    if k == 'Xa':
        return 'abort migration'
    if k == 'Xm':
        cmds = []
        for c in st[1]:
            cmds.append(G.render_query(c[1]) if c[0] == 'q' else f'create type MO{c[1]}')
        return 'create migration { ' + ' '.join(c + ';' for c in cmds) + ' }'
    raise ValueError(st)


def stmt_enc(st):
    k = st[0]
    if k == 'Q':
        return 'Q' + G.erase_query(st[1])
    if k == 'A':
        return 'A' + G.erase_query(st[1])
    if k in ('B', 'M', 'Xp', 'Xd', 'Xc', 'Xa'):
        return k
    if k == 'T':
        t = st[1]
        return 'T' + (t if isinstance(t, str) else f'{t[0]}{t[1]}')
    if k == 'S':
        return 'S'
    if k == 'G':
        return f'G{st[1]}'
    if k == 'Fc':
        return 'Fc' + G.enc_fdef(st[1], st[2], st[4])
    if k == 'Fb':
        return f'Fb{st[1]}:{G.erase(st[2])}'
    if k == 'Fv':
        return f'Fv{st[1]}:{G.enc_decl(st[2])}'
    if k == 'Fd':
        return f'Fd{st[1]}'
    if k == 'H':
        return f'H{st[1]}:{G.erase(st[3])}'
    if k == 'O':
        return 'O'
    if k == 'Xs':
        return 'Xs'
    if k == 'Xm':
        return 'Xm[' + '+'.join(('q' + G.erase_query(c[1])) if c[0] == 'q' else 'o' for c in st[1]) + ']'
    raise ValueError(st)


def case_lines(c):
    """(json line for the implementation, line for the model)"""
    pre = c.get('pre', [])
    fns = {str(p[0]): f'f{p[0]}' for p in pre}
    for r in c['reqs']:
        for st in r:
            if st[0] == 'Fc':
                fns[str(st[1])] = f'f{st[1]}'
    j = {'nb': c.get('nb', 0), 'pre': [G.render_create_fn(*p) for p in pre], 'fns': fns,
         'reqs': [' ; '.join(stmt_text(st) for st in r) + (';' if len(r) > 1 else '') for r in c['reqs']]}
    if 'raw' in c:
        j['reqs'] = c['raw']
    m = f"{c.get('nb', 0)};" + ','.join(G.enc_fdef(p[0], p[1], p[3]) for p in pre) + ';' + \
        ';'.join(','.join(stmt_enc(st) for st in r) for r in c['reqs'])
    return json.dumps(j), m


# ================================================================ generators
P_STD = [(1, None, 'O', ('ins', [], [('P',)], [], None)),
         (2, None, 'I', ('cnt', ('ins', [], [], [], None))),
         (3, None, 'I', ('op', ('P',), L(1))),
         (4, None, 'I', ('call', 2, [('P',)])),
         (5, 3, 'I', ('op', ('P',), L(0))),            # declared Modifying, pure body
         (6, None, 'I', ('call', 5, [('P',)]))]        # calls it: inferred from the inlined (pure) body


def fillers_O(fns, small=False):
    out = [INS, UPD, DEL] + ([] if small else [('ins', [], [], [], 'uc')])
    out += [('callO', f, [L()]) for f, s, _ in fns if s == 'O']
    return out


def fillers_I(fns, small=False):
    out = [('cnt', x) for x in (fillers_O(fns) if not small else [INS, DEL])]
    out += [('call', f, [L()]) for f, s, _ in fns if s == 'I' and not (small and f == 6)]
    return out


def fn_table(pre):
    return [(p[0], p[2], p[1]) for p in pre]


CTX_I = {
    'result': lambda h: ('sel', [], h, None, None, None, None),
    'with': lambda h: ('sel', [h], L(), None, None, None, None),
    'filter': lambda h: ('sel', [], L(), h, None, None, None),
    'order': lambda h: ('sel', [], L(), None, h, None, None),
    'offset': lambda h: ('sel', [], L(), None, None, h, None),
    'limit': lambda h: ('sel', [], L(), None, None, None, h),
    'foriter': lambda h: ('for', h, L()),
    'forbody': lambda h: ('for', ('set', [L(), L()]), h),
    'op': lambda h: ('op', L(), h),
    'coalR': lambda h: ('coal', L(), h),
    'coalL': lambda h: ('coal', h, L()),
    'ifthen': lambda h: ('if', L(), h, L()),
    'ifelse': lambda h: ('if', L(), L(), h),
    'ifcond': lambda h: ('if', h, L(), L()),
    'set': lambda h: ('set', [L(), h]),
    'argI': lambda h: ('call', 3, [h]),
    'argMod': lambda h: ('call', 2, [h]),
    'shapeSel': lambda h: ('selO', [], [h], [], None, None, None, None),
    'shapeFree': lambda h: ('free', [h], []),
    'shapeIns': lambda h: ('ins', [], [h], [], None),
    'shapeUpd': lambda h: ('upd', [], None, [h], []),
    'updFilter': lambda h: ('upd', [], h, [L()], []),
    'delFilter': lambda h: ('del', [], h, None, None, None),
    'delOrder': lambda h: ('del', [], None, h, None, None),
    'delOffset': lambda h: ('del', [], None, None, h, None),
    'delLimit': lambda h: ('del', [], None, None, None, h),
    'selOfilter': lambda h: ('selO', [], [], [], h, None, None, None),
    'selOorder': lambda h: ('selO', [], [], [], None, h, None, None),
    'selOlimit': lambda h: ('selO', [], [], [], None, None, None, h),
    'elseUpd': lambda h: ('ins', [], [], [], ('else', ('upd_same', [h]))),
    'insWith': lambda h: ('ins', [h], [], [], None),
    'updWith': lambda h: ('upd', [h], None, [L()], []),
    'delWith': lambda h: ('del', [h], None, None, None, None),
    'updofShape': lambda h: ('updof', SELO, [h]),
    'selofFilter': lambda h: ('selof', SELO, h, None),
    'selofOrder': lambda h: ('selof', SELO, None, h),
}
CTX_O = {
    'cnt': lambda h: ('cnt', h),
    'grp': lambda h: ('grp', h),
    'kidsIns': lambda h: ('ins', [], [], [h], None),
    'kidsUpd': lambda h: ('upd', [], None, [], [h]),
    'linkSel': lambda h: ('selO', [], [], [h], None, None, None, None),
    'linkFree': lambda h: ('free', [], [h]),
    'forObody': lambda h: ('forO', L(), h),
    'delof': lambda h: ('delof', h),
    'updof': lambda h: ('updof', h, [L()]),
    'selof': lambda h: ('selof', h, None, None),
    'ifOthen': lambda h: ('ifO', L(), h, SELO),
    'ifOelse': lambda h: ('ifO', L(), SELO, h),
    'coalOR': lambda h: ('coalO', SELO, h),
    'coalOL': lambda h: ('coalO', h, SELO),
    'setO': lambda h: ('setO', [h, SELO]),
    'withO': lambda h: ('sel', [h], L(), None, None, None, None),
    'withOins': lambda h: ('ins', [h], [], [], None),
    'root': lambda h: h,
}
# free-object shapes are only generated where the real compiler sees them exposed at the top of the statement
FREE_CTX = ('shapeFree', 'linkFree')
# Below a free-object shape the real compiler's exemption (init_stmt: trivial free object as the partial path
# prefix, found exposed) is lost as soon as a FILTER / ORDER BY / OFFSET / LIMIT clause intervenes, and a
# free-object link cannot hold a union type.  The model keeps the exemption (it accepts a superset there), so
# these inner contexts are not generated below a free shape.
OPAQUE_UNDER_FREE = {'offset', 'limit', 'filter', 'order', 'selOfilter', 'selOorder', 'selOlimit', 'delFilter',
                     'delOrder', 'delOffset', 'delLimit', 'updFilter', 'selofFilter', 'selofOrder',
                     'setO', 'ifOthen', 'ifOelse', 'coalOR', 'coalOL'}


def ctx_sort(name):
    """sort of the node a context produces"""
    n = (CTX_I.get(name) or CTX_O.get(name))(L())
    return 'O' if G.is_O(n) else 'I'


def all_contexts():
    return [('I', k) for k in CTX_I] + [('O', k) for k in CTX_O]


def apply_ctx(hole_sort, name, h):
    return (CTX_I if hole_sort == 'I' else CTX_O)[name](h)


def wrap_to(sort, n):
    """coerce node n to the given sort"""
    if sort == 'I' and G.is_O(n):
        return ('cnt', n)
    if sort == 'O' and not G.is_O(n):
        return ('forO', n, SELO)
    return n


def q_case(pre, node, tag, nb=0):
    return {'nb': nb, 'pre': pre, 'reqs': [[('Q', node)]], 'tag': tag}


def gen_depth1(pre, small=False):
    fns = fn_table(pre)
    for hs, name in all_contexts():
        for f in (fillers_I(fns, small) if hs == 'I' else fillers_O(fns, small)):
            yield q_case(pre, apply_ctx(hs, name, f), f'ctx1:{name}')


def gen_depth2(pre, rnd=None, sample=None):
    fns = fn_table(pre)
    ctxs = all_contexts()
    combos = []
    for hs1, n1 in ctxs:
        if n1 in FREE_CTX:
            continue                      # inner free object would not be exposed
        for hs2, n2 in ctxs:
            if n2 == 'root' or (n2 in FREE_CTX and n1 in OPAQUE_UNDER_FREE):
                continue
            combos.append((hs1, n1, hs2, n2))
    fill = {'I': fillers_I(fns), 'O': fillers_O(fns)}
    total = [(c, f) for c in combos for f in range(len(fill[c[0]]))]
    if sample is not None and sample < len(total):
        total = rnd.sample(total, sample)
    for (hs1, n1, hs2, n2), fi in total:
        inner = apply_ctx(hs1, n1, fill[hs1][fi])
        outer = apply_ctx(hs2, n2, wrap_to(hs2, inner))
        if G.count_types(outer) <= 14:
            yield q_case(pre, outer, f'ctx2:{n2}/{n1}')


def gen_depth3(pre, rnd, sample):
    fns = fn_table(pre)
    ctxs = [c for c in all_contexts() if c[1] != 'root']
    inner_ctxs = [c for c in ctxs if c[1] not in FREE_CTX]
    fill = {'I': fillers_I(fns), 'O': fillers_O(fns)}
    n = 0
    while n < sample:
        c1, c2, c3 = rnd.choice(inner_ctxs), rnd.choice(inner_ctxs), rnd.choice(ctxs)
        if c3[1] in FREE_CTX and (c1[1] in OPAQUE_UNDER_FREE or c2[1] in OPAQUE_UNDER_FREE):
            continue
        x = apply_ctx(c1[0], c1[1], rnd.choice(fill[c1[0]]))
        x = apply_ctx(c2[0], c2[1], wrap_to(c2[0], x))
        x = apply_ctx(c3[0], c3[1], wrap_to(c3[0], x))
        if G.count_types(x) <= 14:
            n += 1
            yield q_case(pre, x, f'ctx3:{c3[1]}/{c2[1]}/{c1[1]}')


class TreeGen:
    """random typed trees; `fns` = [(fid, sort, decl)] callable here; `param` allows ('P',)"""

    def __init__(self, rnd, fns, param=False, pdml=0.35, maxtypes=12):
        self.r = rnd
        self.fns = fns
        self.param = param
        self.pdml = pdml
        self.types = 0
        self.maxtypes = maxtypes

    def leaf(self):
        if self.param and self.r.random() < 0.4:
            return ('P',)
        return L(self.r.choice((0, 0, 0, 1, 1, 2)))

    def opt_I(self, d, p=0.25):
        return self.I(d - 1) if (d > 0 and self.r.random() < p) else None

    def withs(self, d):
        if d <= 0 or self.r.random() > 0.2:
            return []
        return [self.any(d - 1) for _ in range(self.r.choice((1, 1, 2)))]

    def any(self, d):
        return self.I(d) if self.r.random() < 0.5 else self.O(d)

    def newtype(self):
        self.types += 1

    def I(self, d):
        r = self.r
        if d <= 0 or r.random() < 0.15:
            return self.leaf()
        ifns = [f for f in self.fns if f[1] == 'I']
        k = r.choice(['cnt', 'cnt', 'op', 'coal', 'if', 'set', 'sel', 'sel', 'for', 'grp', 'withuse'] +
                     (['call'] * 3 if ifns else []))
        if k in ('cnt', 'grp'):
            return (k, self.O(d - 1))
        if k == 'withuse':
            return ('withuse', self.any(d - 1))
        if k in ('op', 'coal'):
            return (k, self.I(d - 1), self.I(d - 1))
        if k == 'if':
            return ('if', self.I(d - 1), self.I(d - 1), self.I(d - 1))
        if k == 'set':
            return ('set', [self.I(d - 1) for _ in range(r.choice((1, 2, 3)))])
        if k == 'sel':
            return ('sel', self.withs(d), self.I(d - 1), self.opt_I(d, 0.2), self.opt_I(d, 0.15),
                    self.opt_I(d, 0.15), self.opt_I(d, 0.15))
        if k == 'for':
            return ('for', self.I(d - 1), self.I(d - 1))
        f = r.choice(ifns)
        return ('call', f[0], [self.I(d - 1)])

    def O(self, d):
        r = self.r
        if self.types >= self.maxtypes:
            return self._cheapO()
        if d <= 0:
            self.newtype()
            return r.choice([SELO, SELO, INS, UPD, DEL] if r.random() < self.pdml else [SELO])
        ofns = [f for f in self.fns if f[1] == 'O']
        ks = ['ins', 'ins', 'upd', 'del', 'selO', 'selO', 'forO', 'delof', 'updof', 'selof', 'ifO', 'coalO', 'setO']
        if r.random() > self.pdml * 2:
            ks = ['selO', 'selO', 'forO', 'selof', 'ifO', 'coalO', 'setO']
        if ofns:
            ks += ['callO'] * 2
        k = r.choice(ks)
        if k == 'ins':
            self.newtype()
            conf = r.choice([None, None, None, 'uc', ('else', ('sel_same',)),
                             ('else', ('upd_same', [self.I(d - 1)]))])
            return ('ins', self.withs(d), [self.I(d - 1) for _ in range(r.choice((0, 1, 1, 2)))],
                    [self.O(d - 1) for _ in range(r.choice((0, 0, 1)))], conf)
        if k == 'upd':
            self.newtype()
            return ('upd', self.withs(d), self.opt_I(d, 0.3), [self.I(d - 1) for _ in range(r.choice((0, 1, 1)))],
                    [self.O(d - 1) for _ in range(r.choice((0, 0, 1)))])
        if k == 'del':
            self.newtype()
            return ('del', self.withs(d), self.opt_I(d, 0.3), self.opt_I(d, 0.15), self.opt_I(d, 0.15), self.opt_I(d, 0.15))
        if k == 'selO':
            self.newtype()
            return ('selO', self.withs(d), [self.I(d - 1) for _ in range(r.choice((0, 1, 1)))],
                    [self.O(d - 1) for _ in range(r.choice((0, 0, 1)))],
                    self.opt_I(d, 0.25), self.opt_I(d, 0.15), self.opt_I(d, 0.1), self.opt_I(d, 0.1))
        if k == 'forO':
            return ('forO', self.I(d - 1), self.O(d - 1))
        if k == 'delof':
            return ('delof', self.O(d - 1))
        if k == 'updof':
            return ('updof', self.O(d - 1), [self.I(d - 1)])
        if k == 'selof':
            return ('selof', self.O(d - 1), self.opt_I(d, 0.3), self.opt_I(d, 0.2))
        if k == 'ifO':
            return ('ifO', self.I(d - 1), self.O(d - 1), self.O(d - 1))
        if k == 'coalO':
            return ('coalO', self.O(d - 1), self.O(d - 1))
        if k == 'setO':
            return ('setO', [self.O(d - 1) for _ in range(r.choice((1, 2)))])
        f = r.choice(ofns)
        return ('callO', f[0], [self.I(d - 1)])

    def _cheapO(self):
        ofns = [f for f in self.fns if f[1] == 'O']
        if ofns:
            return ('callO', self.r.choice(ofns)[0], [self.leaf()])
        self.newtype()
        return SELO


def py_vol(n, tab):
    """volatility the compiler will infer for node n (used only to pick admissible declarations);
    tab: fid -> (stored volatility, inferred body volatility)"""
    k = n[0]
    if k == 'L':
        return n[1]
    if k == 'P':
        return 0
    if k in ('ins', 'upd', 'del', 'delof', 'updof', 'upd_same'):
        return 3
    v = 1 if k in ('selO', 'sel_same') else 0
    if k in ('call', 'callO'):
        st, bv = tab.get(n[1], (0, 0))
        v = bv if st == 3 else st
    for _, c in G.children(n):
        v = max(v, py_vol(c, tab))
    return v


def random_prelude(rnd, nf=None):
    """a function schema: each body may call older functions"""
    nf = nf if nf is not None else rnd.choice((1, 2, 3, 4, 5, 6))
    pre = []
    tab = {}
    for i in range(nf):
        fid = i + 1
        sort = rnd.choice('IIO')
        tg = TreeGen(rnd, fn_table(pre), param=True, pdml=rnd.choice((0.0, 0.2, 0.5)), maxtypes=3)
        body = tg.I(rnd.choice((1, 2, 2, 3))) if sort == 'I' else tg.O(rnd.choice((0, 1, 2)))
        inferred = py_vol(body, tab)
        decl = rnd.choice([None, None, None] + list(range(inferred, 4)))     # never below the inferred one
        tab[fid] = (decl if decl is not None else inferred, inferred)
        pre.append((fid, decl, sort, body))
    return pre


def gen_random(rnd, npre, nper, depth):
    for _ in range(npre):
        pre = random_prelude(rnd)
        for _ in range(nper):
            tg = TreeGen(rnd, fn_table(pre), pdml=rnd.choice((0.15, 0.35, 0.6)))
            node = tg.any(rnd.choice(depth))
            yield q_case(pre, node, 'random', nb=0)


def gen_kinds(rnd, pre, n_seq, quick=False):
    """every statement kind, in states that matter (transaction, script, migration block, notebook)"""
    Q0 = ('Q', L())
    QI = ('Q', INS)
    QF = ('Q', ('call', 2, [L()]))
    out = []
    single = [Q0, QI, QF, ('B',), ('A', INS), ('A', L(1)), ('A', ('call', 2, [L()])), ('M',),
              ('T', 's'), ('T', 'c'), ('T', 'r'), ('T', ('d', 1)), ('T', ('l', 1)), ('T', ('b', 1)),
              ('S', 0), ('S', 1), ('S', 2), ('S', 3),
              ('G', 0, 0), ('G', 0, 1), ('G', 1, 0), ('G', 1, 1), ('G', 2, 0), ('G', 2, 1), ('G', 3, 0), ('G', 3, 1),
              ('O', 1), ('Xs', 1), ('Xp',), ('Xd',), ('Xc',), ('Xa',),
              ('Xm', [('o', 1)]), ('Xm', [('q', INS)]), ('Xm', [('q', SELO), ('o', 2)]),
              ('Xm', [('q', ('call', 2, [L()]))]), ('Xm', [('q', ('sel', [], L(), ('cnt', INS), None, None, None))])]
    for nb in (0, 1):
        for st in single:
            out.append({'nb': nb, 'pre': pre, 'reqs': [[st]], 'tag': 'kind:single'})
            if quick and nb == 1 and st[0] != 'G':
                continue
            if not quick or st[0] not in ('Q', 'A', 'B', 'S'):
                out.append({'nb': nb, 'pre': pre, 'reqs': [[('T', 's')], [st]], 'tag': 'kind:in-tx'})
            out.append({'nb': nb, 'pre': pre, 'reqs': [[st, Q0]], 'tag': 'kind:script'})
            if not quick or st[0] not in ('O', 'Xm', 'Xs'):
                out.append({'nb': nb, 'pre': pre, 'reqs': [[QI, st]], 'tag': 'kind:script'})
    # transactions and savepoints
    seqs = [
        [[('T', 's')], [QI], [('T', ('d', 1))], [('Fc', 7, None, 'I', ('cnt', INS))], [('Q', ('call', 7, [L()]))],
         [('T', ('b', 1))], [('Q', ('call', 7, [L()]))]],
        [[('T', 's')], [('T', ('d', 1))], [('T', ('d', 2))], [('T', ('l', 1))], [('T', ('b', 2))]],
        [[('T', 's')], [('T', ('d', 1))], [('T', ('d', 1))], [('T', ('b', 1))], [('T', ('l', 1))], [('T', ('l', 1))], [('T', ('l', 1))]],
        [[('Fc', 7, None, 'I', ('cnt', INS))], [('T', 's')], [('Fb', 7, L())], [('Q', ('call', 7, [L()]))], [('T', 'r')],
         [('Q', ('call', 7, [L()]))]],
        [[('T', 's')], [('Fc', 7, None, 'I', L(1))], [('T', 'c')], [('Q', ('call', 7, [L()]))], [('T', 'c')]],
        [[('T', 'r')], [('T', 's')], [('T', 's')]],
        [[('G', 3, 0)], [('T', 's')], [('G', 3, 0)]],
        [[('T', 's')], [('G', 2, 0)], [('G', 0, 0)], [('G', 1, 0)], [('S', 0)], [('T', 'c')]],
    ]
    # migrations
    seqs += [
        [[('Xs', 1)], [('Xp',)], [('Xd',)], [('Xc',)], [Q0]],
        [[('Xs', 1)], [QI], [('Xp',)], [('Xc',)]],
        [[('Xs', 1)], [QF], [Q0], [('Xp',)], [('Xc',)], [QF]],
        [[('Xs', 1)], [('Q', ('sel', [], L(), ('cnt', INS), None, None, None))]],
        [[('Xs', 1)], [('A', INS)]],
        [[('Xs', 1)], [('Xa',)], [QI]],
        [[('Xs', 1)], [('Xc',)]],
        [[('Xs', 1)], [('Xs', 2)]],
        [[('Xs', 1)], [('T', 's')]],
        [[('Xs', 1)], [('T', 'c')]],
        [[('Xs', 1)], [('T', 'r')], [QI]],
        [[('Xs', 1)], [('O', 3)], [('Xp',)], [('Xc',)]],
        [[('Xs', 1)], [('Xp',)], [('O', 3)], [('Xc',)]],
        [[('T', 's')], [('Xs', 1)], [QI], [('Xp',)], [('Xc',)], [('T', 'c')]],
        [[('T', 's')], [('Xs', 1)], [('Xa',)], [('T', 'c')]],
        [[('T', 's')], [('T', ('d', 1))], [('Xs', 1)], [QI], [('Xp',)], [('Xc',)], [('T', ('b', 1))], [QI]],
        [[('Xs', 1), ('Xp',), ('Xc',)]],
        [[('Xs', 1), QI, ('Xp',), ('Xc',)]],
        [[('Xs', 1), ('Xp',)]],
        [[('Xs', 1), ('Xa',)], [QI]],
        [[QI, ('Xm', [('q', DEL)]), Q0]],
        [[('Xs', 1)], [('Xp',)], [('Xc',)], [('Xs', 2)], [('Q', DEL)], [('Q', UPD)], [('Xp',)], [('Xc',)]],
    ]
    for nb in ((0,) if quick else (0, 1)):
        for si, s in enumerate(seqs):
            if quick and si % 2 == 1 and si > 8:
                continue
            out.append({'nb': nb, 'pre': pre, 'reqs': s, 'tag': 'kind:seq'})
    # random sequences
    pool = single + [('Fc', 7, None, 'I', ('cnt', INS)), ('Fb', 7, L()), ('Fd', 7), ('Fv', 7, 3), ('Q', ('call', 7, [L()]))]
    for _ in range(n_seq):
        reqs = []
        for _ in range(rnd.choice((2, 3, 4, 5, 6))):
            if rnd.random() < 0.25:
                reqs.append([rnd.choice(pool) for _ in range(rnd.choice((2, 3)))])
            else:
                reqs.append([rnd.choice(pool)])
        out.append({'nb': rnd.choice((0, 0, 1)), 'pre': pre, 'reqs': reqs, 'tag': 'kind:random-seq'})
    return out


def gen_fn_histories(rnd, n):
    """CREATE / ALTER / DROP FUNCTION histories followed by calls (volatility propagation to callers)"""
    out = []
    W = ('cnt', INS)            # a writing body
    R = ('op', ('P',), L(1))    # a reading body
    fixed = [
        [('Fc', 1, None, 'I', R), ('Fc', 2, None, 'I', ('call', 1, [('P',)])), ('Fc', 3, None, 'I', ('call', 2, [('P',)])),
         ('Q', ('call', 3, [L()])), ('Fb', 1, W), ('Q', ('call', 3, [L()])), ('Q', ('call', 2, [L()])), ('Fb', 1, R),
         ('Q', ('call', 3, [L()]))],
        [('Fc', 1, 3, 'I', R), ('Fc', 2, None, 'I', ('call', 1, [('P',)])), ('Q', ('call', 1, [L()])), ('Q', ('call', 2, [L()])),
         ('Fv', 1, 2), ('Q', ('call', 1, [L()])), ('Q', ('call', 2, [L()])), ('Fv', 1, None), ('Q', ('call', 2, [L()]))],
        [('Fc', 1, None, 'I', W), ('Fv', 1, 2), ('Fv', 1, 3), ('Fv', 1, None), ('Fb', 1, R), ('Fv', 1, 0), ('Fv', 1, 1),
         ('Q', ('call', 1, [L()]))],
        [('Fc', 1, 1, 'I', R), ('Fc', 2, 1, 'I', ('call', 1, [('P',)])), ('Fb', 1, W), ('Fb', 1, L(2)), ('Q', ('call', 2, [L()]))],
        [('Fc', 1, None, 'I', R), ('Fc', 2, None, 'I', ('call', 1, [('P',)])), ('Fd', 1), ('Fd', 2), ('Fd', 1), ('Fd', 1),
         ('Q', ('call', 1, [L()]))],
        [('Fc', 1, None, 'O', INS), ('Fc', 2, None, 'I', ('cnt', ('callO', 1, [('P',)]))), ('Fc', 1, None, 'I', R),
         ('Q', ('sel', [], L(), ('call', 2, [L()]), None, None, None)), ('Fb', 1, SELO), ('Q', ('sel', [], L(), ('call', 2, [L()]), None, None, None))],
        [('Fc', 1, 0, 'I', W)], [('Fc', 1, 2, 'I', W)], [('Fc', 1, 0, 'I', L(1))], [('Fc', 1, 1, 'I', L(2))],
        [('Fc', 1, None, 'I', ('sel', [], L(), W, None, None, None))],
        [('Fc', 1, None, 'O', ('selO', [], [W], [], None, None, None, None))],
        [('Fc', 1, None, 'I', ('call', 9, [('P',)]))],
    ]
    for h in fixed:
        out.append({'nb': 0, 'pre': [], 'reqs': [[st] for st in h], 'tag': 'fn:fixed'})
    for _ in range(n):
        reqs = []
        live = {}           # fid -> sort, in creation order
        retired = set()     # ids that were (possibly) dropped: never created again, so positions stay known
        for _ in range(rnd.choice((3, 4, 5, 6, 7, 8))):
            ch = rnd.random()
            fid = rnd.choice((1, 2, 3, 4))
            order = list(live)
            # a body may only call functions created BEFORE the function it belongs to (the model resolves
            # calls positionally; the real compiler also accepts later ones when no cycle arises)
            before = order[:order.index(fid)] if fid in live else order
            older = [(f, live[f], None) for f in before]
            tg = TreeGen(rnd, older, param=True, pdml=rnd.choice((0.0, 0.3, 0.6)), maxtypes=3)
            if (ch < 0.35 or not live) and fid not in live and fid not in retired:
                sort = rnd.choice('IIO')
                body = tg.I(rnd.choice((1, 2))) if sort == 'I' else tg.O(rnd.choice((0, 1)))
                reqs.append([('Fc', fid, rnd.choice((None, None, 0, 1, 2, 3)), sort, body)])
                live[fid] = sort
            elif ch < 0.55 and fid in live:
                sort = live[fid]
                body = tg.I(rnd.choice((1, 2))) if sort == 'I' else tg.O(rnd.choice((0, 1)))
                reqs.append([('Fb', fid, body)])
            elif ch < 0.7:
                reqs.append([('Fv', fid, rnd.choice((None, 0, 1, 2, 3)))])
            elif ch < 0.78:
                reqs.append([('Fd', fid)])
                retired.add(fid)
            elif live:
                f = rnd.choice(list(live))
                call = ('call', f, [L()]) if live[f] == 'I' else ('callO', f, [L()])
                ctx = rnd.choice(['result', 'filter', 'shapeSel', 'shapeIns', 'with']) if live[f] == 'I' else \
                    rnd.choice(['cnt', 'kidsIns', 'linkSel', 'root'])
                reqs.append([('Q', apply_ctx(live[f], ctx, call))])
        if not reqs:
            continue
        out.append({'nb': 0, 'pre': [], 'reqs': reqs, 'tag': 'fn:random'})
    return out


def only_write_bodies(X):
    """function bodies (sort I) in which the object-sorted write X sits in one particular position; in the
    entries marked `alone` X is the ONLY write of the body"""
    # (the result of a WITH ... SELECT is a literal, not the parameter: `with v := (insert ..) select (a)` in an
    #  inlined body makes the SQL compiler crash with "Can't compile ref to inline parameter")
    return [
        ('with_unused', True, ('sel', [X], L(), None, None, None, None)),
        ('with_unused_scalar', True, ('sel', [('cnt', X)], L(), None, None, None, None)),
        ('with_used', True, ('withuse', X)),
        ('with_used_scalar', True, ('withuse', ('cnt', X))),
        ('with_in_with', True, ('sel', [('sel', [X], L(), None, None, None, None)], L(), None, None, None, None)),
        ('with_used_in_with', True, ('sel', [('withuse', X)], L(), None, None, None, None)),
        ('for_body_with_used', True, ('for', ('set', [L(), L()]), ('withuse', X))),
        ('for_body_with_unused', True, ('for', ('P',), ('sel', [X], L(), None, None, None, None))),
        ('for_iterator', True, ('for', ('cnt', X), L())),
        ('for_in_for_with', True, ('for', L(), ('for', ('P',), ('withuse', X)))),
        ('argument_builtin', True, ('cnt', X)),
        ('argument_user_fn', True, ('call', 1, [('cnt', X)])),
        ('argument_of_argument', True, ('call', 1, [('call', 1, [('withuse', X)])])),
        ('limit', True, ('sel', [], L(), None, None, None, ('cnt', X))),
        ('offset', True, ('sel', [], L(), None, None, ('cnt', X), None)),
        ('if_else_branch', True, ('if', ('P',), L(), ('cnt', X))),
        ('if_condition', True, ('if', ('cnt', X), L(), L())),
        ('coalesce_right', True, ('coal', L(), ('cnt', X))),
        ('set_element', True, ('set', [L(), ('cnt', X)])),
        ('group_subject', True, ('grp', X)),
        ('select_subject_filtered', True, ('cnt', ('selof', X, L(), None))),
        ('insert_shape', False, ('cnt', ('ins', [], [('cnt', X)], [], None))),
        ('insert_link', False, ('cnt', ('ins', [], [], [X], None))),
        ('update_shape', False, ('cnt', ('upd', [], None, [('cnt', X)], []))),
        ('conflict_else', False, ('cnt', ('ins', [], [], [], ('else', ('upd_same', [('cnt', X)]))))),
        ('insert_with', False, ('cnt', ('ins', [X], [], [], None))),
        ('delete_subject', False, ('cnt', ('delof', X))),
        ('select_shape', True, ('cnt', ('selO', [], [('cnt', X)], [], None, None, None, None))),     # refused
        ('filter', True, ('sel', [], L(), ('cnt', X), None, None, None)),                             # refused
        ('order_by', True, ('sel', [], L(), None, ('cnt', X), None, None)),                           # refused
    ]


def gen_fn_only_write(thorough):
    """a function whose body writes in exactly one, possibly deeply hidden, place -- then called directly,
    through a second function, in rejecting contexts, and referenced from an alias / computed global /
    computed property definition"""
    out = []
    helper = (1, None, 'I', ('op', ('P',), L(1)))
    hk = 500
    for X, xn in ((INS, 'insert'), (UPD, 'update'), (DEL, 'delete')):
        for name, alone, body in only_write_bodies(X):
            call2, call3 = ('call', 2, [L()]), ('call', 3, [L()])
            reqs = [[('Fc', 2, None, 'I', body)],
                    [('Q', call2)],
                    [('Fc', 3, None, 'I', ('call', 2, [('P',)]))],
                    [('Q', call3)],
                    [('Q', ('sel', [call3], L(), None, None, None, None))],
                    [('Q', L()), ('Q', ('withuse', call3))],
                    [('A', call3)],
                    [('Q', ('selO', [], [call3], [], None, None, None, None))]]
            out.append({'nb': 0, 'pre': [helper], 'reqs': reqs, 'tag': f'fnw:{name}:{xn}'})
            if xn == 'insert' and (thorough or name in ('with_unused', 'with_used', 'for_body_with_used', 'conflict_else',
                                                        'argument_user_fn', 'with_in_with')):
                pre = [helper, (2, None, 'I', body), (3, None, 'I', ('call', 2, [('P',)]))]
                for h in (0, 1, 2):
                    for c in ((call3,) if not thorough else (call2, call3)):
                        hk += 1
                        out.append({'nb': 0, 'pre': pre, 'reqs': [[('H', h, hk, c)]], 'tag': f'fnw:holder{h}:{name}'})
            if not thorough and xn != 'insert' and name not in ('with_unused', 'with_used', 'for_body_with_used',
                                                                 'argument_user_fn', 'limit', 'conflict_else'):
                out.pop() if out[-1]['tag'] == f'fnw:{name}:{xn}' else None
    return out


def gen_holders(pre, rnd, per):
    fns = fn_table(pre)
    out = []
    k = 0
    fill = [L(0), L(1), L(2)] + fillers_I(fns)
    for h in range(9):
        if h == 5:      # index expressions: no function calls (their arguments are rendered through sum())
            for x in [L(0), L(1), L(2), ('cnt', INS), ('cnt', DEL), ('coal', L(0), L(0))]:
                k += 1
                out.append({'nb': 0, 'pre': pre, 'reqs': [[('H', h, k, x)]], 'tag': f'holder:{h}'})
            continue
        if per == 0:
            xs = [L(2), ('cnt', INS), ('call', 2, [L()])] if h < 6 else [('cnt', INS), ('call', 2, [L()])]
            for x in xs:
                k += 1
                out.append({'nb': 0, 'pre': pre, 'reqs': [[('H', h, k, x)]], 'tag': f'holder:{h}'})
            continue
        xs = fill if per is None else ([L(0), L(2), ('cnt', INS), ('call', 2, [L()])] +
                                       ([('call', 3, [L()]), L(1)] if per else []) +
                                       rnd.sample(fill, min(per, len(fill))))
        for x in xs:
            k += 1
            out.append({'nb': 0, 'pre': pre, 'reqs': [[('H', h, k, x)]], 'tag': f'holder:{h}'})
            if h in (6, 7, 8) and k % 3 == 0:
                out.append({'nb': 0, 'pre': pre,
                            'reqs': [[('H', h, k, ('sel', [], L(), x, None, None, None))]], 'tag': f'holder:{h}'})
    return out


WILD = [
    # statements outside the typed generator's language: only the monitors apply (no model prediction)
    'with x := (insert T0 { k := 1 }) select x { k, ns }',
    'select (insert T0 { k := 1 }) { k, kids: { k } }',
    'select (1, (insert T0 { k := 1 }))',
    'select [count((delete T0))]',
    'select (a := count((update T0 set { k := 2 })), b := 1).a',
    'select <json>(insert T0 { k := 1 }) { k }',
    'select to_str(<json>(select (update T0 set { k := 5 }) { k }))',
    'select enumerate((delete T0))',
    'select assert_exists((insert T0 { k := 1 }))',
    'select assert_single((delete T0 filter .k = 1))',
    'select assert_distinct((update T0 set { k := 3 }))',
    'select (insert T0 { k := 1 }).k',
    'select (insert T0 { k := 1 }) is T0',
    'select (insert T0 { k := 1 })[is Base].k',
    'select exists (delete T0)',
    'select not exists (delete T0)',
    'select count((delete T0)) in {1, 2}',
    'select array_agg((insert T0 { k := 1 }))',
    'select array_unpack([1, 2]) + count((delete T0))',
    'select detached (insert T0 { k := 1 })',
    'with module default select count((delete T0))',
    'with x := 1, y := (delete T0 filter .k = x) select count(y)',
    'for x in {1, 2, 3} union (insert T0 { k := x })',
    'for x in {1, 2} union (for y in {3, 4} union (insert T0 { k := x * 10 + y }))',
    'for x in {1, 2} union (with z := (insert T0 { k := x }) select z.k)',
    'for x in (delete T0) union (insert T1 { k := x.k })',
    'insert T0 { k := 1, kids := (for x in {1, 2} union (insert T1 { k := x })) }',
    'insert T0 { k := 1, kids := (select (insert T1 { k := 2 })) }',
    'insert T0 { k := 1, kids := assert_distinct((insert T1 { k := 2 })) }',
    'update T0 filter .k = 1 set { kids += (insert T1 { k := 2 }) }',
    'update T0 filter .k = 1 set { kids -= (delete T1) }',
    'update T0 set { ns := count((delete T1)) }',
    'delete T0 filter .k in {1, 2} order by .k limit 1',
    'insert T0 { k := 1 } unless conflict on .k else (select T0)',
    'insert T0 { k := 1 } unless conflict on .k else (update T0 set { ns := 5 })',
    'select (insert T0 { k := 1 } unless conflict on .k else (update T0 set { ns := count((delete T1)) })) { k }',
    'select { a := (insert T0 { k := 1 }), b := (delete T1), c := 1 }',
    'select { a := { b := (insert T0 { k := 1 }) } }',
    'select (select { a := (insert T0 { k := 1 }) })',
    'select (delete T0) ?? (insert T0 { k := 1 })',
    'select (insert T0 { k := 1 }) if exists T1 else (delete T1)',
    'select 1 if count((delete T0)) > 0 else 2',
    'select (group (delete T0) by .k)',
    'group (insert T0 { k := 1 }) by .k',
    'select (with y := (delete T0) select count(y))',
    'select T1 { k } filter .k = 1 limit count((delete T0))',
    'select T1 { k } offset count((insert T0 { k := 1 }))',
    'select global g ?? count((delete T0))',
    'select T0 { k, ns } filter .k > 0 order by .k',
    'select count(T0) + count(T1)',
    'select Base { k, kids: { k } }',
    'select <int64>{} ?? 1',
    'select random()',
    'select datetime_current()',
    'select sequence_next(introspect std::int64)' if False else 'select uuid_generate_v4()',
    'analyze select T0',
    'analyze delete T0',
    'analyze (execute := false) insert T0 { k := 1 }',
    'analyze select count((update T0 set { k := 9 }))',
    'describe schema as sdl',
    'describe type T0',
    'describe object T0 as ddl',
    'administer statistics_update()',
    'administer vacuum()',
    'administer reindex(T0)',
    'administer schema_repair()',
    'start transaction isolation serializable, read only, deferrable',
    'start transaction read write',
    'rollback',
    'set module std',
    'set alias foo as module math',
    'reset alias *',
    'configure session set query_execution_timeout := <duration>"1s"',
    'configure current database set allow_user_specified_id := true',
    'configure current branch reset allow_user_specified_id',
    'configure instance set session_idle_timeout := <duration>"10s"',
    'configure instance insert cfg::Auth { priority := 7, method := (insert cfg::Trust) }',
    'configure instance reset cfg::Auth filter .priority = 7',
    'set global g := 5',
    'set global g := <int64>{}',
    'reset global g',
    'create type WZ { create property p -> str; }',
    'create type WZ2 extending Base { create link other -> T0; }',
    'alter type T0 { create property extra -> str { set default := "x" } }',
    'alter type T0 { create required property extra2 -> str { set default := "x" } }',
    'drop type T15',
    'create scalar type Sc extending int64 { create constraint min_value(0) }',
    'create module wild',
    'create alias WA := (select T0 filter .k > 0)',
    'create global wg -> str',
    'create function wf(x: int64) -> int64 using (x + 1)',
    'create function wf2(x: int64) -> set of Base using (insert T0 { k := x })',
    'create function wf3() -> int64 using (count((delete T0)))',
    'create annotation wann',
    'create abstract constraint wcon on (__subject__ > 0)',
    'create migration { create type WM1; }',
    'create migration { create type WM2; insert T0 { k := 1 }; }',
    'create migration { delete T0; }',
    'create migration { update T0 set { k := 2 }; create type WM3; }',
    'create migration { create function wmf() -> set of Base using (insert T1 { k := 1 }); select wmf(); }',
    'reset schema to initial',
    'start migration rewrite',
    'create database wdb',
    'create empty branch wbr',
    'drop database wdb2',
    'create role wrole',
    'create extension package wpkg version "1.0"',
    'create future nonrecursive_access_policies',
    'select 1; select 2;',
    'select 1; insert T0 { k := 1 };',
    'insert T0 { k := 1 }; select 1;',
    'delete T0; update T1 set { k := 1 }; select count(T0);',
    'create type WS1; insert T0 { k := 1 };',
    'create type WS2; create type WS3;',
    'set global g := 1; select global g;',
    'configure session set apply_access_policies := false; delete T0;',
    'set alias z as module std; select z::count(T0);',
    'create function wsf() -> set of Base using (insert T0 { k := 1 }); select wsf();',
    'create function wsg() -> int64 using (1); select wsg();',
    'start migration to { module default { type OnlyThis; } }; populate migration; commit migration;',
    'select 1; start transaction;',
    'select f1(1)',
    'select f2(1) + f3(1)',
    'select T0 { z := f3(1) }',
    'with a := f2(1) select a',
    'for x in {1, 2} union f1(x)',
    'insert T0 { k := 1, kids := (distinct f1(1)) }',
    'select f4(1) ?? f2(2)',
    'select f5(1)',
    'select f6(1)',
]


def gen_wild(pre, quick=False):
    out = []
    for nb in (0,):
        for q in WILD:
            out.append({'nb': nb, 'pre': pre, 'reqs': [], 'raw': [q], 'tag': 'wild', 'nomodel': True})
        for qi, q in enumerate(WILD):
            if quick and (qi >= 50 or q.split(' ')[0] in ('create', 'alter', 'drop', 'start', 'reset', 'administer',
                                                           'describe')):
                continue
            out.append({'nb': nb, 'pre': pre, 'reqs': [], 'raw': ['start transaction', q], 'tag': 'wild:in-tx', 'nomodel': True})
    mig = [['start migration to { %%SDL%% module extra1 { type MX; } }', q, 'populate migration', 'commit migration']
           for q in WILD[:60:(10 if quick else 4)]]
    for m in mig:
        out.append({'nb': 0, 'pre': pre, 'reqs': [], 'raw': m, 'tag': 'wild:migration', 'nomodel': True})
    return out


def mutate_text(rnd, text):
    """malformed / edge stream: text-level damage to a valid statement"""
    ops = ['drop_char', 'dup_tok', 'swap_kw', 'unknown_type', 'unknown_fn', 'unbalance', 'empty', 'semi', 'case', 'junk']
    op = rnd.choice(ops)
    toks = text.split(' ')
    if op == 'drop_char' and text:
        i = rnd.randrange(len(text))
        return text[:i] + text[i + 1:]
    if op == 'dup_tok' and toks:
        i = rnd.randrange(len(toks))
        return ' '.join(toks[:i] + [toks[i]] + toks[i:])
    if op == 'swap_kw':
        for a, b in rnd.sample([('insert', 'delete'), ('update', 'select'), ('filter', 'order by'), ('select', 'insert'),
                                ('union', 'filter'), ('set', 'filter'), ('delete', 'update')], 3):
            if a in text:
                return text.replace(a, b, 1)
        return text + ' filter'
    if op == 'unknown_type':
        return text.replace('T0', 'Nope0', 1) if 'T0' in text else text.replace('Aux', 'Nope', 1)
    if op == 'unknown_fn':
        return text.replace('count(', 'countz(', 1) if 'count(' in text else text + ' + nofn()'
    if op == 'unbalance':
        return text.replace(')', '', 1) if ')' in text else text + ')'
    if op == 'empty':
        return rnd.choice(['', ';', ' ', '# comment only', ';;'])
    if op == 'semi':
        return text + '; ' + text
    if op == 'case':
        return text.upper() if rnd.random() < 0.5 else text.replace('select', 'SeLeCt')
    return text + rnd.choice([' $$', ' \\', ' @', ' ?? ??', ' { }', ' := 1', '\x00', ' "unterminated'])


def gen_malformed(rnd, cases, n):
    out = []
    base = [c for c in cases if not c.get('nomodel') and len(c['reqs']) == 1]
    while len(out) < n:
        c = rnd.choice(base)
        try:
            j = json.loads(case_lines(c)[0])
        except G.TooManyTypes:
            continue
        txt = mutate_text(rnd, j['reqs'][0])
        out.append({'nb': c.get('nb', 0), 'pre': c['pre'], 'reqs': [], 'raw': [txt], 'tag': 'malformed', 'nomodel': True})
    return out


def corpus_cases():
    p = os.path.join(lib.VERIF, 'corpus', 'C08')
    out = []
    if os.path.isdir(p):
        for f in sorted(os.listdir(p)):
            if f.endswith('.json'):
                d = json.load(open(os.path.join(p, f)))
                out.append(d['case'])
    return out


def gen_cases(tier):
    rnd = lib.rng('C08')
    thorough = tier == 'thorough'
    cases = []
    cases += list(gen_depth1(P_STD, small=not thorough))
    if thorough:
        cases += list(gen_depth2(P_STD, rnd, 2500))
        cases += list(gen_depth3(P_STD, rnd, 500))
        cases += list(gen_random(rnd, 12, 50, (2, 3, 3, 4)))
        cases += gen_kinds(rnd, P_STD, 60)
        cases += gen_fn_histories(rnd, 60)
        cases += gen_holders(P_STD, rnd, None)
    else:
        cases += list(gen_depth2(P_STD, rnd, 200))
        cases += list(gen_depth3(P_STD, rnd, 60))
        cases += list(gen_random(rnd, 4, 20, (2, 3, 3)))
        cases += gen_kinds(rnd, P_STD, 15, quick=True)
        cases += gen_fn_histories(rnd, 12)
        cases += gen_holders(P_STD, rnd, 0)
    cases += gen_fn_only_write(thorough)
    cases += gen_wild(P_STD, quick=not thorough)
    cases += gen_malformed(rnd, cases, 400 if thorough else 60)
    return cases


# ================================================================ running
def run_impl(jlines, nproc=NPROC):
    """like lib.parallel_lines, but with more chunks than workers for large runs (the cases differ a lot in
    cost; at most `nproc` implementation processes run at a time)"""
    if len(jlines) <= 2500:
        return lib.parallel_lines([lib.PY, IMPL, lib.REPO], jlines, nproc=nproc, env=lib.impl_env())
    from concurrent.futures import ThreadPoolExecutor
    nchunks = nproc * 3
    size = (len(jlines) + nchunks - 1) // nchunks
    chunks = [jlines[i:i + size] for i in range(0, len(jlines), size)]
    with ThreadPoolExecutor(nproc) as ex:
        res = list(ex.map(lambda ch: lib.parallel_lines([lib.PY, IMPL, lib.REPO], ch, nproc=1, env=lib.impl_env()), chunks))
    return [x for r in res for x in r]


class ImplProc:
    """one persistent implementation process (for shrinking and one-off questions)"""

    def __init__(self):
        self.p = subprocess.Popen([lib.PY, IMPL, lib.REPO], stdin=subprocess.PIPE, stdout=subprocess.PIPE,
                                  stderr=subprocess.DEVNULL, text=True, env=lib.impl_env(), bufsize=1)

    def ask(self, line):
        self.p.stdin.write(line + '\n')
        self.p.stdin.flush()
        return self.p.stdout.readline().rstrip('\n')

    def close(self):
        try:
            self.p.stdin.close()
            self.p.wait(timeout=20)
        except Exception:
            self.p.kill()


def split_mon(r):
    """(main part, monitor failures); the trailing ' @<ms>' timing is dropped"""
    if ' @' in r:
        r = r.rsplit(' @', 1)[0]
    parts = r.split(' !')
    return parts[0], parts[1:]


def case_ms(r):
    try:
        return int(r.rsplit(' @', 1)[1]) if ' @' in r else 0
    except ValueError:
        return 0


CRASHES = ('EInternalServerError', 'EAssertionError')


def agree(impl_main, model):
    """canonical comparison: identical, except that a rejection agrees when the implementation's reason
    is one of the reasons the model lists; a request after which the implementation stopped must also be
    where the model stopped"""
    if impl_main == model:
        return True
    a, b = impl_main.split(';'), model.split(';')
    if len(a) != len(b) and not any(y[:1] == 'R' and y[1:].isdigit() and int(y[1:]) & 512 for y in b) \
            and not any(x.startswith(CRASHES) for x in a):
        return False
    for x, y in zip(a, b):
        if y[:1] == 'R' and y[1:].isdigit() and int(y[1:]) & 512:
            return True        # the model declares this request outside its scope: nothing further is compared
        if x.startswith(CRASHES):
            return True        # the compiler crashed (no unit, nothing to flag): counted, not compared
        if x == y:
            continue
        if x[:1] in 'RP' and y[:1] == x[:1] and x[1:].isdigit() and y[1:].isdigit() and int(x[1:]) & int(y[1:]):
            continue
        return False
    return True


def is_known_migdml(failures):
    return bool(failures) and all(':migdml:' in f for f in failures)


def shrink_case(c, pred, budget=40):
    """greedy: drop requests / statements, then replace sub-expressions of queries by leaves"""
    import copy
    c = copy.deepcopy(c)
    used = [0]

    def ok(x):
        if used[0] >= budget:
            return False
        used[0] += 1
        try:
            return pred(x)
        except Exception:
            return False
    # the function prelude: none at all, else without its newest members
    if c.get('pre'):
        d = dict(c)
        d['pre'] = []
        if ok(d):
            c = d
        else:
            while len(c['pre']) > 1:
                d = dict(c)
                d['pre'] = c['pre'][:-1]
                if not ok(d):
                    break
                c = d
    if 'raw' in c:
        changed = True
        while changed and len(c['raw']) > 1:
            changed = False
            for i in range(len(c['raw'])):
                d = dict(c)
                d['raw'] = c['raw'][:i] + c['raw'][i + 1:]
                if ok(d):
                    c = d
                    changed = True
                    break
        return c
    changed = True
    while changed:
        changed = False
        for i in range(len(c['reqs'])):
            d = dict(c)
            d['reqs'] = c['reqs'][:i] + c['reqs'][i + 1:]
            if d['reqs'] and ok(d):
                c = d
                changed = True
                break
        if changed:
            continue
        for i, r in enumerate(c['reqs']):
            for k in range(len(r)):
                if len(r) > 1:
                    d = dict(c)
                    d['reqs'] = c['reqs'][:i] + [r[:k] + r[k + 1:]] + c['reqs'][i + 1:]
                    if ok(d):
                        c = d
                        changed = True
                        break
            if changed:
                break
        if changed:
            continue
        # hoist / simplify query subtrees
        for i, r in enumerate(c['reqs']):
            for k, st in enumerate(r):
                if st[0] not in ('Q', 'A'):
                    continue
                for path, sub in G.walk(st[1]):
                    if not path:
                        continue
                    for cand in ([wrap_to('O' if G.is_O(st[1]) else 'I', sub)] if sub[0] not in ('L', 'P', 'sel_same', 'upd_same') else []):
                        if cand == st[1] or G.depth(cand) >= G.depth(st[1]):
                            continue
                        try:
                            G.render_query(cand)
                        except Exception:
                            continue
                        d = dict(c)
                        d['reqs'] = c['reqs'][:i] + [r[:k] + [(st[0], cand)] + r[k + 1:]] + c['reqs'][i + 1:]
                        if ok(d):
                            c = d
                            changed = True
                            break
                    if changed:
                        break
                if changed:
                    break
            if changed:
                break
    return c


def nontrivial(c, mline):
    """a case counts as non-trivial when a write (DML or a call of a user function) sits below at least one
    nesting context, or it is a multi-statement script / a multi-request history"""
    if c.get('nomodel'):
        return c['tag'].startswith('wild')
    nreq = len(c['reqs'])
    if nreq > 1 or any(len(r) > 1 for r in c['reqs']):
        return True
    for r in c['reqs']:
        for st in r:
            if st[0] in ('Q', 'A'):
                for path, sub in G.walk(st[1]):
                    if len(path) >= 1 and sub[0] in ('ins', 'upd', 'del', 'call', 'callO', 'delof', 'updof', 'upd_same'):
                        return True
            if st[0] in ('H', 'Xm', 'Fc', 'Fb'):
                return True
    return False


def translator_crosscheck(tr, exe):
    """the translated class table against the REAL classes (issubclass) and the extracted model's table"""
    bad = []
    spec = {'branches': [b['tested'] for b in tr['branches'][:-1]], 'classes': tr['classes']}
    p = subprocess.run([lib.PY, IMPL, lib.REPO], input='@classes ' + json.dumps(spec) + '\n@enums\n',
                       env=lib.impl_env(), capture_output=True, text=True, timeout=1200)
    if p.returncode != 0:
        return ['impl @classes failed: ' + p.stderr[-400:]], None
    lines = p.stdout.strip().split('\n')
    real = lines[0].split(' ')
    enums_real = lines[1]
    m = lib.run_model(exe, ['@classes', '@enums'])
    mod = [x.split(':')[0] for x in m[0].split(' ')]
    if len(real) != len(mod) or len(real) != len(tr['classes']):
        bad.append(f'class table sizes differ: real {len(real)} model {len(mod)} translator {len(tr["classes"])}')
    else:
        for cn, a, b in zip(tr['classes'], real, mod):
            if a != b:
                bad.append(f'class {cn}: real dispatch branch {a}, translated {b}')
    er, mon = split_mon(enums_real)
    ef = er.split(' ')
    mf = m[1].split(' ')
    if ef[0] != mf[0] or ef[1] != mf[1] or int(ef[2], 2) != tr['caps']['ALL']:
        bad.append(f'enum values differ: real {er} translated {m[1]}')
    return bad, mon


# ================================================================ the check
def run(tier):
    rep = lib.Report(PROP, tier, 'proof')
    thorough = tier == 'thorough'
    t_start = time.time()

    # ---- 1. translator (fail-closed)
    tr = None
    tr_err = None
    try:
        tr = c08_caps.run(lib.REPO, GEN_DIR)
    except Exception as e:
        tr_err = f'{type(e).__name__}: {e}'

    # ---- 2. proofs + model
    pf = lib.proof_stage(rep, 'C08', THEOREMS, extra_targets=['theories/C08/Refuted.vo'], thorough=thorough)
    exe, blog = lib.build_model('c08', 'ExtractC08.v', 'c08_main.ml', 'C08_ext')

    # ---- 3. cases
    cases = []
    ncorp = 0
    for cc in corpus_cases():
        cases.append(cc)
        ncorp += 1
    cases += gen_cases(tier)
    # group by prelude so that a worker builds each function schema once
    # (within one prelude the order is shuffled so that the expensive DDL cases spread over the workers)
    srnd = lib.rng('C08order')
    skey = [srnd.random() for _ in cases]
    order = sorted(range(len(cases)), key=lambda i: (json.dumps(cases[i].get('pre', []), default=str), skey[i]))
    cases = [cases[i] for i in order]
    enc = []
    dropped = 0
    keep = []
    for c in cases:
        try:
            enc.append(case_lines(c))
            keep.append(c)
        except G.TooManyTypes:
            dropped += 1
    cases = keep
    jl = [e[0] for e in enc]
    ml = [e[1] for e in enc]
    t0 = time.time()
    impl = run_impl(jl)
    t_impl = time.time() - t0
    model = None
    if exe:
        mi = [i for i, c in enumerate(cases) if not c.get('nomodel')]
        mo = lib.run_model(exe, [ml[i] for i in mi])
        model = dict(zip(mi, mo))

    mains, mons = [], []
    for r in impl:
        a, b = split_mon(r)
        mains.append(a)
        mons.append(b)
    harness_err = [i for i, a in enumerate(mains) if a.startswith('H')]
    mon_fail = [(i, [f for f in mons[i] if ':harness:' not in f]) for i in range(len(cases))]
    mon_fail = [(i, f) for i, f in mon_fail if f]
    known = [(i, f) for i, f in mon_fail if is_known_migdml(f)]
    real_fail = [(i, [x for x in f if ':migdml:' not in x]) for i, f in mon_fail]
    real_fail = [(i, f) for i, f in real_fail if f]
    mism = []
    if model is not None:
        mism = [i for i in model if not agree(mains[i], model[i])]
    crashes = [i for i in range(len(cases)) if any(p.startswith(CRASHES) for p in mains[i].split(';'))]
    unexpected_E = [i for i in (model or {}) if (';E' in mains[i] or mains[i].startswith('PE')) and i not in set(crashes)]

    # translator / class table / enum cross-check against the real classes
    tc_bad, enum_mon = ([], [])
    if tr is not None and exe:
        try:
            tc_bad, enum_mon = translator_crosscheck(tr, exe)
        except Exception as e:
            tc_bad = [f'cross-check failed to run: {type(e).__name__}: {e}']
            enum_mon = []

    # Coq-internal evaluation of a sample (guards extraction)
    coq_diff, n_coq = [], 0
    if model is not None:
        rnd = lib.rng('C08coq')
        cand = [i for i in model if len(ml[i]) < 600]
        idx = sorted(rnd.sample(cand, min(120 if not thorough else 500, len(cand))))
        try:
            outs = lib.coq_eval('C08', 'From Coq Require Import List NArith. Import ListNotations.\n'
                                       'From Verif.C08 Require Import Gen_Caps Model.\nOpen Scope N_scope.',
                                [coq_case(cases[i]) for i in idx])
            n_coq = len(outs)
            coq_diff = [i for i, o in zip(idx, outs) if coq_result_to_line(o) != model[i]]
        except Exception as e:
            coq_diff = [-1]
            rep.notes.append('coq_eval failed: ' + str(e)[-600:])

    # ---- 4. verdict
    kf = {e['id'] for e in lib.known_findings(PROP)}
    proc = None

    def one_impl(c):
        nonlocal proc
        if proc is None:
            proc = ImplProc()
        return proc.ask(case_lines(c)[0])

    def payload(c, what_failed=None):
        j, m = case_lines(c)
        r = one_impl(c)
        d = {'case': c, 'impl_input': json.loads(j), 'model_input': m, 'impl_result': r,
             'how': f'echo <impl_input as one JSON line> | PYTHONPATH={lib.REPO}:/verif/harness /venv/bin/python '
                    f'harness/impl/c08_impl.py {lib.REPO}'}
        if exe and not c.get('nomodel'):
            d['model_result'] = lib.run_model(exe, [m])[0]
        return d

    seen_kinds = set()
    for i, f in sorted(real_fail, key=lambda t: len(jl[t[0]]))[:40]:
        kind = f[0].split(':')[1] + ':' + f[0].split(':')[2][:40]
        if kind in seen_kinds:
            continue
        seen_kinds.add(kind)
        tag = ':' + f[0].split(':')[1] + ':'
        small = shrink_case(cases[i], lambda c, tag=tag: tag in one_impl(c))
        rep.violation(f'monitor failed on the real compiler: {f}', payload(small))
        if len(seen_kinds) >= 4:
            break
    if known:
        i, f = min(known, key=lambda t: len(jl[t[0]]))
        what = ('CREATE MIGRATION / COMMIT MIGRATION executes recorded INSERT/UPDATE/DELETE queries '
                f'(SQL writes edgedbpub tables) with capabilities DDL[|TRANSACTION] only; {len(known)} cases, e.g. '
                + json.loads(jl[i])['reqs'][-1][:120])
        if KF_MIGDML in kf:
            rep.known_finding(KF_MIGDML, what)
        else:
            rep.violation('monitor failed on the real compiler (finding not yet in known_findings.json as '
                          f'{KF_MIGDML}): {f}', payload(cases[i]))
    for m_ in enum_mon or []:
        rep.violation(f'enum monitor failed on the real Capability flag set: {m_}', {'case': '@enums', 'impl_result': m_})
    if harness_err:
        i = harness_err[0]
        rep.violation(f'harness failure while driving the implementation ({len(harness_err)} cases): {mains[i][:300]}',
                      {'broken': 'harness/impl/c08_impl.py', 'impl_input': json.loads(jl[i])}, False)

    if not real_fail and not (enum_mon or []):
        if model is None:
            rep.violation('model does not build: ' + blog[-1500:], {'broken': 'extraction of theories/C08/Model.v'}, False)
        elif mism:
            i = min(mism, key=lambda k: len(jl[k]))

            def dis(c):
                a = split_mon(one_impl(c))[0]
                return not agree(a, lib.run_model(exe, [case_lines(c)[1]])[0])
            small = shrink_case(cases[i], dis)
            rep.violation(f'correspondence broken: model and implementation disagree on {len(mism)} of '
                          f'{len(model)} cases; no monitor failed', dict(payload(small), **{
                              'broken': 'correspondence C08 Model.run_case vs edb.server.compiler.compiler.compile',
                              'disagreements': len(mism)}), False)
        if tc_bad:
            rep.violation('translated class table / enum values disagree with the real classes: ' + '; '.join(tc_bad[:5]),
                          {'broken': 'harness/translate/c08_caps.py vs edb.edgeql.ast / enums', 'details': tc_bad[:40]}, False)
        if coq_diff:
            rep.violation('extracted model disagrees with vm_compute inside Coq',
                          {'broken': 'extraction', 'case': ml[coq_diff[0]] if coq_diff[0] >= 0 else None}, False)
        if tr_err:
            rep.violation('translator failed closed: ' + tr_err,
                          {'broken': 'harness/translate/c08_caps.py (source shape not recognised)', 'error': tr_err}, False)
        if not pf['ok']:
            rep.violation('proof obligations no longer check: ' + '; '.join(pf['broken'][:6]),
                          {'broken': pf['broken'], 'log_tail': pf['log'][-3000:]}, False)
    if proc is not None:
        proc.close()

    # ---- 5. evidence
    distinct = {ml[i] if not c.get('nomodel') else jl[i] for i, c in enumerate(cases) if nontrivial(c, ml[i])}
    tags, outcomes, capsdist, rejdist, ndml, ctxdist, depths = {}, {}, {}, {}, {}, {}, {}
    fam_ms = {}
    for i, c in enumerate(cases):
        t = c['tag'].split(':')[0]
        tags[t] = tags.get(t, 0) + 1
        fam_ms[t] = fam_ms.get(t, 0) + case_ms(impl[i])
        for part in mains[i].split(';'):
            if part[:1] == 'K':
                outcomes['accepted'] = outcomes.get('accepted', 0) + 1
                for cell in part[1:].split('|')[0].split(','):
                    if '.' in cell:
                        cp, nd = cell.split('.')
                        capsdist[cp] = capsdist.get(cp, 0) + 1
                        ndml[min(int(nd), 9)] = ndml.get(min(int(nd), 9), 0) + 1
            elif part[:1] in 'RP':
                outcomes['rejected'] = outcomes.get('rejected', 0) + 1
                rejdist[part] = rejdist.get(part, 0) + 1
            elif part[:1] == 'E':
                outcomes['rejected-other'] = outcomes.get('rejected-other', 0) + 1
                key = part.split(':')[0]
                rejdist[key] = rejdist.get(key, 0) + 1
        if c['tag'].startswith('ctx'):
            for nm in c['tag'].split(':')[1].split('/'):
                ctxdist[nm] = ctxdist.get(nm, 0) + 1
        for r in c['reqs']:
            for st in r:
                if st[0] in ('Q', 'A'):
                    d = G.depth(st[1])
                    depths[d] = depths.get(d, 0) + 1
    samp = [i for i in (0, len(cases) // 5, len(cases) // 2, (4 * len(cases)) // 5, len(cases) - 1) if 0 <= i < len(cases)]
    rep.coverage.update({
        'evaluations': len(cases),
        'distinct_nontrivial': len(distinct),
        'rule': 'cases = (function prelude, sequence of requests, notebook flag); families: every nesting context x '
                'every write filler (INSERT / UPDATE / DELETE / INSERT UNLESS CONFLICT / modifying object function / '
                'count() of those / modifying, wrapper, read-only, declared-Modifying scalar functions) at depth 1 '
                f'(all), depth 2 ({"2500" if thorough else "200"} sampled), depth 3 (sampled); random typed trees over random '
                'function schemas; every statement kind x {single, inside a transaction, in a script} x notebook flag; '
                'transaction / savepoint / migration-block sequences; CREATE/ALTER/DROP FUNCTION histories; DDL holders '
                '(alias, computed global, computed property, access policy, global default, index, pointer default, '
                'trigger, rewrite) x fillers; hand-written statements outside the typed language (monitors only); '
                'text-level malformed stream. non-trivial = a write or user-function call below >= 1 nesting context, '
                'or a multi-statement / multi-request case, or a DDL holder / function body / migration body; '
                'distinct = distinct model encoding (distinct text for the monitors-only families)',
        'exhaustive': False,
        'exhaustive_subspaces': ['nesting context x write filler, depth 1 (54 contexts; reduced filler set in the quick tier)'] +
                                ['Capability dispatch: every class of edb/edgeql/ast.py x all 128 condition valuations (in Coq)'],
        'samples': [json.loads(jl[i])['reqs'] for i in samp],
        'traces_validated_against_impl': len(model) if model is not None else 0,
        'monitors_only_cases': len([c for c in cases if c.get('nomodel')]),
        'model_vs_impl_disagreements': len(mism),
        'coq_vm_compute_cross_checked': n_coq,
        'monitor_failures': len(real_fail),
        'known_finding_cases': len(known),
        'unclassified_rejections_in_modelled_families': len(unexpected_E),
        'compiler_internal_errors': {'cases': len(crashes),
                                     'sample': [json.loads(jl[i])['reqs'][-1][:200] for i in crashes[:3]]},
        'corpus_cases': ncorp,
        'dropped_over_type_budget': dropped,
        'families': tags,
        'family_compile_seconds': {k: round(v / 1000, 1) for k, v in fam_ms.items()},
        'outcomes_per_request': outcomes,
        'unit_capabilities': dict(sorted(capsdist.items(), key=lambda t: int(t[0]))),
        'rejection_reasons': dict(sorted(rejdist.items(), key=lambda t: -t[1])[:25]),
        'len_dml_exprs': dict(sorted(ndml.items())),
        'contexts_hit': dict(sorted(ctxdist.items())),
        'query_tree_depth': dict(sorted(depths.items())),
        'translator': (tr or {}).get('manifest'),
        'translator_error': tr_err,
        'class_table_crosscheck': {'classes': len((tr or {}).get('classes', [])), 'disagreements': tc_bad},
        'impl_wall_s': round(t_impl, 1),
        'trusted_base': [
            'Coq 8.16.1 kernel (coqc; coqchk in the thorough tier); vm_compute only in cases.v evaluation',
            'extraction: ExtrOcamlBasic only, N/positive kept inductive; OCaml 4.13.1; ocaml/conv.ml + c08_main.ml',
            'translator harness/translate/c08_caps.py (fail-closed; its class table is cross-checked against the real '
            'classes with issubclass on every run)',
            'correspondence harness harness/props/c08.py + c08_gen.py (typed generator, EdgeQL rendering, erasure to '
            'model terms) + harness/impl/c08_impl.py (pass-through wrappers, monitors)',
            'runtime substrate harness/rt (substitute EdgeQL parser, std/reflection schema bootstrap, stubs)',
            'modelled, not verified: the EdgeQL compiler itself (types, cardinality, scoping are not modelled; only '
            'the recording of DML, the placement rules, volatility inference by max, function inlining); the emitted '
            'SQL is not executed (no PostgreSQL): "writes" is read off the SQL text / pgast tree and the parsed AST',
        ],
    })
    rep.assumptions = [
        'executing a unit can write user data only through INSERT/UPDATE/DELETE statements on edgedbpub tables in its SQL '
        '(PostgreSQL semantics; nothing is executed here)',
        'a user function body runs when the function is called (Model.runs); std functions do not write user tables',
        'side condition of C08_mod_complete: the statement is not CREATE MIGRATION / COMMIT MIGRATION '
        f'(known finding {KF_MIGDML}); C08_write_complete has no side condition',
        'notebook mode: SET GLOBAL deliberately carries no capability (source comment in _compile_dispatch_ql); '
        'C08_kind_caps states it for notebook = false and Refuted.v records the notebook case',
    ]
    rep.notes.append(f'wall: total {time.time() - t_start:.0f}s, implementation {t_impl:.0f}s on {NPROC} workers')
    return rep.finish()


# ================================================================ Coq literals (cases.v)
def coq_expr(s):
    """model encoding -> Gallina term"""
    pos = {'p': 'PPlain', 'f': 'PFilter', 'o': 'POrder', 's': 'PShapeSel', 'r': 'PShapeFree', 'm': 'PShapeMut'}
    vol = ['Immutable', 'Stable', 'Volatile', 'Modifying']
    i = [0]

    def ex():
        c = s[i[0]]
        i[0] += 1
        if c == 'L':
            v = int(s[i[0]])
            i[0] += 1
            return f'(ELeaf {vol[v]})'
        if c == 'N':
            return f'(ENode {kids()})'
        if c in 'IUD':
            return f'(EDml {dict(I="Ins", U="Upd", D="Del")[c]} {kids()})'
        if c == 'C':
            j = i[0]
            while s[i[0]].isdigit():
                i[0] += 1
            return f'(ECall {s[j:i[0]]} {kids()})'
        raise ValueError(s)

    def kids():
        assert s[i[0]] == '('
        i[0] += 1
        items = []
        while s[i[0]] != ')':
            p = pos[s[i[0]]]
            i[0] += 1
            items.append((p, ex()))
        i[0] += 1
        out = 'XNil'
        for p, e in reversed(items):
            out = f'(XCons {p} {e} {out})'
        return out
    r = ex()
    assert i[0] == len(s), s
    return r


def coq_decl(d):
    return 'None' if d == '-' else 'Some ' + ['Immutable', 'Stable', 'Volatile', 'Modifying'][int(d)]


def coq_fdef(s):
    a, b, c = s.split(':', 2)
    return f'{{| f_id := {a}; f_decl := {coq_decl(b)}; f_body := {coq_expr(c)} |}}'


def coq_stmt(s):
    k = s[0]
    if k == 'Q':
        return f'SQuery {coq_expr(s[1:])}'
    if k == 'B':
        return 'SDescribe'
    if k == 'A':
        return f'SAnalyze {coq_expr(s[1:])}'
    if k == 'M':
        return 'SAdminister'
    if k == 'T':
        t = s[1]
        if t in 'scr':
            return 'STx ' + {'s': 'TxStart', 'c': 'TxCommit', 'r': 'TxRollback'}[t]
        return 'STx (' + {'d': 'TxDeclare', 'l': 'TxRelease', 'b': 'TxRollbackTo'}[t] + f' {s[2:]})'
    if k == 'S':
        return 'SSess'
    if k == 'G':
        return 'SConfig ' + ['ScSession', 'ScGlobal', 'ScDatabase', 'ScInstance'][int(s[1])]
    if k == 'F':
        if s[1] == 'c':
            return f'SDDL (DCreateFn {coq_fdef(s[2:])})'
        if s[1] == 'b':
            a, b = s[2:].split(':', 1)
            return f'SDDL (DAlterBody {a} {coq_expr(b)})'
        if s[1] == 'v':
            a, b = s[2:].split(':', 1)
            return f'SDDL (DAlterVol {a} ({coq_decl(b)}))'
        return f'SDDL (DDropFn {s[2:]})'
    if k == 'H':
        a, b = s[1:].split(':', 1)
        hs = ['HAlias', 'HGlobal', 'HComputed', 'HPolicy', 'HGlobalDefault', 'HIndex', 'HPtrDefault', 'HTrigger', 'HRewrite']
        return f'SDDL (DHolder {hs[int(a)]} {coq_expr(b)})'
    if k == 'O':
        return 'SDDL DOther'
    if k == 'X':
        if s[1] in 'spdca':
            return {'s': 'SMigStart', 'p': 'SMigPopulate', 'd': 'SMigDescribe', 'c': 'SMigCommit', 'a': 'SMigAbort'}[s[1]]
        inner = [x for x in s[3:-1].split('+') if x]
        return 'SCreateMigration [' + '; '.join('MOther' if x == 'o' else f'MQuery {coq_expr(x[1:])}' for x in inner) + ']'
    raise ValueError(s)


def coq_case(c):
    _, m = case_lines(c)
    nb, pre, *reqs = m.split(';')
    pl = [coq_fdef(x) for x in pre.split(',') if x]
    pl.reverse()
    rq = ['[' + '; '.join(coq_stmt(x) for x in r.split(',') if x) + ']' for r in reqs if r]
    return (f'match run_case {"true" if nb == "1" else "false"} [{"; ".join(pl)}] [{"; ".join(rq)}] with '
            'BadPrelude w => (w, [], [], []) | Ran v rs w => (0, map (fun x => (fst x, vrank (snd x))) v, '
            'map (fun r => match r with SRej y => (y, [], 0) | SOk _ us g => (0, us, g + 1) end) rs, '
            'map (fun x => (fst x, vrank (snd x))) w) end')


def coq_result_to_line(o):
    """parse the printed tuple back into the model's line format"""
    import re
    txt = o.replace('%N', '')
    # tokenise into a Python literal
    txt = txt.replace(';', ',')
    try:
        val = eval(txt, {'__builtins__': {}})     # numbers, tuples and lists only
    except Exception:
        return '?' + o[:80]
    w0, v, rs, w = val
    if w0:
        return f'P{w0}'

    def vs(tag, l):
        return tag + ','.join(f'{a}={b}' for a, b in sorted(l))
    parts = [vs('V', v)]
    for y, us, g in rs:
        if g == 0:
            parts.append(f'R{y}')
        else:
            parts.append('K' + ','.join(f'{a}.{b}' for a, b in us) + f'|{g - 1}')
    parts.append(vs('W', w))
    return ';'.join(parts)


def replay(path):
    d = json.load(open(path))
    rp = d['replay']
    exe, _ = lib.build_model('c08', 'ExtractC08.v', 'c08_main.ml', 'C08_ext')
    if 'impl_input' in rp:
        line = json.dumps(rp['impl_input'])
        print('input:', line)
        print('impl :', run_impl([line], nproc=1)[0])
        if exe and rp.get('model_input') and not (isinstance(rp.get('case'), dict) and rp['case'].get('nomodel')):
            print('model:', lib.run_model(exe, [rp['model_input']])[0])
    else:
        print(json.dumps(rp, indent=1)[:3000])
    return 0
