"""C13 -- generators (used by props/c13.py).

  * upstream_seeds(repo):   query texts harvested from /repo/tests/test_edgeql_*.py (with the schema
                            file of the test class) -- the seed corpus, never the whole test
  * QueryGen:               seeded generator of EdgeQL statements over the generated/own schemas:
                            SELECT / INSERT / UPDATE / DELETE / FOR / GROUP, nesting, shapes, computeds,
                            optional / volatile paths, 0-6 parameters, globals; plus a malformed stream
  * mutate_term(...):       mutation operators on abstract SQL terms (the validator's malformed stream)
"""
from __future__ import annotations

import ast
import copy
import os
import re

# ============================================================================================
# seeds from upstream's tests
# ============================================================================================

_SEED_RE = re.compile(r'(?is)^(with|select|insert|update|delete|for|group)\b')


def upstream_seeds(repo, schemas=None):
    """-> [(schema file name, test file, test name, text)]"""
    tdir = os.path.join(repo, 'tests')
    out = []
    if not os.path.isdir(tdir):
        return out
    for fn in sorted(os.listdir(tdir)):
        if not (fn.startswith('test_edgeql_') and fn.endswith('.py')):
            continue
        try:
            tree = ast.parse(open(os.path.join(tdir, fn), encoding='utf-8').read())
        except (SyntaxError, OSError):
            continue
        for cls in [n for n in tree.body if isinstance(n, ast.ClassDef)]:
            schema = None
            for st in cls.body:
                if isinstance(st, ast.Assign) and any(
                        isinstance(t, ast.Name) and t.id == 'SCHEMA' for t in st.targets):
                    for c in ast.walk(st.value):
                        if isinstance(c, ast.Constant) and isinstance(c.value, str) and c.value.endswith('.esdl'):
                            schema = c.value
            if not schema or (schemas is not None and schema not in schemas):
                continue
            for f in cls.body:
                if isinstance(f, (ast.FunctionDef, ast.AsyncFunctionDef)) and f.name.startswith('test_'):
                    for c in ast.walk(f):
                        if isinstance(c, ast.Constant) and isinstance(c.value, str):
                            s = c.value.strip().rstrip(';').strip()
                            if _SEED_RE.match(s) and len(s) < 1500 and ';' not in s:
                                out.append((schema, fn, f.name, s))
    return out


# ============================================================================================
# term mutations (malformed stream for the validator)
# ============================================================================================

def _paths(term, pred, path=()):
    """all paths (tuples of indexes) to sub-lists satisfying pred"""
    out = []
    if isinstance(term, list):
        if pred(term):
            out.append(path)
        for i, x in enumerate(term):
            out += _paths(x, pred, path + (i,))
    return out


def _get(term, path):
    for i in path:
        term = term[i]
    return term


def _max_name(term):
    m = 7
    if isinstance(term, list):
        for x in term:
            m = max(m, _max_name(x))
    elif isinstance(term, int):
        m = max(m, term)
    return m


def _is(head, n=None):
    return lambda t: bool(t) and t[0] == head and (n is None or len(t) == n)


MUTATIONS = ['ref-qualifier-fresh', 'ref-column-fresh', 'drop-lateral', 'add-lateral', 'swap-from', 'swap-join',
             'alias-fresh', 'alias-dup', 'cte-swap', 'cte-drop', 'cte-rename', 'join-type', 'ref-to-limit',
             'target-rename', 'unqualify', 'requalify', 'param-shift', 'nest-dml', 'ref-qualifier-other',
             'hoist-from-item', 'cte-to-inner', 'tab-to-cte', 'recursive-flag']


def mutate_term(term, kind, rnd):
    """-> mutated deep copy, or None when the operator does not apply"""
    t = copy.deepcopy(term)
    fresh = _max_name(t) + 1

    def pick(pred):
        ps = _paths(t, pred)
        return rnd.choice(ps) if ps else None

    if kind == 'ref-qualifier-fresh':
        p = pick(lambda x: _is('c', 3)(x) and isinstance(x[1], int) and x[1] != 0)
        if p is None:
            return None
        _get(t, p)[1] = fresh
    elif kind == 'ref-qualifier-other':
        ps = _paths(t, lambda x: _is('c', 3)(x) and isinstance(x[1], int) and x[1] != 0)
        if len(ps) < 2:
            return None
        a, b = rnd.sample(ps, 2)
        if _get(t, a)[1] == _get(t, b)[1]:
            return None
        _get(t, a)[1] = _get(t, b)[1]
    elif kind == 'ref-column-fresh':
        p = pick(lambda x: _is('c', 3)(x) and isinstance(x[1], int))
        if p is None:
            return None
        _get(t, p)[2] = fresh
    elif kind == 'drop-lateral':
        p = pick(lambda x: _is('sub', 5)(x) and x[1] == 1)
        if p is None:
            return None
        _get(t, p)[1] = 0
    elif kind == 'add-lateral':
        p = pick(lambda x: _is('sub', 5)(x) and x[1] == 0)
        if p is None:
            return None
        _get(t, p)[1] = 1
    elif kind == 'swap-from':
        ps = [p for p in _paths(t, _is('sel', 9)) if len(_get(t, p)[3]) >= 2]
        ps += [p for p in _paths(t, _is('upd', 9)) if len(_get(t, p)[6]) >= 2]
        if not ps:
            return None
        q = _get(t, rnd.choice(ps))
        fs = q[3] if q[0] == 'sel' else q[6]
        i = rnd.randrange(len(fs) - 1)
        fs[i], fs[i + 1] = fs[i + 1], fs[i]
    elif kind == 'swap-join':
        p = pick(_is('join', 5))
        if p is None:
            return None
        j = _get(t, p)
        j[2], j[3] = j[3], j[2]
    elif kind == 'join-type':
        p = pick(_is('join', 5))
        if p is None:
            return None
        _get(t, p)[1] = rnd.choice(['r', 'f', 'l'])
    elif kind == 'alias-fresh':
        ps = _paths(t, lambda x: x and x[0] in ('rel', 'sub', 'fn') and len(x) in (4, 5))
        if not ps:
            return None
        f = _get(t, rnd.choice(ps))
        f[{'rel': 2, 'sub': 3, 'fn': 2}[f[0]]] = fresh
    elif kind == 'alias-dup':
        ps = _paths(t, lambda x: x and x[0] in ('rel', 'sub', 'fn') and len(x) in (4, 5))
        if len(ps) < 2:
            return None
        a, b = rnd.sample(ps, 2)
        fa, fb = _get(t, a), _get(t, b)
        ia, ib = {'rel': 2, 'sub': 3, 'fn': 2}[fa[0]], {'rel': 2, 'sub': 3, 'fn': 2}[fb[0]]
        if fa[ia] == fb[ib]:
            return None
        fa[ia] = fb[ib]
    elif kind in ('cte-swap', 'cte-drop', 'cte-rename', 'recursive-flag'):
        ps = [p for p in _paths(t, lambda x: x and x[0] == 'w' and len(x) >= 3)]
        if not ps:
            return None
        w = _get(t, rnd.choice(ps))
        n = len(w) - 2
        if kind == 'cte-swap':
            if n < 2:
                return None
            i = 2 + rnd.randrange(n - 1)
            w[i], w[i + 1] = w[i + 1], w[i]
        elif kind == 'cte-drop':
            del w[2 + rnd.randrange(n)]
        elif kind == 'cte-rename':
            w[2 + rnd.randrange(n)][1] = fresh
        else:
            w[1] = 1
    elif kind == 'ref-to-limit':
        ps = [p for p in _paths(t, _is('sel', 9)) if _get(t, p)[4]]
        if not ps:
            return None
        q = _get(t, rnd.choice(ps))
        a = q[4].pop(rnd.randrange(len(q[4])))
        q[7].append(a)
    elif kind == 'target-rename':
        p = pick(lambda x: _is('t', 3)(x) and isinstance(x[1], int) and x[1] != 0)
        if p is None:
            return None
        _get(t, p)[1] = fresh
    elif kind == 'unqualify':
        p = pick(lambda x: _is('c', 3)(x) and isinstance(x[1], int) and x[1] != 0)
        if p is None:
            return None
        _get(t, p)[1] = 0
    elif kind == 'requalify':
        # qualify an unqualified reference with some alias that exists in the statement
        p = pick(lambda x: _is('c', 3)(x) and x[1] == 0)
        als = [_get(t, q) for q in _paths(t, lambda x: x and x[0] in ('rel', 'sub') and len(x) in (4, 5))]
        if p is None or not als:
            return None
        f = rnd.choice(als)
        _get(t, p)[1] = f[2] if f[0] == 'rel' else f[3]
    elif kind == 'param-shift':
        p = pick(_is('p', 2))
        if p is None:
            return None
        _get(t, p)[1] += rnd.choice([1, 2, 5])
    elif kind == 'nest-dml':
        ps = _paths(t, lambda x: x and x[0] in ('ins', 'upd', 'del') and len(x) >= 7)
        if not ps:
            return None
        p = rnd.choice(ps)
        dml = copy.deepcopy(_get(t, p))
        return ['sel', '-', [['t', 0, [['q', dml]]]], [], [], [], [], [], []]
    elif kind == 'hoist-from-item':
        # move a FROM item of an inner sub-select out into the enclosing select's FROM list (front)
        ps = [p for p in _paths(t, _is('sel', 9)) if any(f and f[0] == 'sub' and f[2] and f[2][0] == 'sel'
                                                         and f[2][3] for f in _get(t, p)[3])]
        if not ps:
            return None
        q = _get(t, rnd.choice(ps))
        subs = [f for f in q[3] if f[0] == 'sub' and f[2][0] == 'sel' and f[2][3]]
        f = rnd.choice(subs)
        item = f[2][3].pop(rnd.randrange(len(f[2][3])))
        q[3].insert(0, item)
    elif kind == 'cte-to-inner':
        # attach the statement's first CTE to a nested sub-select instead (it goes out of scope for the rest)
        if not (t and t[0] in ('sel', 'set', 'val', 'ins', 'upd', 'del') and isinstance(t[1], list) and len(t[1]) >= 3):
            return None
        cte = t[1].pop(2)
        if len(t[1]) == 2:
            t[1] = '-'
        inner = [p for p in _paths(t, lambda x: x and x[0] in ('sel', 'val', 'set') and len(x) > 1 and x[1] == '-')
                 if p]
        if not inner:
            return None
        _get(t, rnd.choice(inner))[1] = ['w', 0, cte]
    elif kind == 'tab-to-cte':
        p = pick(_is('tab', 4))
        if p is None:
            return None
        r = _get(t, p)
        nm = r[2]
        del r[:]
        r += ['cte', nm]
    else:
        raise ValueError(kind)
    return t


# ============================================================================================
# EdgeQL query generator over the harness's own schema corpus/C13/g1.esdl
# ============================================================================================
# scalar kinds: i = int64, f = float64, s = str, b = bool, d = datetime, j = json, e = Status enum
G1 = {
    'User': {
        'props': {'name': ('s', 'one', True), 'age': ('i', 'one', False), 'score': ('f', 'one', False),
                  'active': ('b', 'one', False), 'nicknames': ('s', 'many', False), 'created': ('d', 'one', False),
                  'age2': ('i', 'one', False, 'computed'), 'label': ('s', 'one', False, 'computed')},
        'links': {'friends': ('User', 'many', {'since': 'i', 'note': 's'}), 'best': ('User', 'one', {'strength': 'i'}),
                  'owned': ('Item', 'many', {}, 'computed'), 'fof': ('User', 'many', {}, 'computed')},
        'back': [('Item', 'owner'), ('Order', 'buyer'), ('Secret', 'owner'), ('User', 'friends')],
        'required': {'name': 's'},
    },
    'Item': {
        'props': {'name': ('s', 'one', True), 'price': ('f', 'one', False), 'qty': ('i', 'one', False),
                  'status': ('e', 'one', False), 'total': ('f', 'one', False, 'computed'), 'j': ('j', 'one', False)},
        'links': {'owner': ('User', 'one', {}), 'tags': ('Tag', 'many', {'weight': 'f'})},
        'back': [('Order', 'items')],
        'required': {'name': 's', 'owner': 'User'},
        'sub': ['SpecialItem'],
    },
    'SpecialItem': {
        'props': {'name': ('s', 'one', True), 'price': ('f', 'one', False), 'qty': ('i', 'one', False),
                  'bonus': ('i', 'one', False), 'status': ('e', 'one', False)},
        'links': {'owner': ('User', 'one', {}), 'tags': ('Tag', 'many', {'weight': 'f'})},
        'back': [],
        'required': {'name': 's', 'owner': 'User'},
    },
    'Tag': {
        'props': {'name': ('s', 'one', True), 'n_items': ('i', 'one', False, 'computed')},
        'links': {'items': ('Item', 'many', {}, 'computed')},
        'back': [('Item', 'tags')],
        'required': {'name': 's'},
    },
    'Order': {
        'props': {'status': ('e', 'one', False), 'total': ('f', 'one', False, 'computed'), 'created': ('d', 'one', False)},
        'links': {'buyer': ('User', 'one', {}), 'items': ('Item', 'many', {'count': 'i'})},
        'back': [],
        'required': {'buyer': 'User'},
    },
    'Audit': {
        'props': {'msg': ('s', 'one', True), 'touched': ('i', 'one', False), 'at': ('d', 'one', False)},
        'links': {}, 'back': [], 'required': {'msg': 's'},
    },
    'Secret': {
        'props': {'val': ('s', 'one', True)},
        'links': {'owner': ('User', 'one', {})}, 'back': [], 'required': {'val': 's'},
    },
    '`Sel ect`': {
        'props': {'`order`': ('s', 'one', False),
                  '`a very long property name that goes beyond sixty three bytes in length for sure`': ('i', 'one', False)},
        'links': {'`li nk`': ('`Sel ect`', 'many', {})}, 'back': [], 'required': {},
    },
}
ABSTRACT = {'Named': ['User', 'Item', 'SpecialItem', 'Tag'], 'Timed': ['User', 'Order']}
GLOBALS = {'cur_user_name': 's', 'lim_n': 'i', 'tenant': 's', 'cur_uid': 'u'}
CAST = {'i': 'int64', 'f': 'float64', 's': 'str', 'b': 'bool', 'd': 'datetime', 'j': 'json', 'e': 'Status', 'u': 'uuid'}
EDGE_NAMES = ['x', 'y', 'val', '`select`', '`order`', '`from`', '`q~1`', '`a"b`', "`it's`", '`UPPER`', 'ünï', '`два слова`',
              '`' + 'n' * 70 + '`', '`' + 'n' * 70 + '2`', '`v~1`', '`expr~3_value~1`', '`User`', '`id`', '`__type__x`',
              'r', 'm', 'ins', '`excluded`', '`ctid`', '`column1`']


class QueryGen:
    """Typed, depth-bounded generator.  Every generated statement records the features it used."""

    def __init__(self, rnd, maxdepth=4, edge_names=0.15, positional=False):
        self.r = rnd
        self.maxdepth = maxdepth
        self.edge = edge_names
        self.positional = positional
        self.params = []          # [(name, kind, optional)]
        self.nvars = 0
        self.feat = set()

    # ---- helpers
    def var(self):
        self.nvars += 1
        if self.r.random() < self.edge:
            self.feat.add('edge-name')
            base = self.r.choice(EDGE_NAMES)
            if base.startswith('`'):
                return base[:-1] + str(self.nvars) + '`'
            return base + str(self.nvars)
        return f'v{self.nvars}'

    def param(self, kind, optional=None):
        r = self.r
        if self.params and r.random() < 0.3:
            cands = [p for p in self.params if p[1] == kind]
            if cands:
                p = r.choice(cands)
                self.feat.add('param-reuse')
                return self._pref(p)
        if len(self.params) >= 6:
            return self.lit(kind)
        if optional is None:
            optional = r.random() < 0.25
        name = str(len(self.params)) if self.positional else r.choice(['p', 'arg', 'x', 'lim', 'n']) + str(len(self.params))
        p = (name, kind, optional)
        self.params.append(p)
        self.feat.add('param')
        return self._pref(p)

    def _pref(self, p):
        name, kind, optional = p
        t = CAST[kind] if kind not in ('as', 'ts') else {'as': 'array<str>', 'ts': 'tuple<int64, str>'}[kind]
        return f'<{"optional " if optional else ""}{t}>${name}'

    def lit(self, kind):
        r = self.r
        if kind == 'i':
            return str(r.choice([0, 1, 2, 3, 10, 42]))
        if kind == 'f':
            return r.choice(['0.5', '1.0', '2.5', '10.0'])
        if kind == 's':
            return r.choice(["'a'", "'Alice'", "'x y'", "'it''s'".replace("''", "\\'"), "'%a%'", "''"])
        if kind == 'b':
            return r.choice(['true', 'false'])
        if kind == 'd':
            return "<datetime>'2024-01-01T00:00:00+00'"
        if kind == 'j':
            return r.choice(["to_json('1')", "<json>1", "to_json('{\"a\": [1, 2]}')"])
        if kind == 'e':
            return r.choice(['Status.Open', 'Status.Closed', "<Status>'Lost'"])
        if kind == 'u':
            return "<uuid>'00000000-0000-0000-0000-000000000001'"
        raise ValueError(kind)

    def tname(self):
        return self.r.choice(['User', 'User', 'Item', 'Item', 'Tag', 'Order', 'SpecialItem', 'Audit', 'Secret', '`Sel ect`'])

    # ---- scalar expressions of a kind; `ctx` = list of (expr text, type name) object bindings in scope
    def scalar(self, kind, ctx, d, single=True):
        r = self.r
        opts = ['lit', 'lit']
        if d > 0:
            opts += ['op', 'op', 'param', 'param', 'coalesce', 'if', 'agg', 'func', 'global', 'subq', 'volatile']
        if ctx:
            opts += ['prop', 'prop', 'prop', 'prop', 'lprop']
        k = r.choice(opts)
        if k == 'lit':
            return self.lit(kind)
        if k == 'param':
            return self.param(kind)
        if k == 'global':
            gs = [g for g, gk in GLOBALS.items() if gk == kind]
            if gs:
                self.feat.add('global')
                g = r.choice(gs)
                return f'(global {g})' if r.random() < 0.5 else f'((global {g}) ?? {self.lit(kind)})'
            return self.lit(kind)
        if k == 'prop':
            e, t = r.choice(ctx)
            ps = [p for p, v in G1[t]['props'].items() if v[0] == kind and (v[1] == 'one' or not single)]
            if ps:
                p = r.choice(ps)
                if len(G1[t]['props'][p]) > 3:
                    self.feat.add('computed-ptr')
                return f'{e}.{p}'
            # through a single link
            ls = [(l, v) for l, v in G1[t]['links'].items() if v[1] == 'one']
            if ls and d > 0:
                l, v = r.choice(ls)
                ps = [p for p, pv in G1[v[0]]['props'].items() if pv[0] == kind and pv[1] == 'one']
                if ps:
                    self.feat.add('link-path')
                    return f'{e}.{l}.{r.choice(ps)}'
            return self.lit(kind)
        if k == 'lprop':
            # link property access needs a path ending in the link: handled in shapes; fall back
            return self.scalar(kind, ctx, d - 1, single) if d > 0 else self.lit(kind)
        if k == 'op':
            a, b = self.scalar(kind if kind in 'ifs' else 'i', ctx, d - 1), None
            if kind == 'i':
                b = self.scalar('i', ctx, d - 1)
                return f'({a} {r.choice(["+", "-", "*", "//", "%"])} {b})'
            if kind == 'f':
                b = self.scalar('f', ctx, d - 1)
                return f'({a} {r.choice(["+", "-", "*", "/"])} {b})'
            if kind == 's':
                b = self.scalar('s', ctx, d - 1)
                return r.choice([f'({a} ++ {b})', f'str_upper({a})', f'({a})[0:2]', f'str_trim({a})'])
            if kind == 'b':
                ck = r.choice('ifs')
                x, y = self.scalar(ck, ctx, d - 1), self.scalar(ck, ctx, d - 1)
                form = r.choice(['cmp', 'cmp', 'and', 'not', 'opt-eq', 'in', 'like', 'exists'])
                if form == 'cmp':
                    return f'({x} {r.choice(["=", "!=", "<", ">", "<=", ">="])} {y})'
                if form == 'and':
                    return f'({self.scalar("b", ctx, d - 1)} {r.choice(["and", "or"])} {self.scalar("b", ctx, d - 1)})'
                if form == 'not':
                    return f'(not {self.scalar("b", ctx, d - 1)})'
                if form == 'opt-eq':
                    self.feat.add('optional-op')
                    return f'({x} {r.choice(["?=", "?!="])} {y})'
                if form == 'in':
                    self.feat.add('in')
                    return f'({x} {r.choice(["in", "not in"])} {{{y}, {self.lit(ck)}}})'
                if form == 'like':
                    return f'({self.scalar("s", ctx, d - 1)} {r.choice(["like", "ilike"])} {self.lit("s")})'
                self.feat.add('exists')
                return f'({r.choice(["exists", "not exists"])} {self.objset(ctx, d - 1)[0]})'
            if kind == 'd':
                return r.choice(['datetime_current()', 'datetime_of_statement()', self.lit('d')])
            if kind == 'j':
                return f'to_json(<str>{self.scalar("i", ctx, d - 1)})'
            return self.lit(kind)
        if k == 'coalesce':
            self.feat.add('coalesce')
            return f'({self.scalar(kind, ctx, d - 1)} ?? {self.scalar(kind, ctx, d - 1)})'
        if k == 'if':
            self.feat.add('if-else')
            c = self.scalar('b', ctx, d - 1)
            return f'({self.scalar(kind, ctx, d - 1)} if {c} else {self.scalar(kind, ctx, d - 1)})'
        if k == 'agg':
            self.feat.add('aggregate')
            o, t = self.objset(ctx, d - 1)
            if kind == 'i':
                return r.choice([f'count({o})', f'len(<str>count({o}))',
                                 f'(sum({self.multi_scalar("i", ctx, d - 1)}))'])
            if kind == 'f':
                return f'(sum({self.multi_scalar("f", ctx, d - 1)}))'
            if kind == 's':
                return f"(array_join(array_agg({self.multi_scalar('s', ctx, d - 1)}), ','))"
            if kind == 'b':
                return f'(all({self.multi_scalar("b", ctx, d - 1)}))'
            return self.lit(kind)
        if k == 'func':
            self.feat.add('function')
            if kind == 'i':
                return r.choice([f'add_one({self.scalar("i", ctx, d - 1)})', f'len({self.scalar("s", ctx, d - 1)})',
                                 f'(<int64>{self.scalar("f", ctx, d - 1)})'])
            if kind == 's':
                return r.choice([f'(<str>{self.scalar("i", ctx, d - 1)})', f'(<str>{self.scalar("j", ctx, d - 1)})',
                                 f'str_lower({self.scalar("s", ctx, d - 1)})'])
            if kind == 'f':
                return r.choice([f'math::abs({self.scalar("f", ctx, d - 1)})', f'(<float64>{self.scalar("i", ctx, d - 1)})'])
            if kind == 'b':
                return f'contains({self.scalar("s", ctx, d - 1)}, {self.lit("s")})'
            return self.lit(kind)
        if k == 'subq':
            self.feat.add('scalar-subquery')
            o, t = self.objset(ctx, d - 1)
            ps = [p for p, v in G1[t]['props'].items() if v[0] == kind and v[1] == 'one']
            if ps:
                wrap = r.choice(['assert_single', 'limit', 'min'])
                if wrap == 'assert_single':
                    self.feat.add('assert_single')
                    return f'assert_single(({o}).{r.choice(ps)})'
                if wrap == 'limit':
                    return f'(select ({o}).{r.choice(ps)} limit 1)'
                if kind in 'ifs':
                    return f'min(({o}).{r.choice(ps)})'
            return self.lit(kind)
        if k == 'volatile':
            self.feat.add('volatile')
            if kind == 'f':
                return 'random()'
            if kind == 'i':
                return '(<int64>(random() * 10))'
            if kind == 's':
                return '(<str>uuid_generate_v1mc())'
            if kind == 'd':
                return 'datetime_current()'
            return self.lit(kind)
        return self.lit(kind)

    def multi_scalar(self, kind, ctx, d):
        r = self.r
        form = r.choice(['path', 'set', 'single', 'func'])
        if form == 'path':
            o, t = self.objset(ctx, d)
            ps = [p for p, v in G1[t]['props'].items() if v[0] == kind]
            if ps:
                return f'({o}).{r.choice(ps)}'
        if form == 'set':
            return '{' + ', '.join(self.scalar(kind, ctx, max(0, d - 1)) for _ in range(r.randint(1, 3))) + '}'
        if form == 'func' and kind == 's':
            self.feat.add('set-function')
            return r.choice(['user_names()', "array_unpack(['a', 'b'])", "json_array_unpack(to_json('[1]'))"]) \
                if False else r.choice(['user_names()', "array_unpack(['a', 'b'])"])
        if form == 'func' and kind == 'i':
            self.feat.add('set-function')
            return r.choice(['range_unpack(range(1, 4))', 'array_unpack([1, 2, 3])', '{1, 2, 3}'])
        return self.scalar(kind, ctx, d)

    # ---- object sets: returns (text, type name)
    def objset(self, ctx, d):
        r = self.r
        opts = ['root', 'root']
        if ctx:
            opts += ['link', 'link', 'backlink', 'ctx']
        if d > 0:
            opts += ['filter', 'filter', 'union', 'isect', 'detached', 'limit', 'distinct', 'global', 'alias', 'abstract',
                     'opt-wrap']
        k = r.choice(opts)
        if k == 'root':
            t = self.tname()
            return t, t
        if k == 'ctx':
            return r.choice(ctx)
        if k == 'link':
            e, t = r.choice(ctx)
            ls = list(G1[t]['links'].items())
            if ls:
                l, v = r.choice(ls)
                self.feat.add('link-path')
                if len(v) > 3:
                    self.feat.add('computed-ptr')
                return f'{e}.{l}', v[0]
            return e, t
        if k == 'backlink':
            e, t = r.choice(ctx)
            if G1[t]['back']:
                st, l = r.choice(G1[t]['back'])
                self.feat.add('backlink')
                return f'{e}.<{l}[is {st}]', st
            return e, t
        if k == 'filter':
            o, t = self.objset(ctx, d - 1)
            v = self.var()
            self.feat.add('filter')
            cond = self.scalar('b', ctx + [(v, t)], d - 1)
            txt = f'(with {v} := {o} select {v} filter {cond})' if r.random() < 0.4 else None
            if txt is None:
                cond = self.scalar('b', ctx + [(f'{t}', t)] if o == t else ctx, d - 1) if o == t else None
                if cond is None:
                    return f'(select {o} filter {self.scalar("b", ctx, d - 1)})', t
                return f'(select {t} filter {cond})', t
            self.feat.add('with')
            return txt, t
        if k == 'union':
            o1, t1 = self.objset(ctx, d - 1)
            self.feat.add('union')
            return f'({o1} union {t1})', t1
        if k == 'isect':
            if r.random() < 0.5:
                self.feat.add('type-intersection')
                return '(Item[is SpecialItem])', 'SpecialItem'
            self.feat.add('abstract')
            a = r.choice(list(ABSTRACT))
            c = r.choice(ABSTRACT[a])
            return f'({a}[is {c}])', c
        if k == 'abstract':
            self.feat.add('abstract')
            a = r.choice(list(ABSTRACT))
            c = r.choice(ABSTRACT[a])
            return f'(select {a} filter .name = {self.scalar("s", ctx, d - 1)})[is {c}]' if a == 'Named' \
                else f'({a}[is {c}])', c
        if k == 'detached':
            self.feat.add('detached')
            t = self.tname()
            return f'(detached {t})', t
        if k == 'limit':
            o, t = self.objset(ctx, d - 1)
            self.feat.add('limit')
            lim = self.scalar('i', [], 1) if r.random() < 0.6 else self.param('i', optional=False)
            if r.random() < 0.3:
                return f'(select {o} offset {self.lit("i")} limit {lim})', t
            return f'(select {o} limit {lim})', t
        if k == 'distinct':
            o, t = self.objset(ctx, d - 1)
            return f'(distinct {o})', t
        if k == 'global':
            self.feat.add('global')
            return '(global cur_user)', 'User'
        if k == 'alias':
            self.feat.add('alias')
            return 'ActiveUser', 'User'
        if k == 'opt-wrap':
            o, t = self.objset(ctx, d - 1)
            self.feat.add('coalesce')
            return f'({o} ?? (select {t} limit 1))', t
        return self.tname(), 'User'

    # ---- shapes
    def shape(self, t, d, path=None):
        r = self.r
        if d <= 0:
            return ''
        els = []
        info = G1[t]
        for p in r.sample(list(info['props']), min(len(info['props']), r.randint(0, 3))):
            els.append(p)
        for l in r.sample(list(info['links']), min(len(info['links']), r.randint(0, 2))):
            tt, card, lps = info['links'][l][:3]
            sub = self.shape(tt, d - 1)
            if lps and r.random() < 0.5:
                lp = r.choice(list(lps))
                sub = (sub[:-1].rstrip() + (', ' if sub.strip('{} ') else '') + f'@{lp}}}') if sub else f'{{@{lp}}}'
                self.feat.add('link-prop')
            tail = ''
            if card == 'many' and r.random() < 0.4 and d > 1:
                self.feat.add('shape-clauses')
                ps = [p for p, v in G1[tt]['props'].items() if v[1] == 'one']
                c = []
                if r.random() < 0.5:
                    c.append(f'filter {self.scalar("b", [(f".{l}", tt)] if False else [], d - 2)}')
                if ps and r.random() < 0.7:
                    c.append(f'order by .{r.choice(ps)} {r.choice(["asc", "desc", "asc empty last"])}')
                if r.random() < 0.4:
                    c.append(f'limit {self.lit("i")}')
                tail = ' ' + ' '.join(c)
            els.append(f'{l}: {sub or "{id}"}{tail}')
            self.feat.add('nested-shape')
        for _ in range(r.randint(0, 2)):
            nm = self.var()
            kind = r.choice('ifsb')
            self.feat.add('computed-shape')
            form = r.random()
            if form < 0.5:
                els.append(f'{nm} := {self.scalar(kind, [("", t)] if False else [(f"{t}", t)] if path == t else [], d - 1)}')
            elif form < 0.8 and info['links']:
                l = r.choice(list(info['links']))
                tt = info['links'][l][0]
                els.append(f'{nm} := count(.{l})')
            else:
                o, tt = self.objset([], d - 1)
                els.append(f'{nm} := (select {o} {self.shape(tt, d - 2)} limit 2)')
        if not els:
            els = ['id']
        return '{' + ', '.join(els) + '}'

    # ---- statements
    def insert(self, t, ctx, d, allow_conflict=True):
        r = self.r
        info = G1[t]
        self.feat.add('insert')
        els = []
        for p, k in info['required'].items():
            if k in G1:
                src = f'(select {k} filter .name = {self.scalar("s", ctx, d - 1)} limit 1)' if 'name' in G1[k]['props'] \
                    else f'(select {k} limit 1)'
                if d > 1 and r.random() < 0.25:
                    self.feat.add('nested-insert')
                    src = self.insert(k, ctx, d - 1, allow_conflict=False)
                if r.random() < 0.5:
                    src = f'assert_exists({src})'
                els.append(f'{p} := {src}')
            else:
                els.append(f'{p} := {self.scalar(k, ctx, d - 1)}')
        opt = [p for p, v in info['props'].items() if p not in info['required'] and len(v) == 3]
        for p in r.sample(opt, min(len(opt), r.randint(0, 3))):
            k, card, _ = info['props'][p]
            els.append(f'{p} := {self.multi_scalar(k, ctx, d - 1) if card == "many" else self.scalar(k, ctx, d - 1)}')
        lopt = [l for l, v in info['links'].items() if l not in info['required'] and len(v) == 3]
        for l in r.sample(lopt, min(len(lopt), r.randint(0, 2))):
            tt, card, lps = info['links'][l]
            o, ot = self.objset(ctx, d - 1)
            if ot != tt and not (tt == 'Item' and ot == 'SpecialItem'):
                o = tt
            if lps and r.random() < 0.5:
                lp, lk = r.choice(list(lps.items()))
                self.feat.add('link-prop')
                o = f'(select {o} {{@{lp} := {self.scalar(lk, ctx, d - 1)}}})'
            if card == 'one':
                o = f'(select {o} limit 1)'
            els.append(f'{l} := {o}')
        txt = f'insert {t} {{{", ".join(els)}}}'
        if allow_conflict and 'name' in info['props'] and r.random() < 0.3:
            self.feat.add('unless-conflict')
            form = r.random()
            if form < 0.3:
                txt += ' unless conflict'
            elif form < 0.6:
                txt += ' unless conflict on .name'
            else:
                v = r.choice(['select', 'update'])
                self.feat.add('conflict-else')
                txt += (f' unless conflict on .name else (select {t})' if v == 'select'
                        else f' unless conflict on .name else (update {t} set {{name := .name ++ {self.lit("s")}}})')
        return f'({txt})'

    def update(self, t, ctx, d):
        r = self.r
        info = G1[t]
        self.feat.add('update')
        sets = []
        props = [p for p, v in info['props'].items() if len(v) == 3 and p != 'name']
        for p in r.sample(props, min(len(props), r.randint(1, 2))):
            k, card, _ = info['props'][p]
            if card == 'many':
                op = r.choice([':=', '+=', '-='])
                sets.append(f'{p} {op} {self.multi_scalar(k, ctx, d - 1)}')
            else:
                sets.append(f'{p} := {self.scalar(k, ctx + [(t, t)], d - 1)}')
        links = [l for l, v in info['links'].items() if len(v) == 3]
        for l in r.sample(links, min(len(links), r.randint(0, 1))):
            tt, card, lps = info['links'][l]
            if card == 'many':
                op = r.choice([':=', '+=', '-='])
                self.feat.add('link-' + {':=': 'assign', '+=': 'add', '-=': 'remove'}[op])
                src = f'(select {tt} filter {self.scalar("b", [(tt, tt)], d - 1)})'
                if lps and op != '-=' and r.random() < 0.5:
                    lp, lk = r.choice(list(lps.items()))
                    src = f'(select {tt} {{@{lp} := {self.lit(lk)}}} limit 2)'
                    self.feat.add('link-prop')
                sets.append(f'{l} {op} {src}')
            else:
                sets.append(f'{l} := (select {tt} limit 1)')
        if not sets:
            sets = [f'{list(info["props"])[0]} := {self.lit(list(info["props"].values())[0][0])}']
        flt = f' filter {self.scalar("b", ctx + [(t, t)], d - 1)}' if r.random() < 0.7 else ''
        return f'(update {t}{flt} set {{{", ".join(sets)}}})'

    def delete(self, t, ctx, d):
        r = self.r
        self.feat.add('delete')
        flt = f' filter {self.scalar("b", ctx + [(t, t)], d - 1)}' if r.random() < 0.8 else ''
        tail = ''
        if r.random() < 0.3:
            ps = [p for p, v in G1[t]['props'].items() if v[1] == 'one']
            if ps:
                tail = f' order by .{r.choice(ps)} limit {self.lit("i")}'
        return f'(delete {t}{flt}{tail})'

    def for_(self, ctx, d):
        r = self.r
        self.feat.add('for')
        v = self.var()
        form = r.choice(['ints', 'objs', 'tuple', 'array', 'param-array', 'optional'])
        if form == 'ints':
            it, bind = self.multi_scalar('i', ctx, d - 1), ('i', None)
        elif form == 'objs':
            o, t = self.objset(ctx, d - 1)
            it, bind = o, ('o', t)
        elif form == 'tuple':
            it, bind = "{(1, 'a'), (2, 'b')}", ('t', None)
        elif form == 'array':
            it, bind = "array_unpack(['x', 'y'])", ('s', None)
        elif form == 'param-array':
            self.feat.add('param')
            it, bind = f'array_unpack({self.param("as", optional=False)})', ('s', None)
        else:
            it, bind = self.multi_scalar('i', ctx, d - 1), ('i', None)
        body_kind = r.choice(['select', 'insert', 'update', 'scalar', 'nested-for'])
        nctx = ctx + [(v, bind[1])] if bind[0] == 'o' else ctx
        sv = {'i': v, 's': f'len({v})', 't': f'{v}.0'}.get(bind[0])
        if body_kind == 'insert':
            t = r.choice(['Tag', 'Audit', 'User'])
            nm = {'i': f"'n' ++ <str>{v}", 's': v, 't': f'{v}.1', 'o': f'{v}.name' if bind[1] and 'name' in G1[bind[1]]['props'] else "'q'"}[bind[0]]
            key = 'msg' if t == 'Audit' else 'name'
            self.feat.add('insert')
            body = f'(insert {t} {{{key} := {nm}}})'
        elif body_kind == 'update':
            t = r.choice(['User', 'Item'])
            self.feat.add('update')
            cond = f'.name = {v}' if bind[0] == 's' else (f'.age = {sv}' if t == 'User' and sv else 'true')
            body = f'(update {t} filter {cond} set {{name := .name ++ \'!\'}})'
        elif body_kind == 'scalar' or d <= 1:
            body = f'({sv} + {self.scalar("i", nctx, d - 1)})' if sv else f'(select {v} {self.shape(bind[1], d - 1)})'
        elif body_kind == 'nested-for':
            body = f'({self.for_(nctx, d - 1)})'
        else:
            o, t = self.objset(nctx, d - 1)
            cond = self.scalar('b', nctx + [(t, t)] if o == t else nctx, d - 1)
            body = f'(select {o} filter {cond})'
        opt = 'optional ' if form == 'optional' else ''
        return f'for {opt}{v} in {it} union {body}'

    def group(self, ctx, d):
        r = self.r
        self.feat.add('group')
        t = r.choice(['User', 'Item', 'Order'])
        ps = [p for p, v in G1[t]['props'].items() if v[1] == 'one']
        form = r.choice(['by-prop', 'using', 'sets', 'cube'])
        if form == 'by-prop':
            by = r.sample(ps, min(len(ps), r.randint(1, 2)))
            txt = f'group {t} by ' + ', '.join('.' + p for p in by)
        elif form == 'using':
            v = self.var()
            txt = f'group {t} using {v} := {self.scalar(r.choice("is"), [(t, t)] if False else [], d - 1)}, w2 := .{r.choice(ps)} by {v}, w2'
        elif form == 'sets':
            a, b = r.choice(ps), r.choice(ps)
            txt = f'group {t} using a1 := .{a}, b1 := .{b} by {{a1, b1, ()}}' if a != b else f'group {t} by .{a}'
            self.feat.add('grouping-sets')
        else:
            a, b = r.choice(ps), r.choice(ps)
            txt = f'group {t} using a1 := .{a}, b1 := .{b} by {r.choice(["cube", "rollup"])}(a1, b1)' if a != b else f'group {t} by .{a}'
            self.feat.add('grouping-sets')
        out = r.choice(['plain', 'shape', 'count'])
        if out == 'plain':
            return txt
        if out == 'shape':
            return f'select ({txt}) {{key: {{*}}, grouping, n := count(.elements), els := .elements {self.shape(t, d - 1)}}}'
        return f'select ({txt}) {{n := count(.elements)}} order by .n'

    def select(self, ctx, d):
        r = self.r
        self.feat.add('select')
        form = r.choice(['shape', 'shape', 'shape', 'scalar', 'tuple', 'array', 'free'])
        if form == 'shape':
            o, t = self.objset(ctx, d - 1)
            sh = self.shape(t, d)
            cl = []
            if r.random() < 0.6:
                cl.append(f'filter {self.scalar("b", ctx + ([(t, t)] if o == t else []), d - 1)}')
                self.feat.add('filter')
            ps = [p for p, v in G1[t]['props'].items() if v[1] == 'one']
            if ps and r.random() < 0.5:
                cl.append(f'order by .{r.choice(ps)} {r.choice(["", "desc", "empty first"])}' +
                          (f' then .{r.choice(ps)}' if r.random() < 0.3 else ''))
                self.feat.add('order-by')
            if r.random() < 0.4:
                cl.append(f'offset {self.scalar("i", [], 1)}' if r.random() < 0.3 else '')
                cl.append(f'limit {self.param("i", optional=False) if r.random() < 0.5 else self.lit("i")}')
                self.feat.add('limit')
            return f'select {o} {sh} ' + ' '.join(c for c in cl if c)
        if form == 'scalar':
            return f'select {self.scalar(r.choice("ifsb"), ctx, d)}'
        if form == 'tuple':
            self.feat.add('tuple')
            o, t = self.objset(ctx, d - 1)
            return f'select ({o} {self.shape(t, d - 1)}, {self.scalar(r.choice("is"), ctx, d - 1)}, count({self.objset(ctx, d - 1)[0]}))'
        if form == 'array':
            self.feat.add('array')
            return f'select array_agg({self.multi_scalar(r.choice("is"), ctx, d - 1)})'
        self.feat.add('free-object')
        return f'select {{a := {self.scalar("i", ctx, d - 1)}, b := {self.objset(ctx, d - 1)[0]} {{id}}, c := {self.scalar("s", ctx, d - 1)}}}'

    def statement(self):
        r = self.r
        d = self.maxdepth
        kind = r.choice(['select', 'select', 'select', 'insert', 'update', 'delete', 'for', 'for', 'group', 'with-dml', 'wrapped-dml',
                         'if-dml', 'dml-chain', 'multi-global', 'abstract-root'])
        self.feat.add('stmt:' + kind)
        if kind == 'select':
            body = self.select([], d)
        elif kind == 'insert':
            body = self.insert(r.choice(['User', 'Item', 'Tag', 'Order', 'Audit', 'Secret', 'SpecialItem']), [], d)[1:-1]
        elif kind == 'update':
            body = self.update(r.choice(['User', 'Item', 'Order', 'Audit', 'Secret', 'SpecialItem']), [], d)[1:-1]
        elif kind == 'delete':
            body = self.delete(r.choice(['User', 'Item', 'Tag', 'Order', 'Audit', 'Secret']), [], d)[1:-1]
        elif kind == 'for':
            body = self.for_([], d)
        elif kind == 'group':
            body = self.group([], d)
        elif kind == 'with-dml':
            self.feat.add('with')
            n = r.randint(1, 3)
            binds = []
            names = []
            for _ in range(n):
                v = self.var()
                k = r.choice(['insert', 'update', 'delete', 'select', 'scalar'])
                if k == 'insert':
                    e = self.insert(r.choice(['User', 'Tag', 'Audit', 'Item']), [], d - 1)
                elif k == 'update':
                    e = self.update(r.choice(['User', 'Item', 'Audit']), [], d - 1)
                elif k == 'delete':
                    e = self.delete(r.choice(['Tag', 'Audit', 'Order']), [], d - 1)
                elif k == 'select':
                    e = f'({self.select([], d - 1)})'
                else:
                    e = self.scalar(r.choice('is'), [], d - 1)
                binds.append(f'{v} := {e}')
                names.append(v)
            tail = r.choice(['tuple', 'count', 'first'])
            if tail == 'tuple' and len(names) > 1:
                body = f'with {", ".join(binds)} select ({", ".join(names)})'
            elif tail == 'count':
                body = f'with {", ".join(binds)} select ' + ' + '.join(f'count({x})' for x in names)
            else:
                body = f'with {", ".join(binds)} select {names[0]}'
        elif kind == 'wrapped-dml':
            t = r.choice(['User', 'Item', 'Tag'])
            dml = r.choice([self.insert, self.update])(t, [], d - 1) if True else None
            body = f'select {dml} {self.shape(t, d - 1)}'
        elif kind == 'dml-chain':
            # DML, then navigate from its result through a link into a type that carries the DML overlay
            self.feat.update(['with', 'insert', 'dml-overlay'])
            u, p = self.var(), self.var()
            first = r.choice(['insert', 'update'])
            if first == 'insert':
                ue = f"(insert User {{name := {self.scalar('s', [], d - 2)}, age := {self.scalar('i', [], d - 2)}}})"
            else:
                self.feat.add('update')
                ue = f"(update User filter .name = {self.scalar('s', [], d - 2)} set {{age := {self.scalar('i', [], d - 2)}}})"
            second = r.choice(['item', 'order', 'friend'])
            if second == 'item':
                pe = f"(insert Item {{name := {self.scalar('s', [], d - 2)}, owner := assert_single({u})}})" if first == 'update' \
                    else f"(insert Item {{name := {self.scalar('s', [], d - 2)}, owner := {u}}})"
                tail = f"select {p} {{name, owner: {{name, age, owned: {{name}}, {self.var()} := count(.<owner[is Item])}}}}"
            elif second == 'order':
                pe = f"(insert Order {{buyer := assert_single({u}), items := (select Item limit 2)}})" if first == 'update' \
                    else f"(insert Order {{buyer := {u}, items := (select Item limit 2)}})"
                tail = f"select {p} {{buyer: {{name, friends: {{name}}}}, items: {{name, owner: {{name}}}}, total}}"
            else:
                pe = f"(update User filter .name = {self.scalar('s', [], d - 2)} set {{friends += {u}}})"
                tail = f"select {p} {{name, friends: {{name, age, @since}}, fof: {{name}}}}"
                self.feat.add('update')
            body = f"with {u} := {ue}, {p} := {pe} {tail}"
        elif kind == 'multi-global':
            # several globals; one with a default (it gets a "present" flag parameter) before/after others
            self.feat.add('global')
            gs = r.sample(['lim_n', 'cur_user_name', 'tenant', 'cur_uid'], r.randint(2, 4))
            parts = []
            for g in gs:
                form = r.random()
                if form < 0.5:
                    parts.append(f'(global {g})')
                elif form < 0.75:
                    parts.append(f'exists (global {g})')
                else:
                    parts.append(f'(<str>(global {g}) ?? {self.lit("s")})')
            extra = [self.param(r.choice('is'), optional=False) for _ in range(r.randint(0, 2))]
            form = r.choice(['tuple', 'filter', 'dead'])
            if form == 'tuple':
                body = f'select ({", ".join(parts + extra)})'
            elif form == 'filter':
                body = (f'select User {{name, g := {parts[0]}}} filter .age < ((global lim_n) ?? 5) '
                        f'limit {extra[0] if extra and "int64" in extra[0] else self.lit("i")}')
            else:
                # the globals are bound but (partly) unused
                body = f'with {", ".join(f"w{i} := {p}" for i, p in enumerate(parts))} select {extra[0] if extra else "w0"}'
        elif kind == 'abstract-root':
            self.feat.add('abstract')
            a = r.choice(['Named', 'Timed', 'Named'])
            sh = '{name, [is User].age, [is Item].price, [is Tag].n_items}' if a == 'Named' else '{created, [is User].name}'
            cl = []
            if r.random() < 0.6:
                cl.append(f'filter {"." + ("name" if a == "Named" else "created")} '
                          f'{"= " + self.scalar("s", [], d - 2) if a == "Named" else "< datetime_current()"}')
            if r.random() < 0.5:
                cl.append(f'order by .{"name" if a == "Named" else "created"}')
            if r.random() < 0.4:
                cl.append(f'limit {self.param("i", optional=False)}')
            form = r.choice(['select', 'count', 'update', 'for'])
            if form == 'select':
                body = f'select {a} {sh} ' + ' '.join(cl)
            elif form == 'count':
                body = f'select count((select {a} ' + ' '.join(cl[:1]) + '))'
            elif form == 'update' and a == 'Named':
                self.feat.add('update')
                body = f"update Named filter .name = {self.scalar('s', [], d - 2)} set {{name := .name ++ '!'}}"
            else:
                self.feat.add('for')
                body = f'for x in (select {a} ' + ' '.join(cl[:1]) + f') union (select x {sh[:sh.index(",")] + "}"})'
        else:
            self.feat.add('if-else')
            c = self.scalar('b', [], d - 2) if r.random() < 0.5 else self.param('b', optional=False)
            body = f'select ({self.insert("Tag", [], d - 2)} if {c} else {self.insert("Audit", [], d - 2) if r.random() < 0.5 else "<Tag>{}"})'
        return body

    def malformed(self):
        """statements the compiler should reject (or edge cases it may accept)"""
        r = self.r
        self.feat.add('malformed')
        k = r.choice(['unknown-type', 'unknown-prop', 'type-error', 'missing-required', 'mixed-params', 'card',
                      'dup-with', 'bad-for', 'param-type-clash', 'huge-limit', 'empty-shape', 'self-ref', 'keyword'])
        if k == 'unknown-type':
            return 'select Nope {name}'
        if k == 'unknown-prop':
            return f'select User {{nope}} filter .age > {self.lit("i")}'
        if k == 'type-error':
            return f"select User filter .name = {self.lit('i')}"
        if k == 'missing-required':
            return "insert Item {name := 'x'}"
        if k == 'mixed-params':
            return 'select (<int64>$0, <str>$name)'
        if k == 'card':
            return 'select User {best := .friends}' if r.random() < 0.5 else "insert Order {buyer := User}"
        if k == 'dup-with':
            return 'with a := 1, a := 2 select a'
        if k == 'bad-for':
            return 'for x in 1 union (insert Tag {name := x})'
        if k == 'param-type-clash':
            return 'select (<int64>$p, <str>$p)'
        if k == 'huge-limit':
            return 'select User limit 9223372036854775807'
        if k == 'empty-shape':
            return 'select User {} filter false'
        if k == 'self-ref':
            return 'select User {friends: {friends: {friends: {friends: {name}}}}}'
        return 'select `select` := 1' if r.random() < 0.5 else 'select User {name} order by'


def gen_statement(rnd, maxdepth=None, malformed=False, positional=None):
    g = QueryGen(rnd, maxdepth=maxdepth if maxdepth is not None else rnd.choice([2, 3, 3, 4, 4, 5]),
                 positional=(rnd.random() < 0.2) if positional is None else positional)
    txt = g.malformed() if malformed else g.statement()
    return txt, sorted(g.feat), len(g.params)


# ---- recombination of upstream seeds (keeps them mostly valid)

def recombine(rnd, text):
    """wrap an accepted seed in another construct -> (new text, what)"""
    t = text.strip()
    low = t.lower()
    is_dml = bool(re.match(r'(?is)^(with\b.*?\b)?(insert|update|delete)\b', t)) or ' insert ' in low or ' update ' in low
    k = rnd.choice(['count', 'with', 'for', 'exists', 'tuple', 'param-limit', 'coalesce', 'distinct', 'json', 'if', 'nest-shape'])
    if k == 'count':
        return f'select count(({t}))', k
    if k == 'with':
        return f'with q := ({t}) select (q, count(q))' if not is_dml else f'with q := ({t}) select q', k
    if k == 'for':
        return f'for i in {{1, 2}} union (({t}))' if not is_dml else f'for i in {{1}} union (({t}))', k
    if k == 'exists':
        return f'select exists (({t}))', k
    if k == 'tuple':
        return f'select (({t}), <int64>$n)', k
    if k == 'param-limit':
        return f'select (({t})) limit <int64>$lim', k
    if k == 'coalesce':
        return f'select count((({t})) ?? (({t})))' if not is_dml else f'select count(({t}))', k
    if k == 'distinct':
        return f'select count(distinct (({t})))', k
    if k == 'json':
        return f'select <json>(({t}))', k
    if k == 'if':
        return f'select (({t})) if <bool>$c else {{}}' if not is_dml else f'select count(({t}))', k
    return f'select {{ x := (({t})), y := <str>$s }}', k
