"""C14 — type descriptors describe query types faithfully and uniquely
(edb/server/compiler/sertypes.py, edb/common/uuidgen.py).

Proof: coq/theories/C14 (model of describe / describe_params / describe_input_shape /
       parse / uuid5; theorems in Props.v for every type term).
Tie:   (a) translator harness/translate/c14_tags.py -> Gen_Tags.v (tags, flags, ops,
           cardinality values, known ids, uuid5 construction), fail-closed;
       (b) correspondence: the real sertypes functions run on REAL schema objects built
           from generated type terms (harness/impl/c14_impl.py); the OCaml-extracted
           model runs on the term re-read from those objects; stream bytes, root id and
           the decoded description (repo's own parse vs. model parse) are compared exactly;
       monitors: faithfulness (decoded == type), per-run id -> stream functionality and
       id injectivity on the real outputs.
       call sequences: several StateSerializerFactory.make() / make_compilation_config_serializer /
       describe_params calls on ONE real factory (per-protocol cached Context + Context.derive());
       the model describes every call on a COPY of the prepared state (Model.make_state), so any
       aliasing / growth / stale positions in the real reuse path is a model-vs-implementation
       disagreement; monitors: fresh factory == Nth reuse, equal inputs => identical bytes+id,
       cached context untouched, decoded state shape == expected, field names.
Tier:  this is the sertypes tier; the EdgeQL compiler is not run (needs the std schema).
"""
from __future__ import annotations

import json
import os
import subprocess
import sys

import lib

PROP = 'C14'
THEOREMS = [
    'C14_codec_roundtrip', 'C14_stream_parses', 'C14_uuid5_wf', 'C14_root_id', 'C14_roundtrip',
    'C14_emitted_once', 'C14_v2_lengths', 'C14_idstr_collection', 'C14_idstr_shape',
    'C14_id_injective', 'C14_id_functional',
]
REFUTED = ['C14_colon_join_refuted', 'C14_shape_source_refuted', 'C14_collection_name_refuted',
           'C14_named_empty_tuple_refuted', 'C14_parse_annotations_refuted']
IMPL = os.path.join(lib.VERIF, 'harness', 'impl', 'c14_impl.py')
TRANSLATOR = os.path.join(lib.VERIF, 'harness', 'translate', 'c14_tags.py')
GEN_V = os.path.join(lib.COQ, 'theories', 'C14', 'Gen_Tags.v')

sys.path.insert(0, os.path.join(lib.VERIF, 'harness', 'impl'))


# ---------------------------------------------------------------- term syntax (shared with the impl)

def hx(s):
    b = s.encode('utf-8')
    return b.hex() if b else '-'


def b01(x):
    return '1' if x else '0'


def e_sc(sc):
    i, name, ab, anc, labels = sc
    return ' '.join([i, hx(name), b01(ab), str(len(anc))] + [e_sc(a) for a in anc]
                    + [str(len(labels))] + [hx(x) for x in labels])


def e_ot(ot):
    if ot[0] == 'R':
        return f'R {ot[1]} {hx(ot[2])}'
    _, i, name, un, it = ot
    return ' '.join(['C', i, hx(name), str(len(un))] + [e_ot(x) for x in un]
                    + [str(len(it))] + [e_ot(x) for x in it])


def e_ptr(p):
    name, link, req, multi, ty, ot = p
    return ' '.join([hx(name), b01(link), b01(req), b01(multi), e_ty(ty), e_ot(ot)])


def e_sh(sh):
    ot, free, impl, ptrs, lps = sh
    return ' '.join([e_ot(ot), b01(free), b01(impl), str(len(ptrs))] + [e_ptr(p) for p in ptrs]
                    + [str(len(lps))] + [e_ptr(p) for p in lps])


def e_ty(ty):
    tag = ty[0]
    if tag == 's':
        return 's ' + e_sc(ty[1])
    if tag == 't':
        _, named, pers, name, els = ty
        return ' '.join(['t', b01(named), b01(pers), hx(name), str(len(els))]
                        + [hx(n) + ' ' + e_ty(t) for n, t in els])
    if tag in 'arm':
        _, pers, name, el = ty
        return ' '.join([tag, b01(pers), hx(name), e_ty(el)])
    if tag == 'o':
        return 'o ' + e_sh(ty[1])
    if tag == 'i':
        _, base, els = ty
        return ' '.join(['i', hx(base), str(len(els))] + [f'{hx(n)} {c} {e_ty(t)}' for n, c, t in els])
    raise ValueError(tag)


def depth(ty):
    tag = ty[0]
    if tag == 's':
        return 0
    if tag == 't':
        return 1 + max([depth(t) for _, t in ty[4]] + [0])
    if tag in 'arm':
        return 1 + depth(ty[3])
    if tag == 'o':
        _, _, _, ptrs, lps = ty[1]
        return 1 + max([depth(p[4]) for p in ptrs + lps] + [0])
    if tag == 'i':
        return 1 + max([depth(t) for _, _, t in ty[2]] + [0])
    return 0


# ---------------------------------------------------------------- generators

ANYSCALAR = ('00000000000000000000000000000a01', 'std::anyscalar', True, [], [])
ANYREAL = ('00000000000000000000000000000a02', 'std::anyreal', True, [ANYSCALAR], [])
ANYINT = ('00000000000000000000000000000a03', 'std::anyint', True, [ANYREAL, ANYSCALAR], [])
ANYENUM = ('00000000000000000000000000000a04', 'std::anyenum', True, [ANYSCALAR], [])
STD = {
    'uuid': ('00000000000000000000000000000100', 'std::uuid', False, [ANYSCALAR], []),
    'str': ('00000000000000000000000000000101', 'std::str', False, [ANYSCALAR], []),
    'bytes': ('00000000000000000000000000000102', 'std::bytes', False, [ANYSCALAR], []),
    'int16': ('00000000000000000000000000000103', 'std::int16', False, [ANYINT, ANYREAL, ANYSCALAR], []),
    'int64': ('00000000000000000000000000000105', 'std::int64', False, [ANYINT, ANYREAL, ANYSCALAR], []),
    'float64': ('00000000000000000000000000000107', 'std::float64', False, [ANYREAL, ANYSCALAR], []),
    'bool': ('00000000000000000000000000000109', 'std::bool', False, [ANYSCALAR], []),
    'datetime': ('0000000000000000000000000000010a', 'std::datetime', False, [ANYSCALAR], []),
    'local_date': ('0000000000000000000000000000010c', 'std::cal::local_date', False, [ANYSCALAR], []),
    'json': ('0000000000000000000000000000010f', 'std::json', False, [ANYSCALAR], []),
}
FREE = ('R', '00000000000000000000000000000b02', 'std::FreeObject')

PLAIN_NAMES = ['id', 'name', 'a', 'b', 'c', 'x', 'y', 'title', 'items', 'owner', 'n1', 'nn', 'value']
SPECIAL_NAMES = ['__tid__', '__tname__', '__type__', 'id']
ODD_NAMES = ['a:b', 'b:c', 'a', ':', 'a::b', 'x:', ':x', 'naïve', '名前', 'with space',
             'a,b', 'True', 'None', '0', '1', 'a\U0001f600', 'A' * 40, 'q;[', ']', 'False;[]']


class Gen:
    def __init__(self, rnd, odd=False, maxdepth=4):
        self.r = rnd
        self.odd = odd
        self.maxdepth = maxdepth
        self.n = 0
        self.scalars = list(STD.values())
        self.enums = []
        self.objs = []
        self.compounds = []
        self.free_objs = []
        r = rnd
        for k in range(r.randint(0, 3)):            # user scalars: chains over std / user scalars
            base = r.choice(self.scalars)
            anc = [base] + list(base[3])
            if r.random() < 0.2:                    # abstract intermediate
                mid = (self.uid(), f'default::Abs{k}', True, anc, [])
                anc = [mid] + anc
            self.scalars.append((self.uid(), f'default::S{k}', False, anc, []))
        for k in range(r.randint(0, 2)):
            labels = [self.label() for _ in range(r.randint(1, 4))]
            anc = [ANYENUM, ANYSCALAR] if r.random() < 0.8 else []
            self.enums.append((self.uid(), f'default::E{k}', False, anc, labels))
        if r.random() < 0.15 and self.enums:        # enum extending an enum
            b = r.choice(self.enums)
            self.enums.append((self.uid(), 'default::E9', False, [b] + list(b[3]), list(b[4])))
        if odd and r.random() < 0.3:                # abstract scalar without a concrete base
            self.scalars.append((self.uid(), 'default::Orphan', True, [ANYSCALAR], []))
        for k in range(r.randint(1, 4)):
            self.objs.append(('R', self.uid(), f'default::T{k}'))
        if r.random() < 0.4 and len(self.objs) >= 2:
            comps = r.sample(self.objs, r.randint(2, min(3, len(self.objs))))
            nm = 'default::(' + ' | '.join(sorted(c[2] for c in comps)) + ')'
            self.compounds.append(('C', self.uid(), nm, comps, []))
        if r.random() < 0.2 and len(self.objs) >= 2:
            comps = r.sample(self.objs, 2)
            nm = 'default::(' + ' & '.join(sorted(c[2] for c in comps)) + ')'
            self.compounds.append(('C', self.uid(), nm, [], comps))
        if odd and r.random() < 0.3:
            self.free_objs.append(('R', self.uid(), 'default::UserFree'))

    def uid(self):
        return '%032x' % self.r.getrandbits(128)

    def label(self):
        r = self.r
        if self.odd and r.random() < 0.3:
            return r.choice(ODD_NAMES)
        return r.choice(['Red', 'Green', 'Blue', 'a', 'b', 'One', 'Two', 'été', 'x y'])

    def name(self):
        r = self.r
        x = r.random()
        if self.odd and x < 0.35:
            return r.choice(ODD_NAMES)
        if x < 0.1:
            return r.choice(SPECIAL_NAMES)
        return r.choice(PLAIN_NAMES)

    def names(self, k, distinct=True):
        out = []
        tries = 0
        while len(out) < k and tries < 200:
            tries += 1
            n = self.name()
            if distinct and n in out:
                continue
            out.append(n)
        return out

    def scalar(self):
        r = self.r
        if self.enums and r.random() < 0.2:
            return r.choice(self.enums)
        return r.choice(self.scalars)

    def ty(self, d, allow_shape=True):
        r = self.r
        x = r.random()
        if d <= 0 or x < 0.3:
            return ('s', self.scalar())
        if x < 0.5:
            k = r.choice([0, 1, 1, 2, 2, 3, 4]) if d > 1 else r.choice([1, 2])
            named = r.random() < 0.5 and k > 0
            if self.odd and k == 0 and r.random() < 0.5:
                named = True
            nms = self.names(k) if named else [str(i) for i in range(k)]
            return ('t', named, r.random() < 0.15, '', [(n, self.ty(d - 1, allow_shape)) for n in nms])
        if x < 0.65:
            el = self.ty(d - 1, allow_shape)
            if el[0] == 'a':              # nested arrays are refused by the schema layer
                el = ('t', False, False, '', [('0', el)])
            return ('a', r.random() < 0.15, '', el)
        if x < 0.72:
            return ('r', r.random() < 0.1, '', ('s', r.choice(self.scalars)))
        if x < 0.78:
            return ('m', r.random() < 0.1, '', ('s', r.choice(self.scalars)))
        if not allow_shape:
            return ('s', self.scalar())
        return ('o', self.shape(d - 1))

    def objtype(self):
        r = self.r
        if self.compounds and r.random() < 0.25:
            return r.choice(self.compounds)
        return r.choice(self.objs)

    def shape(self, d, link_target=False):
        r = self.r
        x = r.random()
        if x < 0.2:
            mt, free = FREE, True
        elif self.free_objs and x < 0.3:
            mt, free = r.choice(self.free_objs), True
        else:
            mt, free = self.objtype(), False
        impl = (not free) and r.random() < 0.6
        k = r.choice([0, 1, 2, 2, 3, 3, 4, 5])
        nms = self.names(k)
        if impl and 'id' not in nms and r.random() < 0.8:
            nms = ['id'] + nms
        ptrs = []
        for nm in nms:
            if nm == 'id' and impl and r.random() < 0.93:
                ptrs.append((nm, False, True, False, ('s', STD['uuid']), mt if not free else FREE))
                continue
            if nm == '__tid__' and r.random() < 0.8:
                ptrs.append((nm, False, True, False, ('s', STD['uuid']), mt))
                continue
            if nm == '__tname__' and r.random() < 0.8:
                ptrs.append((nm, False, True, False, ('s', STD['str']), mt))
                continue
            link = r.random() < 0.35 and d > 0
            req = r.random() < 0.5
            multi = r.random() < 0.4
            if link:
                tgt = ('o', self.shape(d - 1, link_target=True))
            else:
                tgt = self.ty(d, allow_shape=self.odd and r.random() < 0.2)
            y = r.random()
            if free:
                src = mt
            elif y < 0.75:
                src = mt
            else:
                src = self.objtype()
            ptrs.append((nm, link, req, multi, tgt, src))
        lps = []
        if (link_target and r.random() < 0.4) or r.random() < 0.05:
            for nm in self.names(r.randint(1, 2)):
                lps.append((nm, False, r.random() < 0.3, r.random() < 0.15,
                            self.ty(min(d, 1), allow_shape=False), mt))
        return (mt, free, impl, ptrs, lps)

    def config(self):
        r = self.r
        pv = r.choice(['1.0', '2.0', '2.0', '3.0'])
        inline = r.random() < 0.3
        follow = r.random() < 0.9
        flt = '' if r.random() < 0.85 else r.choice(['n', 'a', 'x', '__t', 'id', 'naï'])
        return pv, inline, follow, flt


def gen_describe(rnd, odd=False, maxdepth=4):
    g = Gen(rnd, odd, maxdepth)
    pv, inline, follow, flt = g.config()
    d = rnd.randint(1, maxdepth)
    t = g.ty(d) if rnd.random() < 0.5 else ('o', g.shape(d - 1))
    return f'D {pv} {b01(inline)} {b01(follow)} {hx(flt)} {e_ty(t)}', t


def gen_params(rnd, odd=False):
    g = Gen(rnd, odd, 3)
    pv = rnd.choice(['1.0', '2.0', '3.0'])
    k = rnd.choice([0, 1, 1, 2, 2, 3, 4, 6])
    if rnd.random() < 0.5:
        nms = [str(i) for i in range(k)]
    else:
        nms = g.names(k)
    ps = [(n, rnd.random() < 0.6, g.ty(rnd.randint(0, 2), allow_shape=False)) for n in nms]
    return f'P {pv} {len(ps)}' + ''.join(f' {hx(n)} {b01(r)} {e_ty(t)}' for n, r, t in ps), ps


def gen_input(rnd):
    g = Gen(rnd, False, 2)
    pv = rnd.choice(['1.0', '2.0', '3.0'])

    def inp(d):
        k = rnd.randint(0, 4)
        els = []
        for n in g.names(k):
            c = rnd.choice('oAmMoo')
            if d > 0 and c in 'oA' and rnd.random() < 0.3:
                els.append((n, c, inp(d - 1)))
            else:
                els.append((n, c, g.ty(rnd.randint(0, 2), allow_shape=False)))
        return ('i', 'std::FreeObject', els)
    t = inp(2)
    return f'I {pv} {e_ty(t)}', t


def mutate_stream(rnd, pv, data: bytes):
    """malformed / edge descriptor streams derived from a valid one"""
    b = bytearray(data)
    x = rnd.random()
    if not b:
        return bytes(b)
    if x < 0.25:
        return bytes(b[:rnd.randrange(len(b))])                  # truncation
    if x < 0.55:
        i = rnd.randrange(len(b)); b[i] = rnd.randrange(256)      # byte flip
        return bytes(b)
    if x < 0.7:
        i = rnd.randrange(len(b)); b[i] = (b[i] + rnd.choice((1, 255, 128))) % 256
        return bytes(b)
    if x < 0.8:
        i = rnd.randrange(len(b)); del b[i:i + rnd.randint(1, 4)]
        return bytes(b)
    if x < 0.9:
        i = rnd.randrange(len(b))
        b[i:i] = bytes(rnd.randrange(256) for _ in range(rnd.randint(1, 4)))
        return bytes(b)
    return bytes(b) + bytes(rnd.choice((0x80, 0x90, 0xfe, 0xff, 0x0d, 0x0e, 0x7f)) for _ in range(1)) \
        + bytes(rnd.randrange(256) for _ in range(rnd.randint(0, 24)))



# ---------------------------------------------------------------- parsing case lines back

def unhx(t):
    return '' if t == '-' else bytes.fromhex(t).decode('utf-8')


class Toks:
    def __init__(self, line):
        self.t = line.split(' ')
        self.i = 0

    def next(self):
        v = self.t[self.i]
        self.i += 1
        return v

    def flag(self):
        return self.next() == '1'

    def num(self):
        return int(self.next())

    def s(self):
        return unhx(self.next())


def p_sc(k):
    i = k.next(); name = k.s(); ab = k.flag()
    anc = [p_sc(k) for _ in range(k.num())]
    labels = [k.s() for _ in range(k.num())]
    return (i, name, ab, anc, labels)


def p_ot(k):
    tag = k.next()
    if tag == 'R':
        return ('R', k.next(), k.s())
    i = k.next(); name = k.s()
    un = [p_ot(k) for _ in range(k.num())]
    it = [p_ot(k) for _ in range(k.num())]
    return ('C', i, name, un, it)


def p_ptr(k):
    name = k.s(); link = k.flag(); req = k.flag(); multi = k.flag()
    ty = p_ty(k)
    return (name, link, req, multi, ty, p_ot(k))


def p_ty(k):
    tag = k.next()
    if tag == 's':
        return ('s', p_sc(k))
    if tag == 't':
        named = k.flag(); pers = k.flag(); name = k.s()
        els = [(k.s(), p_ty(k)) for _ in range(k.num())]
        return ('t', named, pers, name, els)
    if tag in 'arm':
        pers = k.flag(); name = k.s()
        return (tag, pers, name, p_ty(k))
    if tag == 'o':
        ot = p_ot(k); free = k.flag(); impl = k.flag()
        ptrs = [p_ptr(k) for _ in range(k.num())]
        lps = [p_ptr(k) for _ in range(k.num())]
        return ('o', (ot, free, impl, ptrs, lps))
    if tag == 'i':
        base = k.s()
        els = []
        for _ in range(k.num()):
            nm = k.s(); c = k.next(); els.append((nm, c, p_ty(k)))
        return ('i', base, els)
    raise ValueError('bad type tag ' + tag)


def parse_case(line):
    """observed case line -> dict"""
    k = Toks(line)
    kind = k.next()
    if kind == 'D':
        pv = k.next(); inline = k.flag(); follow = k.flag(); flt = k.s()
        uu = p_sc(k)
        return {'kind': 'D', 'pv': pv, 'inline': inline, 'follow': follow, 'flt': flt, 'uuid': uu, 'ty': p_ty(k)}
    if kind == 'P':
        pv = k.next()
        ps = []
        for _ in range(k.num()):
            nm = k.s(); req = k.flag(); ps.append((nm, req, p_ty(k)))
        return {'kind': 'P', 'pv': pv, 'params': ps}
    if kind == 'I':
        pv = k.next()
        return {'kind': 'I', 'pv': pv, 'ty': p_ty(k)}
    if kind == 'X':
        return {'kind': 'X', 'pv': k.next(), 'hex': k.next()}
    if kind == 'S':
        toks = line.split(' ')
        ms = [toks[j + 1] for j, t in enumerate(toks) if t == 'M' and j + 1 < len(toks) and toks[j + 1][:1].isdigit()]
        reuse = len(ms) - len(set(ms))
        return {'kind': 'S', 'calls': int(toks[1]), 'reuse': reuse}
    raise ValueError(kind)


# ---------------------------------------------------------------- skeleton / difference classes

def skel(t, cfg):
    """the structure the property talks about: names, order, cardinalities, element types,
    tuple/array/range structure, enum labels (through the scalar id)"""
    tag = t[0]
    if tag == 's':
        return ('s', t[1][0], tuple(t[1][4]))
    if tag == 't':
        _, named, pers, name, els = t
        return ('t', named, tuple(n for n, _ in els) if named else None, tuple(skel(e, cfg) for _, e in els))
    if tag in 'arm':
        return (tag, skel(t[3], cfg))
    if tag == 'o':
        ot, free, impl, ptrs, lps = t[1]
        els = []
        for (nm, link, req, multi, ty, src) in ptrs:
            if not nm.startswith(cfg['flt']):
                continue
            sub = ('s', cfg['uuid'][0], ()) if (link and not cfg['follow']) else skel(ty, cfg)
            els.append((nm[len(cfg['flt']):], False, link, req, multi, sub))
        for (nm, link, req, multi, ty, src) in lps:
            els.append((nm, True, False, req, multi, skel(ty, cfg)))
        return ('o', ot[2], impl, tuple(els))
    if tag == 'i':
        return ('i', t[1], tuple((n, c, skel(e, cfg)) for n, c, e in t[2]))
    raise ValueError(tag)


def erase(t, what, cfg=None):
    """erase from an observed term the attributes named in `what`
    ('src': element sources, 'cname': collection names, 'colon': names -> their ':'-join)
    and everything the configuration makes invisible (pointers removed by name_filter,
    link targets when follow_links is off)"""
    tag = t[0]
    flt = cfg['flt'] if cfg else ''
    follow = cfg['follow'] if cfg else True
    if tag == 's':
        return t
    if tag == 't':
        _, named, pers, name, els = t
        els2 = [(n, erase(e, what, cfg)) for n, e in els]
        if 'colon' in what:
            # different element names => different schema types: their names and whether they are
            # stored in the schema may differ as a consequence
            pers, name = None, ''
        if 'colon' in what and named:
            return ('t', named, pers, '' if 'cname' in what else name,
                    (':'.join(n for n, _ in els2), tuple(e for _, e in els2)))
        return ('t', named, pers, '' if 'cname' in what else name, tuple(els2))
    if tag in 'arm':
        if 'colon' in what:
            return (tag, None, '', erase(t[3], what, cfg))
        return (tag, t[1], '' if 'cname' in what else t[2], erase(t[3], what, cfg))
    if tag == 'o':
        ot, free, impl, ptrs, lps = t[1]

        def ep(p, is_lp):
            nm, link, req, multi, ty, src = p
            tgt = None if (link and not follow and not is_lp) else erase(ty, what, cfg)
            return (nm, link, req, multi, tgt, None if ('src' in what or is_lp or free) else src)
        pp = [ep(p, False) for p in ptrs if p[0].startswith(flt)]
        ll = [ep(p, True) for p in lps]
        if 'colon' in what:
            allp = pp + ll
            return ('o', ot, free, impl, ':'.join(p[0] for p in allp), tuple(p[1:] for p in allp), len(pp))
        return ('o', ot, free, impl, tuple(pp), tuple(ll))
    if tag == 'i':
        return t
    raise ValueError(tag)


def freeze(x):
    if isinstance(x, (list, tuple)):
        return tuple(freeze(y) for y in x)
    return x


CLASSES = [      # tried in this order: 'colon' also blanks collection names, so it comes last
    ('C14-shape-source', 'src'),
    ('C14-collection-name', 'cname'),
    ('C14-colon-join', 'colon'),
]


def explain(t1, t2, cfg=None):
    """smallest set of known weak points that explains the difference of two observed terms
    (None = not explained by them)"""
    import itertools
    for r in range(0, len(CLASSES) + 1):
        for combo in itertools.combinations(CLASSES, r):
            what = {w for _, w in combo}
            if freeze(erase(t1, what, cfg)) == freeze(erase(t2, what, cfg)):
                return [fid for fid, _ in combo]
    return None


# ---------------------------------------------------------------- mutations (same schema, same config)

def subterm_paths(t, path=()):
    yield path, t
    tag = t[0]
    if tag == 't':
        for i, (_, e) in enumerate(t[4]):
            yield from subterm_paths(e, path + (('t', i),))
    elif tag in 'arm':
        yield from subterm_paths(t[3], path + ((tag, 0),))
    elif tag == 'o':
        ot, free, impl, ptrs, lps = t[1]
        for i, p in enumerate(ptrs):
            yield from subterm_paths(p[4], path + (('p', i),))
        for i, p in enumerate(lps):
            yield from subterm_paths(p[4], path + (('l', i),))


def replace_at(t, path, f):
    if not path:
        return f(t)
    (k, i), rest = path[0], path[1:]
    if k == 't':
        els = list(t[4]); els[i] = (els[i][0], replace_at(els[i][1], rest, f))
        return ('t', t[1], t[2], t[3], els)
    if k in 'arm':
        return (t[0], t[1], t[2], replace_at(t[3], rest, f))
    ot, free, impl, ptrs, lps = t[1]
    ptrs = list(ptrs); lps = list(lps)
    if k == 'p':
        p = ptrs[i]; ptrs[i] = p[:4] + (replace_at(p[4], rest, f), p[5])
    else:
        p = lps[i]; lps[i] = p[:4] + (replace_at(p[4], rest, f), p[5])
    return ('o', (ot, free, impl, ptrs, lps))


def mutate(g, t):
    """one small change of a root type over the same environment; returns (kind, t') or None.
    kinds starting with 'weak:' are built to keep the content-derived id unchanged."""
    r = g.r
    paths = list(subterm_paths(t))
    inner = [ps for ps in paths if ps[1][0] != 's']
    path, sub = r.choice(inner) if (inner and r.random() < 0.75) else r.choice(paths)
    tag = sub[0]
    x = r.random()
    if tag == 's':
        other = g.scalar()
        if other[0] == sub[1][0]:
            return None
        return 'scalar', replace_at(t, path, lambda _: ('s', other))
    if tag == 't':
        _, named, pers, name, els = sub
        if named and len(els) >= 2 and x < 0.3:
            i = r.randrange(len(els) - 1)
            a, b = els[i][0], els[i + 1][0]
            if ':' not in a + b and a + ':' + b not in [n for n, _ in els]:
                # `a:b`,c  <->  a,`b:c` : keeps ':'.join(names)
                nb = r.choice(['u', 'v', 'w'])
                e1 = list(els); e2 = list(els)
                e1[i] = (a + ':' + nb, els[i][1]); e1[i + 1] = (b, els[i + 1][1])
                e2[i] = (a, els[i][1]); e2[i + 1] = (nb + ':' + b, els[i + 1][1])
                if len({n for n, _ in e1}) == len(e1) and len({n for n, _ in e2}) == len(e2) \
                        and g_same_types(els[i][1], els[i + 1][1]):
                    return 'weak:colon', (replace_at(t, path, lambda _: ('t', named, pers, name, e1)),
                                          replace_at(t, path, lambda _: ('t', named, pers, name, e2)))
            return None
        if len(els) >= 2 and x < 0.5:
            i, j = r.sample(range(len(els)), 2)
            e = list(els)
            if named:
                e[i], e[j] = e[j], e[i]
            else:
                e[i], e[j] = (e[i][0], e[j][1]), (e[j][0], e[i][1])
            return 'swap', replace_at(t, path, lambda _: ('t', named, pers, name, e))
        if named and els and x < 0.7:
            i = r.randrange(len(els))
            nn = g.name()
            if nn in [n for n, _ in els]:
                return None
            e = list(els); e[i] = (nn, e[i][1])
            return 'rename', replace_at(t, path, lambda _: ('t', named, pers, name, e))
        if els and x < 0.85:
            e = list(els); del e[r.randrange(len(e))]
            if not named:
                e = [(str(i), x[1]) for i, x in enumerate(e)]
            if named and not e:
                return None
            return 'drop', replace_at(t, path, lambda _: ('t', named, pers, name, e))
        if els:
            if named:
                e = [(str(i), x[1]) for i, x in enumerate(els)]
            else:
                nms = g.names(len(els))
                if len(nms) < len(els):
                    return None
                e = [(n, x[1]) for n, x in zip(nms, els)]
            return 'named', replace_at(t, path, lambda _: ('t', not named, pers, name, e))
        return None
    if tag in 'arm':
        if x < 0.5:
            return 'unwrap', replace_at(t, path, lambda s: s[3])
        k2 = r.choice([k for k in 'arm' if k != tag])
        if k2 == 'a' and path and path[-1][0] == 'a':
            return None
        if sub[3][0] == 'a' and k2 == 'a':
            return None
        return 'rekind', replace_at(t, path, lambda s: (k2, s[1], s[2], s[3]))
    if tag == 'o':
        ot, free, impl, ptrs, lps = sub[1]
        if x < 0.25 and ptrs and not free:
            i = r.randrange(len(ptrs))
            p = ptrs[i]
            src2 = g.objtype()
            if src2[1] == p[5][1]:
                return None
            pp = list(ptrs); pp[i] = p[:5] + (src2,)
            return 'weak:source', replace_at(t, path, lambda _: ('o', (ot, free, impl, pp, lps)))
        if x < 0.4 and ptrs:
            i = r.randrange(len(ptrs))
            p = ptrs[i]
            if p[0] in ('id', '__tid__', '__tname__'):
                return None
            pp = list(ptrs)
            if r.random() < 0.5:
                pp[i] = (p[0], p[1], not p[2], p[3], p[4], p[5])
            else:
                pp[i] = (p[0], p[1], p[2], not p[3], p[4], p[5])
            return 'card', replace_at(t, path, lambda _: ('o', (ot, free, impl, pp, lps)))
        if x < 0.55 and ptrs:
            i = r.randrange(len(ptrs))
            nn = g.name()
            if nn in [p[0] for p in ptrs] or ptrs[i][0] in ('id', '__tid__', '__tname__') \
                    or nn in ('id', '__tid__', '__tname__'):
                return None
            pp = list(ptrs); pp[i] = (nn,) + ptrs[i][1:]
            return 'rename', replace_at(t, path, lambda _: ('o', (ot, free, impl, pp, lps)))
        if x < 0.65 and len(ptrs) >= 2:
            i, j = r.sample(range(len(ptrs)), 2)
            pp = list(ptrs); pp[i], pp[j] = pp[j], pp[i]
            return 'swap', replace_at(t, path, lambda _: ('o', (ot, free, impl, pp, lps)))
        if x < 0.75 and ptrs:
            pp = list(ptrs); del pp[r.randrange(len(pp))]
            return 'drop', replace_at(t, path, lambda _: ('o', (ot, free, impl, pp, lps)))
        if x < 0.85 and not free:
            if any(p[0] == 'id' for p in ptrs) and not all(
                    p[4] == ('s', STD['uuid']) and not p[3] for p in ptrs if p[0] == 'id'):
                return None
            return 'implicit', replace_at(t, path, lambda _: ('o', (ot, free, not impl, ptrs, lps)))
        if not free:
            ot2 = g.objtype()
            if ot2[2] == ot[2]:
                return None
            pp = [p[:5] + (ot2 if p[5][1] == ot[1] else p[5],) for p in ptrs]
            ll = [p[:5] + (ot2,) for p in lps]
            return 'basetype', replace_at(t, path, lambda _: ('o', (ot2, free, impl, pp, ll)))
    return None


def g_same_types(a, b):
    return True


def has_shape(t):
    return any(s[0] == 'o' for _, s in subterm_paths(t))


def fix_pers(salt, t):
    """within one schema a collection type is either stored in the schema or not: make the
    persistent flag a function of (environment, structure); collections over view types are
    always ephemeral"""
    import hashlib
    tag = t[0]
    if tag == 't':
        els = [(n, fix_pers(salt, e)) for n, e in t[4]]
        t2 = ('t', t[1], False, '', els)
    elif tag in 'arm':
        t2 = (tag, False, '', fix_pers(salt, t[3]))
    elif tag == 'o':
        ot, free, impl, ptrs, lps = t[1]
        f = lambda p: p[:4] + (fix_pers(salt, p[4]), p[5])
        return ('o', (ot, free, impl, [f(p) for p in ptrs], [f(p) for p in lps]))
    else:
        return t
    if has_shape(t2):
        return t2
    h = hashlib.sha256((salt + e_ty(t2)).encode()).digest()[0]
    pers = h % 6 == 0
    return ('t', t2[1], pers, '', t2[4]) if tag == 't' else (tag, pers, '', t2[3])


def gen_family(rnd, odd=False, maxdepth=4):
    """a root type and a few one-step variations of it over the SAME environment and config;
    returns (list of case lines, list of (kind) per line)"""
    g = Gen(rnd, odd, maxdepth)
    pv, inline, follow, flt = g.config()
    d = rnd.randint(1, maxdepth)
    t = g.ty(d) if rnd.random() < 0.5 else ('o', g.shape(d - 1))
    head = f'D {pv} {b01(inline)} {b01(follow)} {hx(flt)} '
    salt = '%x' % rnd.getrandbits(64)
    e_ty0 = e_ty
    e_tyf = lambda x: e_ty0(fix_pers(salt, x))
    lines = [head + e_tyf(t)]
    kinds = ['root']
    for _ in range(rnd.randint(1, 4)):
        m = mutate(g, t)
        if m is None:
            continue
        kind, t2 = m
        if kind == 'weak:colon':
            lines += [head + e_tyf(t2[0]), head + e_tyf(t2[1])]
            kinds += [kind, kind]
        else:
            lines.append(head + e_tyf(t2))
            kinds.append(kind)
    if pv != '1.0' and has_shape(t) and t[0] in 'tarm' and rnd.random() < 0.5:
        lines.append(head + f'@{rnd.randint(5, 40)} ' + e_tyf(t))    # other generated view names
        kinds.append('weak:viewname')
    return lines, kinds


# ---------------------------------------------------------------- call sequences (context reuse)

SETTING_POOL = [('allow_bare_ddl', 'str', False, False, False), ('query_timeout', 'int64', False, True, False),
                ('apply_policies', 'bool', False, True, False), ('tags', 'str', True, False, False),
                ('listen_port', 'int64', False, False, True), ('simple_scoping', 'bool', False, True, False),
                ('ids', 'int64', True, True, False)]
GLOBAL_NAMES = ['g1', 'g2', 'cur_user', 'tenant', 'flags', 'limits']


def gen_sequence(rnd):
    """S case: several StateSerializerFactory.make() calls (same / different user schemas, same /
    different protocol versions, exact repeats) on ONE factory, interleaved with the compilation
    config serializer and describe_params"""
    settings = rnd.sample(SETTING_POOL, rnd.randint(1, 5))

    def gty(d=2):
        x = rnd.random()
        sc = ('s', rnd.choice([STD['str'], STD['int64'], STD['bool'], STD['float64'], STD['json']]))
        if d <= 0 or x < 0.55:
            return sc
        if x < 0.8:
            el = gty(d - 1)
            if el[0] == 'a':
                el = ('t', False, False, '', [('0', el)])
            return ('a', False, '', el)
        k = rnd.randint(1, 3)
        named = rnd.random() < 0.4
        nms = rnd.sample(['a', 'b', 'c', 'x'], k) if named else [str(i) for i in range(k)]
        return ('t', named, False, '', [(n, gty(d - 1)) for n in nms])

    def mcall(pv):
        gl = [(n, rnd.random() < 0.3, rnd.random() < 0.2, gty())
              for n in rnd.sample(GLOBAL_NAMES, rnd.choice([0, 1, 1, 2, 3]))]
        ex = [(n, rnd.choice(['str', 'int64', 'bool']), rnd.random() < 0.3)
              for n in rnd.sample(['opt', 'level', 'names'], rnd.choice([0, 0, 1, 2]))]
        return ('M', pv, gl, ex)
    main_pv = rnd.choice(['1.0', '2.0', '2.0', '3.0'])
    calls = []
    for _ in range(rnd.randint(2, 6)):
        x = rnd.random()
        ms = [c for c in calls if c[0] == 'M']
        if ms and x < 0.3:
            calls.append(rnd.choice(ms))                              # exact repeat
        elif ms and x < 0.4:
            c = rnd.choice(ms)
            calls.append(('M', rnd.choice(['1.0', '2.0', '3.0']), c[2], c[3]))   # same schema, other version
        elif x < 0.5:
            calls.append(('K',))
        elif x < 0.6:
            pc = [c for c in calls if c[0] == 'P']
            if pc and rnd.random() < 0.4:
                calls.append(rnd.choice(pc))                          # exact repeat of a describe_params call
            else:
                k = rnd.randint(0, 3)
                calls.append(('P', rnd.choice(['1.0', '2.0']),
                              [(str(i), rnd.random() < 0.5, gty(1)) for i in range(k)]))
        else:
            calls.append(mcall(main_pv if rnd.random() < 0.8 else rnd.choice(['1.0', '2.0', '3.0'])))
    return enc_sequence(settings, calls), (settings, calls)


def enc_sequence(settings, calls):
    out = [f'S {len(settings)}'] + [f'{hx(n)} {k} {b01(so)} {b01(af)} {b01(sy)}' for n, k, so, af, sy in settings]
    out.append(str(len(calls)))
    for c in calls:
        if c[0] == 'M':
            _, pv, gl, ex = c
            out.append(f'M {pv} {len(gl)}' + ''.join(f' {hx(n)} {b01(r)} {b01(m)} {e_ty(t)}' for n, r, m, t in gl)
                       + f' {len(ex)}' + ''.join(f' {hx(n)} {k} {b01(m)}' for n, k, m in ex))
        elif c[0] == 'K':
            out.append('K')
        else:
            _, pv, ps = c
            out.append(f'P {pv} {len(ps)}' + ''.join(f' {hx(n)} {b01(r)} {e_ty(t)}' for n, r, t in ps))
    return ' '.join(out)


def shrink_sequence(seq, still_fails):
    """drop calls, then globals / extension properties / settings, while the failure persists"""
    settings, calls = seq
    changed = True
    while changed:
        changed = False
        cands = []
        for i in range(len(calls)):
            if len(calls) > 1:
                cands.append((settings, calls[:i] + calls[i + 1:]))
        for i, c in enumerate(calls):
            if c[0] == 'M':
                for j in range(len(c[2])):
                    cands.append((settings, calls[:i] + [('M', c[1], c[2][:j] + c[2][j + 1:], c[3])] + calls[i + 1:]))
                for j in range(len(c[3])):
                    cands.append((settings, calls[:i] + [('M', c[1], c[2], c[3][:j] + c[3][j + 1:])] + calls[i + 1:]))
        for i in range(len(settings)):
            if len(settings) > 1:
                cands.append((settings[:i] + settings[i + 1:], calls))
        cands = cands[:60]
        if not cands:
            break
        fl = still_fails([enc_sequence(*c) for c in cands])
        for c, f in zip(cands, fl):
            if f:
                settings, calls = c
                changed = True
                break
    return enc_sequence(settings, calls)


def corpus():
    p = os.path.join(lib.VERIF, 'corpus', PROP)
    out = []
    if os.path.isdir(p):
        for f in sorted(os.listdir(p)):
            if f.endswith('.json'):
                out.append(json.load(open(os.path.join(p, f)))['case'])
    return out


# ---------------------------------------------------------------- running

def run_impl(lines, repo=None):
    return lib.parallel_lines([lib.PY, IMPL, repo or lib.REPO], lines, env=lib.impl_env())


def run_model(exe, lines):
    return lib.parallel_lines([exe], lines)


def split_impl(r):
    parts = r.split('\t')
    case, res, pr = parts[0], parts[1], parts[2]
    bad = [p[1:] for p in parts[3:] if p.startswith('!')]
    return case, res, pr, bad


def norm_parse(pr):
    """the model does not distinguish Python exception classes in parse(): 'err X' -> 'err'"""
    return ' ; '.join('err' if x.startswith('err') else x for x in pr.split(' ; '))


def translate():
    rc, out = lib.sh([lib.PY, TRANSLATOR, lib.REPO, GEN_V], timeout=120)
    return rc == 0 and out.strip().endswith('ok'), out.strip()


# ---------------------------------------------------------------- Coq literals (vm_compute cross-check)

def cq_bytes(b: bytes):
    return '[' + '; '.join(str(x) for x in b) + ']'


def cq_str(s):
    return cq_bytes(s.encode('utf-8'))


def cq_id(h):
    return cq_bytes(bytes.fromhex(h))


def cq_b(x):
    return 'true' if x else 'false'


def cq_list(xs):
    return '[' + '; '.join(xs) + ']'


def cq_sc(sc):
    i, name, ab, anc, labels = sc
    return (f'(Scalar {cq_id(i)} {cq_str(name)} {cq_b(ab)} {cq_list([cq_sc(a) for a in anc])} '
            f'{cq_list([cq_str(x) for x in labels])})')


def cq_ot(ot):
    if ot[0] == 'R':
        return f'(ORegular {cq_id(ot[1])} {cq_str(ot[2])})'
    return (f'(OCompound {cq_id(ot[1])} {cq_str(ot[2])} {cq_list([cq_ot(x) for x in ot[3]])} '
            f'{cq_list([cq_ot(x) for x in ot[4]])})')


CARDV = {'o': 0x6f, 'A': 0x41, 'm': 0x6d, 'M': 0x4d}


def cq_ty(t):
    tag = t[0]
    if tag == 's':
        return f'(TScalar {cq_sc(t[1])})'
    if tag == 't':
        _, named, pers, name, els = t
        return (f'(TTuple {cq_b(named)} {cq_b(pers)} {cq_str(name)} '
                f'{cq_list([f"({cq_str(n)}, {cq_ty(e)})" for n, e in els])})')
    if tag in 'arm':
        k = {'a': 'TArray', 'r': 'TRange', 'm': 'TMultiRange'}[tag]
        return f'({k} {cq_b(t[1])} {cq_str(t[2])} {cq_ty(t[3])})'
    if tag == 'o':
        ot, free, impl, ptrs, lps = t[1]

        def pp(p):
            nm, link, req, multi, ty, src = p
            return f'(mkPinfo {cq_str(nm)} {cq_b(link)} {cq_b(req)} {cq_b(multi)} {cq_ot(src)}, {cq_ty(ty)})'
        return (f'(TShape {cq_ot(ot)} {cq_b(free)} {cq_b(impl)} {cq_list([pp(p) for p in ptrs])} '
                f'{cq_list([pp(p) for p in lps])})')
    if tag == 'i':
        els = [f'({cq_str(n)}, {CARDV[c]}, {cq_ty(e)})' for n, c, e in t[2]]
        return f'(TInput (ORegular [] {cq_str(t[1])}) true {cq_list(els)})'
    raise ValueError(tag)


DUMMY_SC = '(Scalar [] [] false [] [])'
WRAP = ('(fun r => match r with Ok (b, i) => (0, b, i) | Err EInternal => (1, [], []) '
        '| Err EAssert => (2, [], []) | Err ESchema => (3, [], []) | Err EStruct => (4, [], []) '
        '| Err EKey => (5, [], []) end)')
ERRN = {1: 'InternalServerError', 2: 'AssertionError', 3: 'SchemaError', 4: 'error', 5: 'KeyError'}


def coq_expr(case):
    v2 = cq_b(int(case['pv'].split('.')[0]) >= 2)
    if case['kind'] == 'D':
        cfg = (f'(mkCfg {v2} {cq_b(case["inline"])} {cq_b(case["follow"])} {cq_str(case["flt"])} '
               f'{cq_sc(case["uuid"])})')
        return f'{WRAP} (describe_c {cfg} {cq_ty(case["ty"])})'
    if case['kind'] == 'P':
        cfg = f'(mkCfg {v2} false true [] {DUMMY_SC})'
        ps = cq_list([f'({cq_str(n)}, {cq_b(r)}, {cq_ty(t)})' for n, r, t in case['params']])
        return f'{WRAP} (describe_params_c {cfg} {ps})'
    if case['kind'] == 'I':
        cfg = f'(mkCfg {v2} false true [] {DUMMY_SC})'
        return f'{WRAP} (describe_input_c {cfg} {cq_ty(case["ty"])})'
    cfg = f'(mkCfg {v2} false true [] {DUMMY_SC})'
    data = b'' if case['hex'] == '-' else bytes.fromhex(case['hex'])
    return f'(match parse {cfg} {cq_bytes(data)} with Some _ => (0, [], []) | None => (1, [], []) end)'


def coq_result_to_line(s, kind):
    import re
    m = re.match(r'\(\s*(\d+)\s*,\s*\[(.*?)\]\s*,\s*\[(.*?)\]\s*\)\s*$', s.replace('%N', ''))
    if not m:
        return '?' + s[:80]
    code = int(m.group(1))
    nums = lambda x: bytes(int(y) for y in x.split(';') if y.strip())
    if kind == 'X':
        return 'ok' if code == 0 else 'err'
    if code:
        return 'err ' + ERRN[code]
    return f'ok {nums(m.group(2)).hex() or "-"} {nums(m.group(3)).hex()}'


# ---------------------------------------------------------------- shrinking

LEAF = ('s', STD['str'])


def shrink_candidates(t):
    for path, sub in subterm_paths(t):
        if sub != LEAF and path:
            yield replace_at(t, path, lambda _: LEAF)
        tag = sub[0]
        if tag == 't' and sub[4]:
            for i in range(len(sub[4])):
                e = list(sub[4]); del e[i]
                if not sub[1]:
                    e = [(str(j), x[1]) for j, x in enumerate(e)]
                yield replace_at(t, path, lambda s, e=e: ('t', s[1], s[2], s[3], e))
        if tag == 'o':
            ot, free, impl, ptrs, lps = sub[1]
            for i in range(len(ptrs)):
                pp = list(ptrs); del pp[i]
                yield replace_at(t, path, lambda s, pp=pp: ('o', (ot, free, impl, pp, lps)))
            for i in range(len(lps)):
                ll = list(lps); del ll[i]
                yield replace_at(t, path, lambda s, ll=ll: ('o', (ot, free, impl, ptrs, ll)))
        if tag == 's' and sub[1][3]:
            i, name, ab, anc, labels = sub[1]
            yield replace_at(t, path, lambda s: ('s', (i, name, False, [], labels)))
        if tag in 'arm':
            yield replace_at(t, path, lambda s: s[3])


def unname(t):
    """generated-case form of an observed term: collection names are computed by the schema"""
    tag = t[0]
    if tag == 't':
        return ('t', t[1], t[2], '', [(n, unname(e)) for n, e in t[4]])
    if tag in 'arm':
        return (tag, t[1], '', unname(t[3]))
    if tag == 'o':
        ot, free, impl, ptrs, lps = t[1]
        f = lambda p: p[:4] + (unname(p[4]), p[5])
        return ('o', (ot, free, impl, [f(p) for p in ptrs], [f(p) for p in lps]))
    if tag == 'i':
        return ('i', t[1], [(n, c, unname(e)) for n, c, e in t[2]])
    return t


def gen_line(case, ty=None):
    if case['kind'] == 'D':
        return (f'D {case["pv"]} {b01(case["inline"])} {b01(case["follow"])} {hx(case["flt"])} '
                + e_ty(unname(ty if ty is not None else case['ty'])))
    if case['kind'] == 'I':
        return f'I {case["pv"]} ' + e_ty(unname(ty if ty is not None else case['ty']))
    raise ValueError(case['kind'])


def shrink_case(obs_line, still_fails, rounds=12):
    """greedy shrinking of a D/I case; still_fails(list of generated lines) -> list of bool"""
    try:
        case = parse_case(obs_line)
    except Exception:       # noqa
        return None
    if case['kind'] not in 'DI':
        return None
    t = case['ty']
    for _ in range(rounds):
        cands = list(shrink_candidates(t))[:120]
        if not cands:
            break
        lines = [gen_line(case, c) for c in cands]
        try:
            fl = still_fails(lines)
        except Exception:   # noqa
            break
        for c, f in zip(cands, fl):
            if f:
                t = c
                break
        else:
            break
    return gen_line(case, t)


# ---------------------------------------------------------------- the check

def tags_in_stream(pv, hexs):
    if hexs == '-':
        return []
    data = bytes.fromhex(hexs)
    out = []
    if int(pv.split('.')[0]) >= 2:
        i = 0
        import struct
        while i + 5 <= len(data):
            (n,) = struct.unpack('!L', data[i:i + 4])
            out.append(data[i + 4])
            i += 4 + n
    return out


def run(tier):
    rep = lib.Report(PROP, tier, 'proof')
    thorough = tier == 'thorough'
    tr_ok, tr_out = translate()
    pf = lib.proof_stage(rep, 'C14', THEOREMS, extra_targets=['theories/C14/Refuted.vo', 'theories/C14/PropsExamples.vo'], thorough=thorough)
    exe, blog = lib.build_model('c14', 'ExtractC14.v', 'c14_main.ml', 'C14_ext')
    refuted_audit = None
    if thorough and pf['ok']:
        rok, rproved, _ = lib.coq_props('C14', props_file='Refuted.v')
        refuted_audit = {t: ('closed under the global context' if rproved.get(t) == [] else rproved.get(t, 'NOT CHECKED'))
                         for t in REFUTED}
        if not rok or any(rproved.get(t) != [] for t in REFUTED):
            pf['ok'] = False
            pf['broken'].append('Refuted.v: a refutation witness no longer checks')

    rnd = lib.rng('C14')
    n_fam, n_single, n_par, n_inp, n_x = (650, 900, 450, 150, 3) if not thorough else (9000, 14000, 6000, 2500, 4)
    n_seq = 250 if not thorough else 3000
    # ---- cases: corpus first
    lines = []         # generated case lines
    meta = []          # (family index or None, mutation kind)
    fam = 0
    for c in corpus():
        members = c.split(' || ')
        for m in members:
            lines.append(m)
            meta.append((fam if len(members) > 1 else None, 'corpus'))
        fam += 1
    for k in range(n_fam):
        ls, kinds = gen_family(rnd, odd=(k % 5 == 0), maxdepth=5 if k % 7 == 0 else 4)
        for l, kd in zip(ls, kinds):
            lines.append(l)
            meta.append((fam, kd))
        fam += 1
    for k in range(n_single):
        lines.append(gen_describe(rnd, odd=(k % 3 == 0), maxdepth=5 if k % 4 == 0 else 4)[0])
        meta.append((None, 'single-odd' if k % 3 == 0 else 'single'))
    for k in range(n_par):
        lines.append(gen_params(rnd, odd=(k % 4 == 0))[0])
        meta.append((None, 'params'))
    for k in range(n_inp):
        lines.append(gen_input(rnd)[0])
        meta.append((None, 'input'))
    seqs = {}
    for k in range(n_seq):
        ln, sq = gen_sequence(rnd)
        seqs[len(lines)] = sq
        lines.append(ln)
        meta.append((None, 'sequence'))

    impl = run_impl(lines)
    obs = [split_impl(r) for r in impl]

    # ---- malformed / edge streams derived from the real outputs
    xr = lib.rng('C14x')
    xlines = []
    for (case, res, pr, bad) in obs:
        if res.startswith('ok ') and not case.startswith('S ') and xr.random() < (0.4 if not thorough else 0.7):
            pv = case.split(' ')[1]
            h = res.split(' ')[1]
            data = b'' if h == '-' else bytes.fromhex(h)
            for _ in range(n_x):
                xlines.append(f'X {pv} {mutate_stream(xr, pv, data).hex() or "-"}')
            xlines.append(f'X {"1.0" if pv != "1.0" else "3.0"} {h}')
    ximpl = [split_impl(r) for r in run_impl(xlines)] if xlines else []

    model = xmodel = None
    idx_model = [i for i, o in enumerate(obs) if not o[1].startswith('skip') and ' ?' not in o[0]]
    if exe:
        model = dict(zip(idx_model, run_model(exe, [obs[i][0] for i in idx_model])))
        xmodel = run_model(exe, xlines) if xlines else []

    # ---- monitors on the real code (per case)
    mon_fail = [(i, o[3]) for i, o in enumerate(obs) if o[3]]

    # ---- family monitors on the real code: id functionality / injectivity within one schema+config
    fams = {}
    for i, (f, kd) in enumerate(meta):
        if f is not None and obs[i][1].startswith('ok '):
            fams.setdefault(f, []).append(i)
    fam_viol = []          # (i, j, what, classes or None)
    pairs_checked = 0
    same_id_pairs = 0
    kf = {e.get('id'): e for e in lib.known_findings(PROP)}
    for f, members in fams.items():
        parsed = {}
        for i in members:
            try:
                parsed[i] = parse_case(obs[i][0])
            except Exception:      # noqa
                pass
        ms = [i for i in members if i in parsed]
        for a in range(len(ms)):
            for b in range(a + 1, len(ms)):
                i, j = ms[a], ms[b]
                ci, cj = parsed[i], parsed[j]
                if ci['kind'] != 'D' or cj['kind'] != 'D':
                    continue
                if (ci['pv'], ci['inline'], ci['follow'], ci['flt']) != (cj['pv'], cj['inline'], cj['follow'], cj['flt']):
                    continue
                pairs_checked += 1
                _, si, idi = obs[i][1].split(' ')
                _, sj, idj = obs[j][1].split(' ')
                cfgd = {'flt': ci['flt'], 'follow': ci['follow'], 'uuid': ci['uuid']}
                if idi == idj:
                    same_id_pairs += 1
                    if si != sj:
                        fam_viol.append((i, j, 'equal descriptor ids, different descriptor bytes',
                                         explain(ci['ty'], cj['ty'], cfgd)))
                    elif skel(ci['ty'], cfgd) != skel(cj['ty'], cfgd):
                        fam_viol.append((i, j, 'structurally different types, equal descriptor ids (and bytes)',
                                         explain(ci['ty'], cj['ty'], cfgd)))
                else:
                    if freeze(erase(ci['ty'], set(), cfgd)) == freeze(erase(cj['ty'], set(), cfgd)):
                        fam_viol.append((i, j, 'the same type described twice got different ids', None))

    # ---- model vs implementation
    mism = []
    if model is not None:
        for i in idx_model:
            case, res, pr, bad = obs[i]
            mr, mp = model[i].split('\t')
            if (mr, mp) != (res, norm_parse(pr)):
                mism.append(('case', i))
        for k, (x, m) in enumerate(zip(ximpl, xmodel)):
            pr = x[2]
            prn = pr if not pr.startswith('err') else 'err'
            if m.split('\t')[1] != prn:
                mism.append(('raw', k))

    # ---- Coq-internal evaluation of a sample (guards extraction)
    coq_diff = []
    n_coq = 0
    if model is not None:
        cr = lib.rng('C14coq')
        pool = [i for i in idx_model if len(obs[i][0]) < 6000 and not obs[i][0].startswith('S ')]
        sample = sorted(cr.sample(pool, min(40 if not thorough else 300, len(pool))))
        xs = sorted(cr.sample(range(len(xlines)), min(15 if not thorough else 100, len(xlines)))) if xlines else []
        exprs = []
        kinds = []
        for i in sample:
            c = parse_case(obs[i][0])
            exprs.append(coq_expr(c)); kinds.append(c['kind'])
        for k in xs:
            c = parse_case(xlines[k])
            exprs.append(coq_expr(c)); kinds.append('X')
        try:
            outs = lib.coq_eval('C14', 'From Coq Require Import List NArith. Import ListNotations.\n'
                                       'From Verif.C14 Require Import Gen_Tags Model.\nOpen Scope N_scope.',
                                exprs, timeout=900)
            n_coq = len(outs)
            for n, (o, kd) in enumerate(zip(outs, kinds)):
                got = coq_result_to_line(o, kd)
                if n < len(sample):
                    want = model[sample[n]].split('\t')[0]
                else:
                    want = 'ok' if xmodel[xs[n - len(sample)]].split('\t')[1].startswith('ok') else 'err'
                if got != want:
                    coq_diff.append((n, got[:200], want[:200]))
        except Exception as e:      # noqa
            coq_diff.append((-1, 'coq_eval failed: ' + str(e)[-500:], ''))

    # ---- verdict
    def impl_flags(ls):
        return [split_impl(r) for r in run_impl(ls)]

    for i, bad in mon_fail[:3]:
        first = bad[0].split(':')[0]
        if i in seqs:
            small = shrink_sequence(seqs[i], lambda ls: [any(x.startswith(first) for x in o[3]) for o in impl_flags(ls)])
        else:
            small = shrink_case(obs[i][0], lambda ls: [first in o[3] for o in impl_flags(ls)]) or lines[i]
        so = impl_flags([small])[0]
        rep.violation(f'monitor {bad} failed on the real sertypes output',
                      {'case': small, 'original_case': lines[i], 'impl_result': so[1][:2000],
                       'impl_parse': so[2][:2000], 'monitors': so[3],
                       'how': 'PYTHONPATH=/repo:/verif/harness /venv/bin/python harness/impl/c14_impl.py /repo <<< case'})
    reported = set()
    for (i, j, what, classes) in fam_viol:
        payload = {'case': lines[i] + ' || ' + lines[j], 'what': what,
                   'id_a': obs[i][1].split(' ')[2], 'id_b': obs[j][1].split(' ')[2],
                   'stream_a': obs[i][1].split(' ')[1][:3000], 'stream_b': obs[j][1].split(' ')[1][:3000],
                   'decoded_a': obs[i][2][:1500], 'decoded_b': obs[j][2][:1500],
                   'mutation': [meta[i][1], meta[j][1]],
                   'how': 'each member: PYTHONPATH=/repo:/verif/harness /venv/bin/python harness/impl/c14_impl.py /repo <<< line'}
        if classes and all(c in kf for c in classes):
            for c in classes:
                rep.known_finding(c, kf[c].get('what', what))
            continue
        key = tuple(classes) if classes else None
        if key in reported and len(reported) >= 1 and key is not None:
            continue
        reported.add(key)
        payload['explained_by'] = classes
        rep.violation(what + (f' [weak point(s) {classes}; not in known_findings.json]' if classes else ''), payload)

    if not mon_fail and not [v for v in fam_viol if not (v[3] and all(c in kf for c in v[3]))]:
        if not tr_ok:
            rep.violation('translator failed closed: ' + tr_out[-400:],
                          {'broken': 'harness/translate/c14_tags.py (Gen_Tags.v)', 'output': tr_out[-2000:]}, False)
        if model is None:
            rep.violation('model does not build: ' + blog[-1500:], {'broken': 'extraction of theories/C14/Model.v'}, False)
        elif mism:
            kind, k = mism[0]
            if kind == 'case':
                def differs(ls):
                    os_ = impl_flags(ls)
                    ms_ = run_model(exe, [o[0] for o in os_])
                    out = []
                    for o, m in zip(os_, ms_):
                        out.append(not o[1].startswith('skip') and tuple(m.split('\t')) != (o[1], norm_parse(o[2])))
                    return out
                small = shrink_case(obs[k][0], differs) or lines[k]
                so = impl_flags([small])[0]
                sm = run_model(exe, [so[0]])[0]
                payload = {'broken': 'correspondence C14 Model.describe/parse vs sertypes', 'case': small,
                           'original_case': lines[k], 'impl_result': so[1][:3000], 'impl_parse': so[2][:2000],
                           'model_result': sm[:5000], 'disagreements': len(mism)}
            else:
                payload = {'broken': 'correspondence C14 Model.parse vs sertypes.parse', 'case': xlines[k],
                           'impl_parse': ximpl[k][2][:2000], 'model_result': xmodel[k][:2000],
                           'disagreements': len(mism)}
            rep.violation('correspondence broken: model and implementation disagree, no monitor failed '
                          f'on {len(lines)} cases', payload, False)
        if coq_diff:
            rep.violation('extracted model disagrees with vm_compute inside Coq',
                          {'broken': 'extraction', 'first': coq_diff[0]}, False)
        if not pf['ok']:
            rep.violation('proof obligations no longer check: ' + '; '.join(pf['broken'][:6]),
                          {'broken': pf['broken'], 'log_tail': pf['log'][-3000:]}, False)

    # ---- evidence
    distinct = set()
    nseq_calls = nseq_reuse = 0
    depths = {}
    kinds = {}
    pvs = {}
    tagh = {}
    for i, (case, res, pr, bad) in enumerate(obs):
        k = res.split(' ')[0] + (' ' + res.split(' ')[1][:40] if not res.startswith('ok') else '')
        kinds[k] = kinds.get(k, 0) + 1
        if res.startswith('skip'):
            continue
        try:
            c = parse_case(case)
        except Exception:      # noqa
            continue
        if c['kind'] == 'S':
            nseq_calls += c['calls']
            nseq_reuse += c['reuse']
            if c['calls'] >= 2:
                distinct.add(case)
            continue
        pvs[c['pv']] = pvs.get(c['pv'], 0) + 1
        if c['kind'] == 'P':
            d = 1 + max([depth(t) for _, _, t in c['params']] + [0])
        else:
            d = depth(c['ty'])
        depths[d] = depths.get(d, 0) + 1
        if d >= 2:
            distinct.add(case)
        if res.startswith('ok '):
            for tg in tags_in_stream(c['pv'], res.split(' ')[1]):
                tagh[tg] = tagh.get(tg, 0) + 1
    xk = {}
    for x in ximpl:
        k = x[2].split(' ')[0] + (' ' + x[2].split(' ')[1] if x[2].startswith('err') else '')
        xk[k] = xk.get(k, 0) + 1
    mk = {}
    for f, kd in meta:
        mk[kd] = mk.get(kd, 0) + 1
    man = {}
    try:
        man = json.load(open(GEN_V[:-2] + '.manifest.json'))
    except Exception:      # noqa
        pass
    rep.coverage.update({
        'evaluations': len(lines) + len(xlines),
        'distinct_nontrivial': len(distinct),
        'rule': 'type terms over a generated environment (std + user scalars with ancestor chains, enums, '
                'object types, union/intersection types) realised as REAL edb.schema objects: scalars, '
                '(named) tuples, arrays, ranges, multiranges, object shapes with properties/links/link '
                'properties/implicit ids/polymorphic sources, free objects; families = a root type plus '
                'one-step variations over the same environment; describe_params lists; input shapes; '
                'call SEQUENCES on one real StateSerializerFactory (make() with generated globals / extension '
                'configs / settings, repeats, other protocol versions, compilation-config serializer and '
                'describe_params in between) checked against a fresh factory, the model (prepared context '
                'copied per call) and the expected state shape; '
                'malformed streams = byte-level mutations of real streams and cross-protocol re-parses. '
                'non-trivial = describe/params/input case of nesting depth >= 2, or a sequence of >= 2 calls; distinct = distinct '
                'observed case line (term as re-read from the real schema objects)',
        'exhaustive': False,
        'samples': [lines[i][:600] for i in (0, len(lines) // 3, len(lines) // 2, len(lines) - 1)] +
                   ([xlines[0][:300]] if xlines else []),
        'traces_validated_against_impl': (len(idx_model) + len(xlines)) if model is not None else 0,
        'model_vs_impl_disagreements': len(mism),
        'coq_vm_compute_cross_checked': n_coq,
        'monitor_failures': len(mon_fail),
        'sequence_cases': n_seq, 'sequence_calls_total': nseq_calls,
        'sequence_make_calls_on_an_already_prepared_context': nseq_reuse,
        'family_pairs_checked': pairs_checked,
        'family_pairs_with_equal_ids': same_id_pairs,
        'family_violations': len(fam_viol),
        'result_kinds': kinds,
        'raw_stream_parse_kinds': xk,
        'nesting_depths': dict(sorted(depths.items())),
        'protocol_versions': pvs,
        'descriptor_tags_seen_v2': {str(k): v for k, v in sorted(tagh.items())},
        'case_kinds': mk,
        'translator': {'ok': tr_ok, 'manifest': man},
        'refuted_theorems': {
            'built': 'theories/C14/Refuted.vo is a make target of every run (vm_compute witnesses with the real SHA-1)',
            'names': REFUTED, 'assumptions_audit_thorough': refuted_audit,
            'replayed_on_real_code': 'corpus/C14/01..07 (always run first); the three in-domain ones are '
                                     'known findings C14-colon-join, C14-shape-source, C14-collection-name'},
        'nonvacuity_examples': 'theories/C14/PropsExamples.vo (make target): hypotheses of C14_roundtrip and '
                               'C14_id_injective/functional instantiated with the real hash on nested types',
        'theorem_scope': {
            'C14_roundtrip': 'all type terms, both protocol generations, all options except v1+inline annotations; '
                             'hypotheses: ids determine descriptions and are acyclic among reachable entities, '
                             '16-byte ids, UTF-8 names',
            'C14_id_injective': 'all pairs of type terms (default options); hypotheses: no SHA-1 collision on the '
                                'strings hashed for them, hashed ids differ from schema ids, names without NUL and colon',
            'C14_id_functional': 'as C14_id_injective plus [conf]: schema-determined attributes are functions of '
                                 'ids/names (refuted for sertypes alone: Refuted.v)',
            'not_covered_by_theorems': 'describe_params and describe_input_shape (model + correspondence + monitors '
                                       'only); the EdgeQL compiler producing the inputs'},
        'tier_note': 'sertypes tier: the EdgeQL compiler is not executed (std schema not available); '
                     'schema objects are created directly with Object.create_in_schema',
        'trusted_base': [
            'Coq 8.16.1 kernel (coqc; coqchk in the thorough tier); vm_compute only in cases.v evaluation',
            'extraction: ExtrOcamlBasic only, N/positive/nat kept inductive; OCaml 4.13.1; ocaml/conv.ml + c14_main.ml',
            'translator harness/translate/c14_tags.py (fail-closed) for tags/flags/ops/cardinalities/known ids/uuid5 shape',
            'correspondence harness harness/props/c14.py + harness/impl/c14_impl.py: generators, the builder that '
            'realises a term as schema objects, the observer that re-reads it, canonicalisers, monitors',
            'harness/rt/vrt.py stub installer (turbo_uuid stand-in = uuid.UUID subclass)',
            'SHA-1 / uuid5: modelled concretely in Gallina (compared bit-for-bit with hashlib on every hashed id); '
            'collision- and cycle-freedom on the strings hashed for the types at hand is a HYPOTHESIS of the id theorems',
            'Context.derive()/cached per-protocol contexts: modelled as value copy (Model.make_state: every make() '
            'starts from the same prepared state); no theorem is stated about make_state, it is tied by '
            'correspondence + monitors on call sequences',
            'modelled, not verified: edb.schema accessors (get_name, get_ancestors, material_type, get_is_persistent, '
            'view_shapes contents) are inputs of the model (read off the real objects), the compiler that produces '
            'them is not run; Python dict semantics of parse() results; struct/BinWrapper; bytes.decode("utf-8")',
        ],
    })
    rep.assumptions = [
        'the (schema, type, view_shapes, metadata) arguments the compiler passes to sertypes.describe are of the '
        'form the builder creates (not checked: compiler not runnable here)',
        'SHA-1 has no collisions / cycles on the id strings of the described types (hypothesis of C14_id_*)',
        'within one schema an id identifies one scalar / object type (hypothesis Conforms of C14_id_functional)',
    ]
    return rep.finish()


def replay(path):
    d = json.load(open(path))
    rp = d['replay']
    case = rp.get('case') or rp.get('original_case')
    exe, _ = lib.build_model('c14', 'ExtractC14.v', 'c14_main.ml', 'C14_ext')
    for ln in case.split(' || '):
        print('case :', ln[:2000])
        o = split_impl(run_impl([ln])[0])
        print('impl :', o[1][:3000], '|', o[2][:1500], '|', o[3])
        if exe and not o[1].startswith('skip'):
            print('model:', run_model(exe, [o[0]])[0][:4500])
        elif not exe:
            print('model: does not build')
    return 0
