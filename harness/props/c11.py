"""C11 — SDL is declarative: declaration order does not matter.

Proof:  coq/theories/Decl (model of the top level of edb/edgeql/declarative.py::sdl_to_ddl +
        apply_sdl: duplicate check, dependency graph with filter + OrderedSet(sorted(deps)),
        C20 model of topological.sort, application of the sorted CREATE statements), statements in
        coq/theories/C11/Props.v (order irrelevance for flat and nested documents, cycle iff really
        cyclic, acceptance, classification, determinism w.r.t. the listing of the traced sets),
        composed from the C20 theorems.
Tie:    (1) correspondence `graph`: the dependency graph the REAL sdl_to_ddl hands to
            topological.sort is captured for every generated document (keys in dict order, deps /
            weak_deps / loop_control); the extracted model, given the same sets in a shuffled listing
            order, must return exactly the order (or cycle item) the real sort returned;
        (2) correspondence `abstract`: abstract documents (nodes with references; duplicates,
            dangling references, cycles) are rendered as real SDL (object types + extending) and
            loaded by the real apply_sdl; outcome class and resulting types/bases must equal
            [sdl_apply] of the extracted model;
        (3) END-TO-END monitors on the real code: generated SDL documents (feature grammar,
            qualified and unqualified references, upstream tests/schemas, hand-written families,
            really-cyclic and looks-cyclic families) are loaded in many orders: all permutations of the
            top-level declarations for small documents, reversed + random permutations of module
            blocks / declarations / body members otherwise, one module written as two blocks; every
            order must give the same outcome, accepted ones the same schema (structural dump equal,
            delta_schemas empty); a document accepted in one order must never be rejected (for a cycle
            or anything else) in another; really cyclic documents must be rejected in every order;
        (4) determinism probe: the same documents under different PYTHONHASHSEED values must give
            the same schema (the DDL order may differ: loop_control is a plain set; recorded).
The hypothesis of the theorems ("the dependency edges are exactly the references") is what (3)
probes; in the thorough tier it is also probed pairwise (mode `pairs`, label: exploration).
"""
from __future__ import annotations

import hashlib
import itertools
import json
import os
import re
import time

import lib
from props import c03_gen as CG
from props import c03 as C03

PROP = 'C11'
THEOREMS = [
    'C11_order_irrelevant', 'C11_nested_order_irrelevant', 'C11_cycle_iff', 'C11_accepts', 'C11_accepted_inv',
    'C11_classified', 'C11_same_map', 'C11_ref_listing_irrelevant', 'C11_sorted_applies',
]
IMPL = C03.IMPL


# ---------------------------------------------------------------- permutation cases

def corpus():
    p = os.path.join(lib.VERIF, 'corpus', PROP)
    out = []
    if os.path.isdir(p):
        for f in sorted(os.listdir(p)):
            if f.endswith('.json'):
                out.append(json.load(open(os.path.join(p, f)))['case'])
    return out


def mk_perm_case(tag, text, label, rnd, idx, kind, nrand, max_all):
    try:
        items = CG.parse_doc(text)
    except CG.SplitError:
        return None
    docs = [text]
    how = ['original']
    perms = []
    nperm_items = len(items[0].children) if (len(items) == 1 and items[0].is_module()) else len(items)
    if 2 <= nperm_items <= max_all:
        perms = CG.all_top_permutations(items)[1:]
        docs += [CG.render_doc(p) for p in perms]
        how += ['all-top-permutations'] * len(perms)
    docs.append(CG.render_doc(CG.reverse_doc(items)))
    how.append('reversed-every-level')
    for j in range(nrand):
        lv = [('modules', 'decls', 'members'), ('decls',), ('members',), ('modules', 'decls')][j % 4]
        docs.append(CG.render_doc(CG.permute_doc(items, rnd, levels=lv, split_modules=(j % 3 == 1))))
        how.append('random:' + '+'.join(lv) + (':split-module' if j % 3 == 1 else ''))
    # drop exact duplicates (tiny documents)
    seen, d2, h2 = set(), [], []
    for d, h in zip(docs, how):
        if d not in seen:
            seen.add(d)
            d2.append(d)
            h2.append(h)
    return {'id': idx, 'tag': tag, 'kind': kind, 'label': label, 'docs': d2, 'how': h2, 'own': 1, 'graph': True,
            'shape': CG.shape(items), 'all_perms': bool(perms)}


def gen_cases(tier):
    quick = tier == 'quick'
    n_gen = 30 if quick else 250
    nrand = 3 if quick else 10
    max_all = 3 if quick else 5
    cases = []

    def add(c):
        if c is not None:
            c['id'] = len(cases)
            cases.append(c)
    for c in corpus():
        c = dict(c)
        c.setdefault('kind', 'corpus')
        c.setdefault('label', None)
        c.setdefault('own', 1)
        c.setdefault('graph', True)
        c.setdefault('how', ['corpus'] * len(c['docs']))
        add(c)
    for name, t in CG.HAND:
        add(mk_perm_case('hand:' + name, t, None, lib.rng('C11h' + name), 0, 'hand', nrand, max_all))
    # forced sweep (both tiers): classes of seeded defects the random streams missed
    for name, t in CG.SWEEP:
        add(mk_perm_case('sweep:' + name, t, 'acyclic', lib.rng('C11s' + name), 0, 'sweep', 6, 5))
    for i in range(2 if quick else 12):
        rnd = lib.rng(f'C11shadow{i}')
        t, names = CG.shadow_doc(rnd, ['User', 'Post', 'fmt'])
        add(mk_perm_case(f'sweep:shadow{i}:' + '/'.join(names), t, 'acyclic', rnd, 0, 'sweep', 3, 0))
    for name, t in CG.CYCLIC:
        add(mk_perm_case(name, CG.wrap_default(t), 'cyclic', lib.rng('C11c' + name), 0, 'cyclic', 1, 4))
    for name, t in CG.ACYCLIC_LOOKALIKE:
        add(mk_perm_case(name, CG.wrap_default(t), 'acyclic', lib.rng('C11a' + name), 0, 'lookalike', 2, 4))
    # a cycle hidden inside a larger valid document
    for i in range(3 if quick else 20):
        rnd = lib.rng(f'C11mix{i}')
        txt, _, s = CG.gen_schema_text(rnd)
        cyc = rnd.choice(CG.CYCLIC)
        items = CG.parse_doc(txt)
        mod = next((n for n in items if n.is_module() and n.head.split()[-1] == 'default'), None)
        if mod is None:
            continue
        mod.children += CG.parse_doc(cyc[1])
        add(mk_perm_case(f'mix{i}:{cyc[0]}', CG.render_doc(items), 'cyclic', rnd, 0, 'cyclic', 2, 0))
    ups = CG.upstream_corpus(lib.REPO, 2200 if quick else 7000)
    rnd = lib.rng('C11up')
    rnd.shuffle(ups)
    for name, t in ups[: (5 if quick else 999)]:
        add(mk_perm_case('up:' + name, t, None, lib.rng('C11u' + name), 0, 'upstream', 2 if quick else 6, 0))
    for i in range(n_gen):
        rnd = lib.rng(f'C11gen{i}')
        txt, feat, s = CG.gen_schema_text(rnd)
        if i % 2:
            txt = CG.render_unqualified(s, rnd)
        c = mk_perm_case(f'C11gen{i}', txt, None, rnd, 0, 'generated', nrand, max_all)
        if c is not None:
            c['feat'] = feat
        add(c)
    # malformed / edge stream: documents that are not valid in ANY order, and empty ones
    rnd = lib.rng('C11malformed')
    from props import c02_gen as G
    for i in range(5 if quick else 30):
        base, _, _ = CG.gen_schema_text(lib.rng(f'C11mal{i}'))
        bad, tag = G.malformed_sdl(rnd, base)
        if tag in ('syntax-error', 'truncated-document'):
            continue
        add(mk_perm_case('malformed:' + tag, bad, 'invalid', rnd, 0, 'malformed', 1, 3))
    add(mk_perm_case('edge:empty', 'module default {}; module a {}; module a::b {}', None, rnd, 0, 'edge', 1, 0))
    return cases


def slim(case, which=None):
    d = {'tag': case['tag'], 'label': case.get('label')}
    if which is None:
        d['docs'] = case['docs']
    else:
        d['docs'] = [case['docs'][i] for i in which]
        d['how'] = [case.get('how', [''] * len(case['docs']))[i] for i in which]
    return d


HOW = ("echo '{\"id\":0,\"docs\":[...],\"own\":1}' | PYTHONPATH=/repo:/verif/harness /venv/bin/python "
       "harness/impl/c03_impl.py /repo perm    (or ./harness/check C11 --replay <this file>)")

CYCLE_RE = re.compile(r'dependency cycle|defined recursively|recursive definition')


def err_class(e):
    if not e:
        return 'ok'
    msg = e.get('msg', '')
    if CYCLE_RE.search(msg):
        return 'cycle'
    if 'was already declared' in msg or 'already exists' in msg:
        return 'duplicate'
    if 'does not exist' in msg:
        return 'missing-reference'
    return e.get('type', '?')


def judge(case, r, known):
    out = []
    if r is None or 'harness_error' in r:
        return [('harness', None, 'harness error: ' + json.dumps((r or {}).get('harness_error'))[:300], {'case': slim(case, [0])})]
    docs = r['docs']
    oks = [i for i, d in enumerate(docs) if d['status'] == 'ok']
    rej = [i for i, d in enumerate(docs) if d['status'] != 'ok']
    label = case.get('label')
    if oks and rej:
        # accepted in one order, rejected in another
        by = {}
        for i in rej:
            fid = CG.c11_reject_finding(case['docs'][i], docs[i]['err'])
            by.setdefault((fid, err_class(docs[i]['err'])), []).append(i)
        for (fid, cls), ix in by.items():
            i = ix[0]
            e = docs[i]['err']
            what = (f'the same declarations are accepted in one order and rejected in another ({len(ix)} of {len(docs)} orders): '
                    f'{e["type"]}: {e["msg"][:170]}')
            if cls == 'cycle':
                what = 'cycle error although the declarations are not cyclic (accepted in another order); ' + what
            out.append(('known' if fid in known else 'violation', fid, what,
                        {'case': slim(case, [oks[0], i]), 'accepted_order': oks[0], 'rejected_order': i,
                         'observed': e, 'required': 'the same outcome for every order', 'how': HOW}))
    if oks:
        for i in oks:
            v = docs[i].get('cmp', 'eq')
            if v != 'eq':
                out.append(('violation', None, 'two orders of the same declarations give different schemas: ' + C03.brief(v),
                            {'case': slim(case, [oks[0], i]), 'observed': v, 'how': HOW}))
                break
        if label == 'cyclic':
            out.append(('violation', None, 'a really cyclic document is accepted', {'case': slim(case, [oks[0]]), 'how': HOW}))
    if not oks and case.get('kind') == 'hand' and label is None:
        e = docs[0]['err']
        out.append(('harness', None, f'a document of the fixed valid corpus is rejected in every order ({case["tag"]}): '
                    f'{e["type"]}: {e["msg"][:160]}', {'case': slim(case, [0]), 'observed': e}))
    if not oks and label == 'acyclic':
        e = docs[0]['err']
        out.append(('violation', None, f'a valid (acyclic) document is rejected in every order: {e["type"]}: {e["msg"][:160]}',
                    {'case': slim(case, [0]), 'observed': e, 'how': HOW}))
    return out


# ---------------------------------------------------------------- graph correspondence

def graph_line(cap, rnd):
    """model line for a captured real graph: ids = rank of (module, name) in Python tuple order (the
    order `sorted(deps)` uses); deps / weak listed shuffled with a duplicate (they are sets)"""
    split = dict(cap['split'])
    split.update(cap.get('dsplit', {}))
    names = sorted(split, key=lambda k: tuple(split[k]))
    ids = {k: i + 1 for i, k in enumerate(names)}
    nodes = []
    for k in cap['keys']:
        deps = list(cap['deps'][k])
        weak = list(cap['weak'][k])
        rnd.shuffle(deps)
        rnd.shuffle(weak)
        if deps and rnd.random() < 0.3:
            deps.append(deps[0])
        f = lambda xs: ','.join(str(ids[x]) for x in xs)
        nodes.append(f'{ids[k]}:1:{f(deps)}:{f(weak)}:{f(cap["lctl"][k])}')
    return ';' + '|'.join(nodes), ids


def graph_expect(cap, ids):
    if 'order' in cap:
        return 'S ' + ','.join(str(ids[k]) for k in cap['order'])
    if 'cycle' in cap:
        return f'C {ids.get(cap["cycle"], "?")}'
    if 'unresolved' in cap:
        return 'U'
    return '?'


# ---------------------------------------------------------------- abstract documents -> real SDL

def abs_docs(tier):
    """[(nodes [(key, refs)], defect)] : ordered documents over keys 1..3 (4), references = bases"""
    rnd = lib.rng('C11abs')
    out = []
    keys = [1, 2, 3]
    subsets = [[], [1], [2], [3], [1, 2], [1, 3], [2, 3]]
    allq = []
    for order in itertools.permutations(keys):
        for r1 in subsets:
            for r2 in subsets:
                for r3 in subsets:
                    refs = {1: r1, 2: r2, 3: r3}
                    allq.append([(k, refs[k]) for k in order])
    if tier == 'quick':
        allq = rnd.sample(allq, 16)
    for nodes in allq:
        out.append((nodes, None))
    # acyclic by construction (references only along a hidden order), any listing order
    for _ in range(30 if tier == 'quick' else 300):
        hidden = rnd.sample(keys, 3)
        pos = {k: i for i, k in enumerate(hidden)}
        refs = {k: [x for x in keys if pos[x] < pos[k] and rnd.random() < 0.6] for k in keys}
        out.append(([(k, refs[k]) for k in rnd.sample(keys, 3)], None))
    n_def = 12 if tier == 'quick' else 150
    for _ in range(n_def):
        order = rnd.sample(keys, 3)
        refs = {k: [x for x in keys if x < k and rnd.random() < 0.5] for k in keys}
        nodes = [(k, refs[k]) for k in order]
        if rnd.random() < 0.5:
            i = rnd.randrange(3)
            nodes[i] = (nodes[i][0], nodes[i][1] + [9])
            out.append((nodes, 'dangling'))
        else:
            nodes.insert(rnd.randrange(4), (rnd.choice(keys), []))
            out.append((nodes, 'dup'))
    return out


def abs_sdl(nodes):
    decls = []
    for k, refs in nodes:
        decls.append(f'type T{k}' + (' extending ' + ', '.join(f'T{r}' for r in refs) if refs else '') + ';')
    return 'module default {\n' + '\n'.join(decls) + '\n}'


def abs_line(nodes):
    return ';' + '|'.join(f'{k}:1:{",".join(map(str, refs))}::' for k, refs in nodes)


def mro_ok(nodes):
    """Python-style C3 linearisation must exist for the real schema to accept multiple inheritance;
    self references / cycles are handled separately"""
    refs = {k: r for k, r in nodes}
    memo = {}

    def lin(k, stack=()):
        if k in memo:
            return memo[k]
        if k in stack:
            return None
        seqs = []
        for b in refs.get(k, []):
            l = lin(b, stack + (k,))
            if l is None:
                return None
            seqs.append(list(l))
        seqs.append(list(refs.get(k, [])))
        res = [k]
        while any(seqs):
            for s in seqs:
                if not s:
                    continue
                h = s[0]
                if not any(h in t[1:] for t in seqs):
                    break
            else:
                return None
            res.append(h)
            for s in seqs:
                if s and s[0] == h:
                    del s[0]
        memo[k] = res
        return res
    return all(lin(k) is not None for k in refs)


# ---------------------------------------------------------------- run

def run(tier):
    rep = lib.Report(PROP, tier, 'proof')
    thorough = tier == 'thorough'
    t0 = time.time()
    pf = lib.proof_stage(rep, 'C11', THEOREMS, thorough=thorough)
    for b in lib.hygiene(['Decl', 'C20']):
        pf['broken'].append('hygiene: ' + b)
        pf['ok'] = False
    exe, blog = lib.build_model('c11', 'ExtractC11.v', 'c11_main.ml', 'C11_ext')
    known = {e['id'] for e in lib.known_findings('C11')}

    cases = gen_cases(tier)
    res = C03.run_impl(cases, 'perm')
    verdicts = []
    for c, r in zip(cases, res):
        verdicts += judge(c, r, known)

    # ---- (1) graph correspondence
    rnd = lib.rng('C11graph')
    glines, gexp, gref = [], [], []
    for ci, (c, r) in enumerate(zip(cases, res)):
        if not r or 'docs' not in r:
            continue
        cap = r['docs'][0].get('graph')
        if not cap or not cap['keys']:
            continue
        line, ids = graph_line(cap, rnd)
        exp = graph_expect(cap, ids)
        if exp in ('U', '?'):
            continue
        glines.append(line)
        gexp.append(exp)
        gref.append(ci)
    gmodel = lib.run_model(exe, glines) if exe and glines else []
    gmism = [i for i, (m, e) in enumerate(zip(gmodel, gexp)) if m.split(' # ')[0] != e]
    set_kinds = {}
    for c, r in zip(cases, res):
        for d in (r or {}).get('docs', []):
            g = d.get('graph') or d.get('gsum')
            if g:
                for k, v in g['kinds'].items():
                    for t in v:
                        set_kinds[f'{k}:{t}'] = set_kinds.get(f'{k}:{t}', 0) + 1

    # ---- (2) abstract documents
    adocs = abs_docs(tier)
    acases = [{'id': i, 'docs': [abs_sdl(n)], 'own': 0, 'types': True} for i, (n, _) in enumerate(adocs)]
    ares = C03.run_impl(acases, 'perm')
    alines = [abs_line(n) for n, _ in adocs]
    amodel = lib.run_model(exe, alines) if exe else []
    amism = []
    aclasses = {}
    for i, ((nodes, defect), r, m) in enumerate(zip(adocs, ares, amodel)):
        d = r['docs'][0]
        mo = m.split(' # ')[1]
        mcls = mo.split()[0]
        if d['status'] == 'ok':
            rcls = 'ok'
        else:
            rcls = {'cycle': 'cycle', 'duplicate': 'dup', 'missing-reference': 'unres'}.get(err_class(d['err']), 'other:' + d['err']['msg'][:60])
        aclasses[f'{mcls}/{rcls}'] = aclasses.get(f'{mcls}/{rcls}', 0) + 1
        if mcls == 'ok' and rcls != 'ok' and not mro_ok(nodes):
            aclasses['ok/no-consistent-mro(excluded)'] = aclasses.get('ok/no-consistent-mro(excluded)', 0) + 1
            continue
        if mcls != rcls:
            amism.append((i, mo, rcls))
            continue
        if mcls == 'ok':
            want = {f'default::T{k}': sorted(f'default::T{x}' for x in refs) or ['std::Object'] for k, refs in nodes}
            got = d.get('types')
            if got != want:
                amism.append((i, json.dumps(want), json.dumps(got)))

    # ---- (4) determinism across PYTHONHASHSEED
    pick = [c for c in cases if c['kind'] in ('generated', 'hand', 'lookalike', 'upstream', 'sweep')]
    pick = pick[:: max(1, len(pick) // (14 if not thorough else 120))]
    pcases = [{'id': i, 'docs': c['docs'][:2], 'own': 0, 'digest': True, 'orders': True} for i, c in enumerate(pick)]
    seeds = ['0', '7', '12345'] + (['99', '424242'] if thorough else [])
    pres = {}
    for hs in seeds:
        env = lib.impl_env(hs)
        pres[hs] = _run_perm_env(pcases, env)
    seed_viol, order_diff = [], 0
    for i, c in enumerate(pick):
        base = pres['0'][i]
        for hs in seeds[1:]:
            o = pres[hs][i]
            for j, (a, b) in enumerate(zip(base['docs'], o['docs'])):
                if a['status'] != b['status'] or a.get('digest') != b.get('digest'):
                    seed_viol.append((i, j, hs, a, b))
                elif a.get('order') != b.get('order'):
                    order_diff += 1

    # ---- thorough: pairwise commutation probe (exploration)
    pairs_info = None
    if thorough:
        pc = [{'id': i, 'sdl': c['docs'][0], 'limit': 10} for i, c in enumerate(cases)
              if c['kind'] in ('generated', 'hand') ][:120]
        pr = C03.run_impl(pc, 'pairs')
        npairs = sum(len(r.get('pairs', [])) for r in pr)
        bad = [(pc[i]['sdl'], p) for i, r in enumerate(pr) for p in r.get('pairs', []) if p[2] != 'eq']
        pairs_info = {'label': 'exploration', 'documents': len(pc), 'incomparable_adjacent_pairs_swapped': npairs,
                      'swaps_with_a_different_outcome': len(bad),
                      'examples': [{'pair': b[1][:2], 'observed': C03.brief(b[1][2])} for b in bad[:5]]}

    # ---- Coq cross-check
    coq_diff, n_coq = [], 0
    if exe:
        rnd = lib.rng('C11coq')
        pool = alines + glines
        idx = sorted(rnd.sample(range(len(pool)), min(60 if not thorough else 300, len(pool))))
        outs = lib.coq_eval('C11', 'From Coq Require Import List NArith. Import ListNotations.\n'
                                   'From Verif.C20 Require Import Model.\nFrom Verif.Decl Require Import Model.',
                            [coq_expr(pool[i]) for i in idx])
        n_coq = len(outs)
        allm = list(amodel) + list(gmodel)
        from props import c20 as C20
        coq_diff = [i for i, o in zip(idx, outs) if C20.coq_result_to_line(o) != allm[i].split(' # ')[0]]

    # ---- verdict
    seen_known = set()
    nviol = 0
    for kind, fid, what, payload in verdicts:
        if kind == 'known':
            rep.known_finding(fid, what)
            seen_known.add(fid)
        elif kind == 'harness':
            rep.violation(what, payload, found_input=False)
        else:
            nviol += 1
            if nviol <= 4:
                rep.violation(what, payload)
    for i, j, hs, a, b in seed_viol[:2]:
        nviol += 1
        rep.violation(f'not deterministic: the same SDL document gives a different outcome under PYTHONHASHSEED={hs}',
                      {'case': {'docs': [pick[i]['docs'][j]]}, 'hashseed0': {k: a.get(k) for k in ('status', 'digest', 'err')},
                       f'hashseed{hs}': {k: b.get(k) for k in ('status', 'digest', 'err')},
                       'how': f'PYTHONHASHSEED={hs} ... c03_impl.py /repo perm with "digest": true'})
    if not nviol:
        if exe is None:
            rep.violation('model does not build: ' + blog[-1500:], {'broken': 'extraction of theories/Decl/Model.v'}, False)
        if gmism:
            i = min(gmism, key=lambda j: len(glines[j]))
            rep.violation(f'correspondence broken: on the dependency graph built by the real sdl_to_ddl the model returns a '
                          f'different order than the real topological.sort ({len(gmism)} of {len(glines)} graphs)',
                          {'broken': 'correspondence Decl.sdl_order vs declarative.sdl_to_ddl (normalisation + sort)',
                           'case': slim(cases[gref[i]], [0]), 'graph_line': glines[i], 'impl_result': gexp[i],
                           'model_result': gmodel[i]}, False)
        if amism:
            i, a, b = amism[0]
            rep.violation(f'correspondence broken: abstract document, model says {a!r} but the real apply_sdl gives {b!r} '
                          f'({len(amism)} of {len(adocs)})',
                          {'broken': 'correspondence Decl.sdl_apply vs apply_sdl on type/extending documents',
                           'case': {'docs': [abs_sdl(adocs[i][0])]}, 'model_line': alines[i], 'model_result': amodel[i]}, False)
        if coq_diff:
            rep.violation('extracted model disagrees with vm_compute inside Coq', {'broken': 'extraction'}, False)
        if not pf['ok']:
            rep.violation('proof obligations no longer check: ' + '; '.join(pf['broken'][:6]),
                          {'broken': pf['broken'], 'log_tail': pf['log'][-3000:]}, False)

    # ---- evidence
    ndocs = sum(len(c['docs']) for c in cases)
    outcome = {}
    distinct = set()
    shapes = {}
    perm_hist = {}
    feats = {}
    for c, r in zip(cases, res):
        if not r or 'docs' not in r:
            continue
        sts = [d['status'] for d in r['docs']]
        key = 'all-accepted' if all(s == 'ok' for s in sts) else ('all-rejected' if all(s != 'ok' for s in sts) else 'order-dependent')
        if key == 'all-rejected':
            key += ':' + '/'.join(sorted({err_class(d['err']) for d in r['docs']}))
        outcome[c['kind'] + ':' + key] = outcome.get(c['kind'] + ':' + key, 0) + 1
        nm, nd, nb = c.get('shape', (0, 0, 0))
        cap = r['docs'][0].get('graph') or {}
        nedges = sum(len(v) for v in cap.get('deps', {}).values())
        if len(c['docs']) >= 3 and nd >= 2 and nedges >= 2:
            distinct.add(hashlib.sha256(c['docs'][0].encode()).hexdigest())
        shapes[f'{min(nd, 12)}d'] = shapes.get(f'{min(nd, 12)}d', 0) + 1
        perm_hist[min(len(c['docs']), 30)] = perm_hist.get(min(len(c['docs']), 30), 0) + 1
        for f in c.get('feat', []):
            feats[f] = feats.get(f, 0) + 1
    rep.coverage.update({
        'evaluations': ndocs + len(adocs) + len(glines),
        'distinct_nontrivial': len(distinct),
        'rule': 'document case non-trivial = >= 2 declarations, >= 2 dependency edges in the graph the real sdl_to_ddl '
                'built, loaded in >= 3 different orders; distinct = distinct original text',
        'exhaustive': False,
        'exhaustive_subspaces': [f'all permutations of the top-level declarations for single-module documents with <= '
                                 f'{5 if thorough else 3} declarations']
                                + (['abstract documents: 3 types, every subset of bases, every listing order (2058)'] if thorough else []),
        'samples': [cases[i]['docs'][min(1, len(cases[i]['docs']) - 1)][:300] for i in (0, len(cases) // 2, len(cases) - 1)],
        'traces_validated_against_impl': len(glines) + len(adocs),
        'model_vs_impl_disagreements': len(gmism) + len(amism),
        'documents': len(cases),
        'document_orders_loaded_by_real_code': ndocs,
        'orders_per_document_histogram': dict(sorted(perm_hist.items())),
        'declarations_per_document_histogram': dict(sorted(shapes.items())),
        'outcomes': dict(sorted(outcome.items())),
        'features_hit': dict(sorted(feats.items())),
        'real_graphs_compared_with_model': len(glines),
        'abstract_documents_compared': len(adocs),
        'abstract_outcome_classes_model/real': aclasses,
        'containers_fed_to_topological_sort': set_kinds,
        'hashseed_probe': {'documents': len(pick) * 2, 'seeds': seeds, 'outcome_or_schema_differs': len(seed_viol),
                           'ddl_order_differs(allowed)': order_diff},
        'coq_vm_compute_cross_checked': n_coq,
        'monitor_failures': nviol,
        'known_findings_seen': sorted(seen_known),
        'trusted_base': [
            'Coq 8.16.1 kernel (coqc; coqchk in the thorough tier); vm_compute only in cases.v / Examples',
            'extraction: ExtrOcamlBasic only; OCaml 4.13.1; ocaml/conv.ml + c11_main.ml',
            'harness: text-level SDL splitter/permuter (c03_gen), generators, structural dump + own-diff comparison, '
            'graph capture by wrapping `topological` as seen by edb.edgeql.declarative',
            'vrt substrate (stubs, substitute LR parser, std schema pickle)',
            'modelled, not verified: HOW the tracer finds the references of a declaration (trace_layout_*, '
            'trace_dependencies, tracer.py) is an input of the model; missed edges are searched by the permutation monitors',
        ],
    })
    if pairs_info is not None:
        rep.coverage['commutation_probe'] = pairs_info
    rep.assumptions = ['dependency edges of a declaration = its references (tracer output is a model input)',
                       'QualName order = tuple order of (module, name) strings']
    import resource
    ru = resource.getrusage(resource.RUSAGE_CHILDREN)
    rep.coverage['cpu_seconds_children'] = round(ru.ru_utime + ru.ru_stime, 1)
    rep.notes.append(f'total {time.time() - t0:.0f}s')
    return rep.finish()


def _run_perm_env(pcases, env):
    import subprocess
    from concurrent.futures import ThreadPoolExecutor
    argv = [lib.PY, IMPL, lib.REPO, 'perm']
    w = 4
    idx = [list(range(k, len(pcases), w)) for k in range(w)]
    idx = [ix for ix in idx if ix]

    def one(ix):
        data = '\n'.join(json.dumps(pcases[i]) for i in ix) + '\n'
        q = subprocess.run(argv, input=data, env=env, stdout=subprocess.PIPE, stderr=subprocess.PIPE, text=True, timeout=7200)
        if q.returncode != 0:
            raise RuntimeError(f'c03_impl rc={q.returncode}\n{q.stderr[-3000:]}')
        return [json.loads(l) for l in q.stdout.split('\n') if l]
    res = [None] * len(pcases)
    with ThreadPoolExecutor(len(idx)) as ex:
        for ix, rs in zip(idx, ex.map(one, idx)):
            for i, r in zip(ix, rs):
                res[i] = r
    return res


def coq_expr(line):
    base, ns = line.split(';')
    L = lambda s: '[' + '; '.join(f'{x}%N' for x in s.split(',') if x) + ']'
    nodes = []
    for e in ns.split('|'):
        k, c, r, w, l = e.split(':')
        nodes.append(f'mkNode {k}%N {c}%N 0%N {L(r)} {L(w)} {L(l)}')
    return f'sdl_order {L(base)} [{"; ".join(nodes)}]'


def replay(path):
    d = json.load(open(path))
    case = dict(d['replay']['case'])
    case.setdefault('id', 0)
    case.setdefault('own', 1)
    case['orders'] = True
    r = C03.run_impl([case], 'perm', workers=1)[0]
    for i, (doc, e) in enumerate(zip(case['docs'], r['docs'])):
        print(f'--- order {i}:\n{doc}')
        if e['status'] == 'ok':
            print('  accepted; compared with order 0:', C03.brief(e.get('cmp', 'eq')))
        else:
            print('  REJECTED:', e['err']['type'], e['err']['msg'][:300])
    return 0
