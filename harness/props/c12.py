"""C12 — statically inferred result types match evaluated values.

Proof : coq/theories/C12 — executable model of overload resolution / implicit-cast distance /
        common-type computation / polymorphic instantiation (`type_of`) over the std signature
        table translated from edb/lib (Gen_StdSig.v), a value semantics `eval`, and theorems for
        ALL expressions of the core calculus, signatures and primitive semantics satisfying the
        stated hypotheses (C12_sound ...), closed under the global context.
Tie   : (a) translator harness/translate/c12_stdsig.py regenerates Gen_StdSig.v from the current
            tree on every run (fail-closed) and the result is compared with the signatures of the
            REAL schema objects built by the real bootstrap (SIGDUMP);
        (b) correspondence: model `type_of` (OCaml extraction) vs the real
            `compile_ast_to_ir(...).stype` on generated expressions — exhaustive over scalar kinds
            for every operator / function name at arity <= 2, set-like forms over a universe of
            scalars + collections, random typed trees, and a malformed stream; plus the type
            algebra functions themselves (find_common, cast distance, issubclass, ...) on all
            pairs of a type universe.
Monitors (real code only): output type descriptor (sertypes.describe/parse) denotes ir.stype;
        ir.expr.typeref names ir.stype; values computed by edb.tools.toy_eval_model belong to the
        inferred type; call arguments structurally conform to the bound parameter types.
"""
from __future__ import annotations

import json
import os
import re
import subprocess
import sys
import time

import lib

sys.path.insert(0, os.path.join(lib.VERIF, 'harness', 'translate'))
sys.path.insert(0, os.path.join(lib.VERIF, 'harness', 'props'))

import c12_gen as G      # noqa: E402

PROP = 'C12'
THEOREMS = [
    'C12_sound', 'C12_type_independent_of_values', 'C12_stmt_type_sound', 'C12_resolve_order_independent',
    'C12_subsumption', 'C12_union_type_sound', 'C12_std_sig_wf',
    'C12_std_common_type_upper_bound', 'C12_std_common_symmetric', 'C12_std_common_order_independent',
]
REFUTED = ['C12_sound_without_clean_refuted', 'C12_common_type_symmetry_refuted']
KF_TUPLE = 'C12-tuple-arity-subclass'
IMPL = os.path.join(lib.VERIF, 'harness', 'impl', 'c12_impl.py')
COQ_DIR = os.path.join(lib.COQ, 'theories', 'C12')
WORK = os.path.join(lib.CACHE, 'c12')


# ---------------------------------------------------------------- translator

def regenerate():
    """returns (manifest | None, error | None)"""
    import importlib
    import c12_stdsig
    importlib.reload(c12_stdsig)
    try:
        with lib.Lock('c12_gen'):
            return c12_stdsig.generate(lib.REPO, COQ_DIR), None
    except c12_stdsig.TranslateError as e:
        return None, f'TranslateError: {e}'
    except Exception as e:      # noqa
        return None, f'{type(e).__name__}: {e}'


def sig_canon_from_manifest(sig):
    def P(ps):
        return [[q['name'], q['kind'], q['typemod'], q['type'], q['default']] for q in ps]
    return {
        'scalars': {n: {'abstract': s['abstract'], 'enum': s['enum'] is not None, 'ancestors': s['ancestors']}
                    for n, s in sig['scalars'].items()},
        'objtypes': {n: {'ancestors': o['ancestors']} for n, o in sig['objtypes'].items()},
        'casts': sorted([[c['from'], c['to'], c['implicit'], c['assignment']] for c in sig['casts']], key=json.dumps),
        'operators': sorted([[o['name'], o['kind'], o['abstract'], o['recursive'], o['derivative_of'],
                              P(o['params']), o['ret_typemod'], o['ret']] for o in sig['operators']], key=json.dumps),
        'functions': sorted([[f['name'], P(f['params']), f['ret_typemod'], f['ret']] for f in sig['functions']],
                            key=json.dumps),
    }


def sig_diff(mine, real):
    """list of human-readable differences between the translated and the real signatures"""
    out = []
    for n, s in mine['scalars'].items():
        if real['scalars'].get(n) != s:
            out.append(f'scalar {n}: translated {s} real {real["scalars"].get(n)}')
    for n in real['scalars']:
        if n not in mine['scalars']:
            out.append(f'scalar {n}: only in the real schema')
    for n, o in mine['objtypes'].items():
        if real['objtypes'].get(n) != o:
            out.append(f'object type {n}: translated {o} real {real["objtypes"].get(n)}')
    for key in ('casts', 'operators', 'functions'):
        a = {json.dumps(x) for x in mine[key]}
        b = {json.dumps(x) for x in real[key]}
        for x in sorted(a - b)[:5]:
            out.append(f'{key}: only translated: {x[:300]}')
        for x in sorted(b - a)[:5]:
            out.append(f'{key}: only real: {x[:300]}')
        if len(mine[key]) != len(real[key]):
            out.append(f'{key}: {len(mine[key])} translated vs {len(real[key])} real')
    return out


# ---------------------------------------------------------------- running both sides

def write_spec(ids: G.Ids, flags=''):
    os.makedirs(WORK, exist_ok=True)
    spec = {'manifest': os.path.join(COQ_DIR, 'Gen_StdSig.manifest.json'), 'user_sdl': ids.user_sdl(),
            'user_ids': ids.user, 'flags': flags}
    path = os.path.join(WORK, f'spec_{os.getpid()}_{flags or "x"}.json')
    with open(path, 'w') as f:
        json.dump(spec, f)
    return path


def run_impl(lines, spec, nproc=8):
    """the real code on every line; lines are dealt round-robin to the worker processes (the
    streams differ a lot in cost per line) and the results put back in order"""
    n = max(1, min(nproc, (len(lines) + 199) // 200))
    order = [i for k in range(n) for i in range(k, len(lines), n)]
    res = lib.parallel_lines([lib.PY, IMPL, lib.REPO, spec], [lines[i] for i in order], nproc=n,
                             env=lib.impl_env())
    out = [None] * len(lines)
    for i, r in zip(order, res):
        out[i] = r
    return out


def split_impl(r):
    """impl line -> (result, text, [monitor failures], toy_checked)"""
    parts = r.split('\t')
    res = parts[0]
    toyc = res.endswith(' #toy')
    if toyc:
        res = res[:-5]
    text = parts[1] if len(parts) > 1 else ''
    bad = [b[1:] for b in parts[2].split(' ') if b.startswith('!')] if len(parts) > 2 else []
    return res, text, bad, toyc


# error kinds the model is entitled to: real kind -> set of model kinds counted as agreement
def results_agree(impl_res, model_res):
    if impl_res == model_res:
        return True
    return False


def corpus():
    p = os.path.join(lib.VERIF, 'corpus', 'C12')
    out = []
    if os.path.isdir(p):
        for fn in sorted(os.listdir(p)):
            if fn.endswith('.json'):
                out.append(json.load(open(os.path.join(p, fn)))['case'])
    return out


def gen_cases(tier, g: G.G, exe=None, ext='-'):
    """-> list of (kind, expr term)"""
    r = lib.rng('C12')
    cases = []
    u0 = g.universe(0)
    u1 = g.universe(1)
    u2 = g.universe(2)
    if tier == 'quick':
        cases += list(G.stream_binops(g, u0))                        # exhaustive: infix ops x core^2
        rest = [x for x in u2 if x not in u0]
        probe = [x for x in u0 if x[0] in ('std::int64', 'std::str')]
        extra = []
        for name in g.infix:
            for (_, a) in rest:
                for (_, b) in probe:
                    extra.append(('binop', g.op(name, a, b)))
                    extra.append(('binop', g.op(name, b, a)))
                extra.append(('binop', g.op(name, a, a)))
        cases += r.sample(extra, 1000)
        cases += list(G.stream_prefix(g, u2))                         # exhaustive: prefix ops x universe
        cases += list(G.stream_setlike(g, u0))                        # exhaustive: set forms x core^2
        cases += r.sample(list(G.stream_setlike(g, u1[14:50] + r.sample(u2, 14))), 1000)
        objs_u = [x for x in u2 if x[0] in g.objs]
        cases += list(G.stream_setlike(g, objs_u))                     # exhaustive: set forms x object types^2
        coll_num = [(f'tuple<{n}>', g.tup(g.atom(n))) for n in g.numeric] + \
                   [(f'array<{n}>', g.arr(g.atom(n))) for n in g.numeric]
        cases += list(G.stream_setlike(g, coll_num))                   # exhaustive: set forms x numeric 1-tuples/arrays
        cases += r.sample(list(G.stream_triples(g)), 700)
        cases += r.sample(list(G.stream_funcs(g, u1[:30], u0[:8])), 1000)
        poly = {'std::array_agg', 'std::array_unpack', 'std::min', 'std::max', 'std::sum', 'std::count',
                'std::assert_single', 'std::assert_exists', 'std::assert_distinct', 'std::enumerate',
                'std::array_get', 'std::array_fill', 'std::contains', 'std::find', 'std::range',
                'std::multirange', 'std::range_unpack', 'std::array_join', 'std::len', 'std::math::mean'}
        cases += list(G.stream_funcs(g, u1[:44], u0[:7], names=poly))  # exhaustive: polymorphic functions
        cases += r.sample(list(G.stream_recursive(g)), 600)
        cases += list(G.stream_indirection(g, u1))
        cases += list(G.stream_paths(g, u0[:6] + u1[-10:]))
        cases += r.sample(list(G.stream_casts(g, u1[:34])), 600)
        cases += r.sample(list(G.stream_userfuncs(g, u2)), 500)
        nrand, nmal = 2000, 800
    else:
        sc1 = [x for x in u1 if x[0] in g.all_scalars] + [x for x in u1 if x[0] not in g.all_scalars][:14]
        cases += list(G.stream_binops(g, sc1))                        # exhaustive: infix ops x (all scalars + colls)^2
        rest = [x for x in u2 if x not in sc1]
        for name in g.infix:
            for (_, a) in rest:
                for (_, b) in u0:
                    cases.append(('binop', g.op(name, a, b)))
                    cases.append(('binop', g.op(name, b, a)))
                cases.append(('binop', g.op(name, a, a)))
        cases += list(G.stream_prefix(g, u2))
        cases += list(G.stream_setlike(g, u2))                        # exhaustive: set forms x universe^2
        cases += list(G.stream_setlike(g, [(f'tuple<{n}>', g.tup(g.atom(n))) for n in g.numeric]
                                       + [(f'array<{n}>', g.arr(g.atom(n))) for n in g.numeric]))
        cases += list(G.stream_triples(g))
        cases += list(G.stream_funcs(g, u2, u0 + u1[-10:]))
        cases += list(G.stream_recursive(g))
        cases += list(G.stream_indirection(g, u2))
        cases += list(G.stream_paths(g, u2))
        cases += list(G.stream_casts(g, u2))
        cases += list(G.stream_userfuncs(g, u2))
        nrand, nmal = 40000, 10000
    cases += list(G.stream_named_tuples(g))        # exhaustive in BOTH tiers: named-tuple variants x set forms
    # random typed trees: mostly valid.  Candidates are drawn from the type-family-biased generator
    # and, when the model binary is available, selected so that about 3/4 of the stream is accepted
    # by the model (the real compiler is run on every selected case all the same).
    cands = [G.random_expr(g, r, r.choice((2, 3, 3, 4))) for _ in range(nrand * 3)]
    picked = None
    if exe:
        try:
            res = lib.run_model(exe, [f'T {ext} {e}' for e in cands])
            okc = [e for e, m in zip(cands, res) if m.startswith('OK')]
            bad = [e for e, m in zip(cands, res) if not m.startswith('OK')]
            n_ok = min(len(okc), (nrand * 3) // 4)
            picked = okc[:n_ok] + bad[:nrand - n_ok]
            r.shuffle(picked)
        except Exception:      # noqa
            picked = None
    if picked is None:
        picked = cands[:nrand]
    cases += [('random', e) for e in picked]
    cases += list(G.stream_malformed(g, r, nmal))
    return cases


def pair_cases(g: G.G, tier):
    """type-algebra probes: (cmd, tyA, tyB) over a universe of type terms"""
    ids = g.ids
    S = g.S
    sc = [S(n) for n in g.all_scalars + g.no_atom] + [S(n) for n in sorted(ids.abstract)]
    core = [S(n) for n in g.core]
    colls = []
    for n in (g.numeric + ['std::str', 'std::datetime']) if tier != 'quick' else \
            ['std::int16', 'std::int64', 'std::float32', 'std::float64', 'std::decimal', 'std::str']:
        colls += [f'(arr {S(n)})', f'(rng {S(n)})', f'(mrng {S(n)})', f'(tup 0 (0 {S(n)}))',
                  f'(tup 1 ({ids.name["a"]} {S(n)}))', f'(tup 0 (0 {S(n)}) (1 {S("std::str")}))']
    colls += ['any', 'anytuple', 'anyobject', '(arr any)', '(rng (s %d))' % ids.scalar['std::anypoint'],
              f'(tup 1 ({ids.name["b"]} {S("std::int64")}))', f'(arr (tup 0 (0 {S("std::int64")})))',
              f'(arr (tup 0 (0 {S("std::float64")})))']
    objs = [f'(obj {ids.objtype[n]})' for n in g.objs] + \
           [f'(obj {ids.objtype[n]})' for n in ('std::Object', 'std::BaseObject', 'std::FreeObject')]
    if tier != 'quick':
        univ = sc + colls + objs
    else:
        univ = core[:9] + [S(n) for n in ('default::myint', 'default::myint2', 'default::Color', 'std::anyint',
                                          'std::cal::local_date', 'std::cal::local_datetime')] \
            + colls[:18] + colls[-8:] + objs[:4]
    out = []
    for a in univ:
        for b in univ:
            for cmd in 'CDSKPI':
                out.append(f'{cmd} {a} {b}')
    # named tuples: same names / permuted / overlapping / unnamed / nested, opposite cast directions per
    # field - all ordered pairs among themselves and against a few scalars / collections (both tiers)
    nt = G.named_tuple_type_terms(g)
    others = [S('std::int64'), S('std::float64'), 'anytuple', 'any', f'(arr {S("std::int64")})']
    for a in nt:
        for b in nt + others:
            for cmd in 'CDSKPI':
                out.append(f'{cmd} {a} {b}')
                if b in others:
                    out.append(f'{cmd} {b} {a}')
    return out


def seed_queries():
    """upstream tests/test_edgeql_ir_type_inference.py (+ test_edgeql_ir_*_inference) queries: seeds for the
    monitors (descriptor / expr type / toy evaluator); also recombined"""
    out = []
    tdir = os.path.join(lib.REPO, 'tests')
    for fn in ('test_edgeql_ir_type_inference.py', 'test_edgeql_ir_card_inference.py',
               'test_edgeql_ir_mult_inference.py'):
        p = os.path.join(tdir, fn)
        if not os.path.exists(p):
            continue
        src = open(p, encoding='utf-8').read()
        for m in re.finditer(r'def test_\w+\(self\):\s*r?"""(.*?)% OK %', src, re.S):
            q = ' '.join(m.group(1).split())
            if q and len(q) < 400:
                out.append(q)
    return out


def recombine(seeds, r, n):
    out = []
    sel = [q for q in seeds if q.upper().startswith('SELECT') and ';' not in q]
    if not sel:
        return out
    for _ in range(n):
        a, b = r.choice(sel), r.choice(sel)
        ea, eb = a[6:].strip(), b[6:].strip()
        k = r.random()
        if k < 0.3:
            out.append(f'select (({ea}), ({eb}))')
        elif k < 0.55:
            out.append(f'select {{({ea}), ({eb})}}')
        elif k < 0.7:
            out.append(f'select array_agg(({ea}))')
        elif k < 0.85:
            out.append(f'select (({ea}) ?? ({eb}))')
        else:
            out.append(f'select (x := ({ea}), y := [({eb})] if true else [({eb})])')
    return out


# ---------------------------------------------------------------- Coq literals (vm_compute cross-check)

def _sx(s):
    """tiny s-expression reader -> nested lists / atoms"""
    out, stack = [], []
    cur = out
    i, n = 0, len(s)
    while i < n:
        c = s[i]
        if c == ' ':
            i += 1
        elif c == '(':
            new = []
            cur.append(new)
            stack.append(cur)
            cur = new
            i += 1
        elif c == ')':
            cur = stack.pop()
            i += 1
        else:
            j = i
            while j < n and s[j] not in ' ()':
                j += 1
            cur.append(s[i:j])
            i = j
    return out


def coq_ty(t):
    if t == 'any':
        return 'TAny'
    if t == 'anytuple':
        return 'TAnyTuple'
    if t == 'anyobject':
        return 'TAnyObject'
    k = t[0]
    if k == 's':
        return f'(TS {t[1]})'
    if k == 'obj':
        return f'(TObj {t[1]})'
    if k == 'union':
        return '(TUnion [' + '; '.join(t[1:]) + '])'
    if k in ('arr', 'rng', 'mrng'):
        return f'({ {"arr": "TArr", "rng": "TRng", "mrng": "TMRng"}[k]} {coq_ty(t[1])})'
    if k == 'tup':
        return f'(TTup {"true" if t[1] == "1" else "false"} [' + '; '.join(f'({n}, {coq_ty(e)})' for n, e in t[2:]) + '])'
    raise ValueError(t)


def coq_expr(e):
    if e == 'empty':
        return 'EEmpty'
    k = e[0]
    if k == 'lit':
        return f'(ELit {e[1]})'
    if k == 'cast':
        return f'(ECast {coq_ty(e[1])} {coq_expr(e[2])})'
    if k == 'tuple':
        return f'(ETuple {"true" if e[1] == "1" else "false"} [' + '; '.join(f'({n}, {coq_expr(x)})' for n, x in e[2:]) + '])'
    if k == 'array':
        return '(EArray [' + '; '.join(coq_expr(x) for x in e[1:]) + '])'
    if k == 'set':
        return '(ESet [' + '; '.join(coq_expr(x) for x in e[1:]) + '])'
    if k == 'op':
        return f'(EOp {e[1]} [' + '; '.join(coq_expr(x) for x in e[2:]) + '])'
    if k == 'call':
        return f'(ECall {e[1]} [' + '; '.join(coq_expr(x) for x in e[2]) + '] [' + \
               '; '.join(f'({n}, {coq_expr(x)})' for n, x in e[3]) + '])'
    if k == 'tidx':
        return f'(ETupIdx {coq_expr(e[1])} {e[2]})'
    if k == 'idx':
        return f'(EIndex {coq_expr(e[1])} {coq_expr(e[2])})'
    if k == 'objset':
        return f'(EObj {e[1]})'
    if k == 'ptr':
        return f'(EPtr {coq_expr(e[1])} {e[2]})'
    raise ValueError(e)


def coq_ext(ext):
    scs, obs, cs, fs, ptrs = _sx(ext)[0]
    b = lambda x: 'true' if x == '1' else 'false'     # noqa: E731
    S = '[' + '; '.join(f'mk_scalar {i} {b(ab)} {b(en)} [{"; ".join(anc)}]' for i, ab, en, anc in scs) + ']'
    O = '[' + '; '.join(f'mk_objtype {i} [{"; ".join(anc)}]' for i, anc in obs) + ']'
    TM = {'one': 'TmOne', 'opt': 'TmOpt', 'set': 'TmSet'}
    PK = {'pos': 'PkPos', 'var': 'PkVar', 'named': 'PkNamed'}
    F = []
    for k, (nm, isop, ab, rc, dv, ps, rm, rt) in enumerate(fs):
        P = '[' + '; '.join(f'mk_param {pn} {PK[pk]} {TM[pm]} {coq_ty(pt)} {b(pd)}' for pn, pk, pm, pt, pd in ps) + ']'
        F.append(f'mk_callable {100001 + k} {nm} {b(isop)} {b(ab)} {b(rc)} '
                 f'{"None" if dv == "-" else "(Some " + dv + ")"} {P} {TM[rm]} {coq_ty(rt)}')
    P = '[' + '; '.join(f'({o}, {pn}, {coq_ty(t)})' for o, pn, t in ptrs) + ']'
    return f'(sig_extend std_sig {S} {O} [] [{"; ".join(F)}])', P


COQ_REQ = ('From Coq Require Import List NArith ZArith Bool. Import ListNotations.\n'
           'From Verif.C12 Require Import Model Gen_StdSig Proofs.\nLocal Open Scope N_scope.\n'
           'Definition res_is (r : res (ty * bool)) (t : ty) (c : bool) : bool :=\n'
           '  match r with Ok (t1, c1) => ty_eqb t1 t && Bool.eqb c1 c | Err _ => false end.\n'
           'Definition res_err (r : res (ty * bool)) : bool := match r with Ok _ => false | Err _ => true end.\n')


def coq_check_expr(ext_coq, expr_term, model_res):
    """a Coq boolean that is true iff vm_compute inside Coq agrees with the extracted binary"""
    e = coq_expr(_sx(expr_term)[0])
    call = f'stmt_type_clean USIG s_int64 UPTRS {e}'
    if model_res.startswith('OK '):
        body = model_res[3:]
        clean = 'true'
        if body.endswith(' unclean'):
            body, clean = body[:-8], 'false'
        return f'res_is ({call}) {coq_ty(_sx(body)[0])} {clean}'
    return f'res_err ({call})'


# ---------------------------------------------------------------- shrinking

def subexprs(t):
    """all proper sub-expressions of an expression term (as nested lists)"""
    out = []
    if not isinstance(t, list):
        return out
    k = t[0]
    kids = []
    if k == 'cast':
        kids = [t[2]]
    elif k == 'tuple':
        kids = [x for _, x in t[2:]]
    elif k in ('array', 'set'):
        kids = t[1:]
    elif k == 'op':
        kids = t[2:]
    elif k == 'call':
        kids = list(t[2]) + [x for _, x in t[3]]
    elif k in ('tidx', 'ptr'):
        kids = [t[1]]
    elif k == 'idx':
        kids = [t[1], t[2]]
    for c in kids:
        out.append(c)
        out += subexprs(c)
    return out


def unsx(t):
    if isinstance(t, list):
        return '(' + ' '.join(unsx(x) for x in t) + ')'
    return t


def shrink_expr(expr_term, bad):
    """greedy sub-term hoisting: bad(list of expr terms) -> list of bool"""
    cur = expr_term
    for _ in range(8):
        cands = []
        seen = set()
        for s_ in subexprs(_sx(cur)[0]):
            u = unsx(s_)
            if u not in seen and len(u) < len(cur):
                seen.add(u)
                cands.append(u)
        if not cands:
            break
        cands.sort(key=len)
        res = bad(cands)
        hit = [c for c, b in zip(cands, res) if b]
        if not hit:
            break
        cur = hit[0]
    return cur


# ---------------------------------------------------------------- run

def is_tuple_arity_flag(flag):
    """arg-nonconforming[f:i:tuple<..>->tuple<..>] where the two tuple types differ in arity at
    some tuple nesting level (the predicate of known finding C12-tuple-arity-subclass)"""
    m = re.match(r'arg-nonconforming\[(.*?):(\d+):(.*)->(.*)\]$', flag)
    if not m:
        return False
    a, b = m.group(3), m.group(4)

    def shape(s):
        # tuple<x,y<..>> -> nested arity structure
        s = s.strip()
        if not s.startswith('tuple<'):
            return None
        depth, parts, cur = 0, [], ''
        for ch in s[6:-1]:
            if ch == '<':
                depth += 1
            elif ch == '>':
                depth -= 1
            if ch == ',' and depth == 0:
                parts.append(cur)
                cur = ''
            else:
                cur += ch
        if cur:
            parts.append(cur)
        return [shape(p.split(':', 1)[1] if (':' in p and not p.strip().startswith('tuple<') and '::' not in p.split(':', 1)[0]) else p)
                for p in parts]

    def differ(x, y):
        if x is None or y is None:
            return False
        if len(x) != len(y):
            return True
        return any(differ(p, q) for p, q in zip(x, y))
    return differ(shape(a), shape(b))


def run(tier):
    rep = lib.Report(PROP, tier, 'proof')
    thorough = tier == 'thorough'
    t_start = time.time()
    timings = {}

    def lap(name):
        nonlocal t_start
        timings[name] = round(time.time() - t_start, 1)
        t_start = time.time()

    # 1. translator (tie a)
    man, tr_err = regenerate()
    stale = False
    if man is None:
        mp = os.path.join(COQ_DIR, 'Gen_StdSig.manifest.json')
        if os.path.exists(mp):
            man = json.load(open(mp))
            stale = True

    lap('translate')
    # 2. proofs
    pf = lib.proof_stage(rep, 'C12', THEOREMS, extra_targets=['theories/C12/Refuted.vo'], thorough=thorough)
    rok, rproved, rlog = lib.coq_props('C12', 'Refuted.v') if pf['ok'] else (False, {}, 'skipped')
    for t in REFUTED:
        if pf['ok'] and (not rok or rproved.get(t) != []):
            pf['ok'] = False
            pf['broken'].append(f'{t}: refutation witness does not check')
    rep.coverage['refutation_witnesses'] = {t: ('checked' if rproved.get(t) == [] else 'NOT CHECKED')
                                           for t in REFUTED}

    lap('proofs')
    # 3. model
    exe, blog = lib.build_model('c12', 'ExtractC12.v', 'c12_main.ml', 'C12_ext')
    lap('build_model')

    if man is None:
        rep.violation('translator failed and no previous signature table exists: ' + str(tr_err),
                      {'broken': 'harness/translate/c12_stdsig.py', 'error': tr_err}, False)
        rep.coverage.update({'evaluations': 0, 'distinct_nontrivial': 0, 'rule': 'nothing ran', 'samples': [],
                             'trusted_base': []})
        return rep.finish()

    ids = G.Ids(man)
    g = G.G(ids)
    ext = ids.user_ext()
    spec = write_spec(ids)
    spec_n = write_spec(ids, 'N')

    # 4. cases
    cases = [('corpus', c) for c in corpus()] + gen_cases(tier, g, exe, ext)
    lines = [f'T {ext} {e}' for _, e in cases]
    plines_raw = pair_cases(g, tier)
    plines = [f'{l[0]} {ext} {l[2:]}' for l in plines_raw]
    seeds = seed_queries()
    rs = lib.rng('C12seeds')
    qtexts = seeds + recombine(seeds, rs, 250 if not thorough else 5000) if seeds else []
    qlines = ['Q ' + q.encode().hex() for q in qtexts]

    lap('generate')
    t0 = time.time()
    # one process first: it (re)builds the std-schema cache of the substrate if the sources changed,
    # so that the parallel workers only load it
    try:
        sig_real = run_impl(['SIGDUMP'], spec, nproc=1)[0]
        all_impl = run_impl(lines + plines + qlines, spec)
    except (RuntimeError, subprocess.SubprocessError) as e:
        # the real code could not even be started on this tree (e.g. the std library no longer
        # compiles under the modified compiler): that is a failure of the implementation under test
        msg = str(e)
        last = [ln for ln in msg.strip().split('\n') if ln.strip()][-1] if msg.strip() else ''
        rep.violation('the real EdgeQL compiler of this tree cannot bootstrap the std schema / run the driver: '
                      + last[:300],
                      {'broken': 'harness/impl/c12_impl.py start-up on ' + lib.REPO, 'error_tail': msg[-3000:],
                       'how': f'PYTHONPATH={lib.REPO}:/verif/harness /venv/bin/python harness/impl/c12_impl.py '
                              f'{lib.REPO} <spec> <<< SIGDUMP'}, False)
        rep.coverage.update({'evaluations': len(lines), 'distinct_nontrivial': 0,
                             'rule': 'the implementation driver failed at start-up; nothing compared',
                             'samples': [lines[0][len(ext) + 3:]] if lines else [], 'trusted_base': []})
        return rep.finish()
    impl_s = time.time() - t0
    impl = all_impl[:len(lines)]
    pimpl = all_impl[len(lines):len(lines) + len(plines)]
    qimpl = all_impl[len(lines) + len(plines):]
    # determinism probe on a slice (every case compiled twice in one process)
    nd = min(len(lines), 500 if not thorough else 15000)
    step = max(1, len(lines) // nd)
    didx = list(range(0, len(lines), step))
    dimpl = run_impl([lines[i] for i in didx], spec_n)
    lap('impl')

    model = pmodel = None
    if exe:
        t0 = time.time()
        model = lib.run_model(exe, lines)
        pmodel = lib.run_model(exe, plines)
        model_s = time.time() - t0

    lap('model')
    # 5. signature tie
    sigdiff = []
    try:
        sigdiff = sig_diff(sig_canon_from_manifest(man['sig']), json.loads(sig_real))
    except Exception as e:      # noqa
        sigdiff = [f'SIGDUMP unreadable: {type(e).__name__}: {e}: {sig_real[:200]}']

    # 6. compare
    known = {k['id']: k for k in lib.known_findings(PROP)}
    mon_fail, kf_hits, hard, soft, clean_mism, harness_err = [], [], [], [], [], []
    n_ok = n_unsup = n_toy = n_cmp = n_nontype = 0
    err_kinds, ok_kinds = {}, {}
    for i, (l, r) in enumerate(zip(lines, impl)):
        ires, text, bad, toyc = split_impl(r)
        n_toy += toyc
        if ires.startswith('HARNESS-ERROR'):
            harness_err.append(i)
            continue
        for b in bad:
            if is_tuple_arity_flag(b) and KF_TUPLE in known:
                kf_hits.append((i, b))
            else:
                mon_fail.append((i, b))
        if ires.startswith('OK'):
            n_ok += 1
        else:
            err_kinds[ires] = err_kinds.get(ires, 0) + 1
        if model is None:
            continue
        m = model[i]
        if m.startswith('BAD'):
            harness_err.append(i)
            continue
        if m == 'ERR Unsupported':
            n_unsup += 1
            continue
        if ires.startswith('ERR NonType:'):
            n_nontype += 1          # rejected by a cardinality / volatility rule, not by typing
            continue
        n_cmp += 1
        unclean = m.endswith(' unclean')
        mres = m[:-8] if unclean else m
        flagged = any(is_tuple_arity_flag(b) for b in bad)
        if ires.startswith('OK') and mres.startswith('OK') and unclean != flagged:
            clean_mism.append(i)
        if mres == ires:
            continue
        if mres.startswith('ERR') and ires.startswith('ERR') and cases[i][0] in ('random', 'malformed', 'corpus'):
            soft.append(i)          # both reject; the first error met differs in nested expressions
        else:
            hard.append(i)
    for j, i in enumerate(didx):
        if 'nondeterministic' in dimpl[j]:
            mon_fail.append((i, 'nondeterministic'))
    pmism = []
    n_pskip = 0
    if pmodel is not None:
        for i, (a, b) in enumerate(zip(pimpl, pmodel)):
            if a == 'SKIP':
                n_pskip += 1
                continue
            if a == 'EXC SchemaError' and plines_raw[i][0] == 'C' and b == 'NONE':
                continue            # get_topmost_concrete_base raises on an abstract scalar: no common type
            if a != b:
                pmism.append(i)
    qmon = []
    q_ok = q_toy = 0
    for i, r in enumerate(qimpl):
        ires, text, bad, toyc = split_impl(r)
        q_ok += ires.startswith('OK')
        q_toy += toyc
        for b in bad:
            if is_tuple_arity_flag(b) and KF_TUPLE in known:
                continue
            qmon.append((i, b))

    # 7. Coq-internal evaluation of a sample (guards extraction)
    coq_diff, n_coq = [], 0
    if model is not None and pf['ok']:
        r = lib.rng('C12coq')
        pool = [i for i in range(len(lines)) if not model[i].startswith('BAD') and model[i] != 'ERR Unsupported'
                and len(lines[i]) < len(ext) + 400]
        idx = sorted(r.sample(pool, min(120 if not thorough else 600, len(pool))))
        usig, uptrs = coq_ext(ext)
        req = COQ_REQ + f'Definition USIG := {usig}.\nDefinition UPTRS : list (N * N * ty) := {uptrs}.\n'
        try:
            outs = lib.coq_eval('C12', req, [coq_check_expr(None, cases[i][1], model[i]) for i in idx])
            n_coq = len(outs)
            coq_diff = [i for i, o in zip(idx, outs) if o.strip() != 'true']
        except Exception as e:      # noqa
            coq_diff = [-1]
            rep.notes.append('coq_eval failed: ' + str(e)[-500:])

    lap('compare+coq_eval')

    # ---- verdict
    def one_both(term):
        ln = f'T {ext} {term}'
        return split_impl(run_impl([ln], spec)[0]), (lib.run_model(exe, [ln])[0] if exe else None)

    def bad_batch_monitor(flagname):
        def f(terms):
            outs = run_impl([f'T {ext} {t}' for t in terms], spec)
            return [any(b.split('[')[0] == flagname for b in split_impl(o)[2]) for o in outs]
        return f

    reported = set()
    for i, b in mon_fail:
        key = b.split('[')[0]
        if key in reported:
            continue
        reported.add(key)
        small = cases[i][1]
        if key != 'nondeterministic':
            small = shrink_expr(cases[i][1], bad_batch_monitor(key))
        (ires, text, bad, _), m = one_both(small)
        what = {
            'desc-mismatch': 'the output type descriptor (sertypes.describe) does not denote the inferred result type',
            'expr-type-mismatch': 'the typeref of the compiled expression does not name the inferred result type',
            'toy-value-type': 'a value computed by the reference evaluator (edb.tools.toy_eval_model) does not belong '
                              'to the result type the compiler inferred',
            'arg-nonconforming': 'a call argument is passed, without a cast, to a parameter whose declared type it '
                                 'does not structurally conform to',
            'nondeterministic': 'compiling the same query twice gives different result types',
        }.get(key, key)
        rep.violation(f'monitor {key}: {what}: {text}',
                      {'case': f'T {ext} {small}', 'query': text, 'impl_result': ires, 'monitor_flags': bad,
                       'model_result': m, 'original_case': lines[i][len(ext) + 3:],
                       'how': f'VERIF_REPO={lib.REPO} ./harness/check C12 --replay <this file>'})
    for i, b in qmon[:2]:
        rep.violation(f'monitor {b} on seed query: {qtexts[i]}',
                      {'case': qlines[i], 'query': qtexts[i], 'impl_result': qimpl[i]})
    if kf_hits:
        ex = min((split_impl(impl[i])[1] for i, _ in kf_hits), key=len)
        rep.known_finding(KF_TUPLE, known[KF_TUPLE]['what'] + f' ({len(kf_hits)} generated cases hit it, e.g. `{ex}`)')

    if not mon_fail and not qmon:
        if tr_err:
            rep.violation('translator fails closed on the current edb/lib (signature table could not be '
                          f'regenerated): {tr_err}; no failing input found with the previous table',
                          {'broken': 'harness/translate/c12_stdsig.py (source shape not recognised)', 'error': tr_err,
                           'stale_table_used': stale}, False)
        if sigdiff:
            rep.violation('the translated signature table differs from the signatures of the real schema objects: '
                          + sigdiff[0][:300], {'broken': 'translator vs real schema (SIGDUMP)', 'differences': sigdiff[:10]},
                          False)
        if model is None:
            rep.violation('model does not build: ' + blog[-1500:], {'broken': 'extraction of theories/C12/Model.v'}, False)
        else:
            if hard:
                def bad_batch(terms):
                    ls = [f'T {ext} {t}' for t in terms]
                    a = run_impl(ls, spec)
                    b = lib.run_model(exe, ls)
                    out = []
                    for x, y in zip(a, b):
                        y = y[:-8] if y.endswith(' unclean') else y
                        out.append(y != 'ERR Unsupported' and split_impl(x)[0] != y)
                    return out
                i = min(hard, key=lambda j: len(lines[j]))
                small = shrink_expr(cases[i][1], bad_batch)
                (ires, text, bad, _), m = one_both(small)
                rep.violation(f'correspondence broken: model type_of and the real compiler disagree on {len(hard)} of '
                              f'{n_cmp} compared expressions (no monitor failed): {text}: real {ires}, model {m}',
                              {'broken': 'correspondence C12 Model.stmt_type_clean vs compile_ast_to_ir(...).stype',
                               'case': f'T {ext} {small}', 'query': text, 'impl_result': ires, 'model_result': m,
                               'disagreements': len(hard),
                               'by_stream': {k: sum(1 for j in hard if cases[j][0] == k) for k in {cases[j][0] for j in hard}}},
                              False)
            if clean_mism:
                i = clean_mism[0]
                rep.violation('the model\'s "clean" flag and the real IR disagree on whether an argument is passed '
                              'uncast to a parameter of a different tuple shape',
                              {'broken': 'correspondence (clean flag vs monitor arg-nonconforming)', 'case': lines[i],
                               'impl': impl[i], 'model': model[i]}, False)
            if pmism:
                i = pmism[0]
                rep.violation(f'correspondence broken: type algebra ({plines_raw[i][0]}: C=find_common, D=cast distance, '
                              f'S=issubclass, K=is_type_compatible, P=parent distance, I=implicitly_castable) differs on '
                              f'{len(pmism)} pairs: {plines_raw[i]}: real {pimpl[i]}, model {pmodel[i]}',
                              {'broken': 'correspondence C12 type algebra', 'case': plines[i], 'impl_result': pimpl[i],
                               'model_result': pmodel[i], 'disagreements': len(pmism)}, False)
            if coq_diff:
                rep.violation('extracted model disagrees with vm_compute inside Coq',
                              {'broken': 'extraction', 'case': lines[coq_diff[0]] if coq_diff[0] >= 0 else None}, False)
        if harness_err:
            i = harness_err[0]
            rep.violation(f'harness error on {len(harness_err)} cases: {impl[i][:200]} / {model[i] if model else None}',
                          {'broken': 'harness', 'case': lines[i]}, False)
        if not pf['ok']:
            rep.violation('proof obligations no longer check: ' + '; '.join(pf['broken'][:6]),
                          {'broken': pf['broken'], 'log_tail': pf['log'][-3000:]}, False)

    lap('verdict')
    # ---- evidence
    kinds = {}
    for k, _ in cases:
        kinds[k] = kinds.get(k, 0) + 1
    distinct = {e for k, e in cases if G.nontrivial(k, e)}
    valid_by_kind = {}
    for (k, _), r in zip(cases, impl):
        a = valid_by_kind.setdefault(k, [0, 0])
        a[0] += r.startswith('OK')
        a[1] += 1
    rtypes = {}
    for r in impl:
        if r.startswith('OK'):
            t = split_impl(r)[0][3:]
            key = t.split(' ')[0].strip('(') if t.startswith('(') else t
            rtypes[key] = rtypes.get(key, 0) + 1
    sizes = {}
    for _, e in cases:
        d = min(e.count('('), 40) // 5 * 5
        sizes[f'{d}-{d + 4} nodes'] = sizes.get(f'{d}-{d + 4} nodes', 0) + 1
    samp = [cases[i][1] for i in (0, len(cases) // 5, len(cases) // 2, len(cases) - 1)]
    samp_text = [split_impl(impl[i])[1] + '  =>  ' + split_impl(impl[i])[0]
                 for i in (0, len(cases) // 5, len(cases) // 2, (3 * len(cases)) // 4, len(cases) - 1)]
    rep.coverage.update({
        'evaluations': len(cases) + len(plines) + len(qlines),
        'distinct_nontrivial': len(distinct),
        'rule': 'expression cases (s-expression terms rendered to EdgeQL `select <expr>`): every infix operator name x '
                f'all ordered pairs of {"the scalar+collection universe" if thorough else "the 14 core scalar types"}, '
                'every prefix operator x the universe (scalars incl. user-defined / enum, arrays, ranges, multiranges, '
                'tuples, named tuples, object types, {}, []), UNION / ?? / IF / set literal / array literal x pairs, '
                'named tuples (same names / permuted names / overlapping names / unnamed / nested in arrays and tuples, '
                'int64 vs float64 swapped per field) x set literal, UNION, ??, IF, array literal, =, IN and function '
                'arguments (exhaustive in both tiers), 3-element sets over the numeric types, every function name with 1 and 2 arguments (polymorphic '
                'functions x the whole universe), tuple/array comparisons, indirections, casts, user-defined functions, '
                'seeded random typed trees (depth <= 4, type-family biased), and a malformed stream; non-trivial = at '
                'least 2 distinct leaf types or a collection constructor / call; distinct = distinct term. Plus '
                'type-algebra probes (find_common, cast distance, issubclass, is_type_compatible, parent distance, '
                'implicitly_castable on all ordered pairs of a type universe) and seed queries from upstream '
                'tests/test_edgeql_ir_*_inference.py, recombined (monitors only)',
        'exhaustive': False,
        'exhaustive_subspaces': ['infix operators x core scalar pairs', 'prefix operators x universe',
                                 'UNION/??/IF/set/array literal x core scalar pairs',
                                 'polymorphic functions (array_agg, array_unpack, min, max, sum, ...) x universe (arity 1) '
                                 'and core^2 (arity 2)', 'type algebra on all ordered pairs of the probe universe'],
        'samples': samp + samp_text,
        'traces_validated_against_impl': n_cmp + (len(plines) - n_pskip if pmodel is not None else 0),
        'expressions_compared': n_cmp,
        'model_abstains_unsupported': n_unsup,
        'rejected_by_non_type_rule': n_nontype,
        'type_algebra_pairs_compared': len(plines) - n_pskip,
        'model_vs_impl_disagreements': len(hard) + len(pmism) + len(clean_mism),
        'both_reject_different_first_error': len(soft),
        'coq_vm_compute_cross_checked': n_coq,
        'monitor_failures': len(mon_fail) + len(qmon),
        'known_finding_cases': len(kf_hits),
        'accepted_by_real_compiler': n_ok,
        'fraction_valid_by_stream': {k: f'{a}/{b}' for k, (a, b) in sorted(valid_by_kind.items())},
        'stream_sizes': dict(sorted(kinds.items())),
        'result_type_kinds': dict(sorted(rtypes.items(), key=lambda kv: -kv[1])[:25]),
        'rejection_kinds': dict(sorted(err_kinds.items(), key=lambda kv: -kv[1])[:20]),
        'term_sizes': dict(sorted(sizes.items())),
        'toy_evaluator_value_checks': n_toy + q_toy,
        'seed_queries': len(seeds), 'seed_queries_recombined': len(qtexts) - len(seeds), 'seed_queries_accepted': q_ok,
        'determinism_probe_cases': len(didx),
        'signature_table': man['counts'],
        'signature_sources': [f'{s["file"]} sha256={s["sha256"][:12]}' for s in man['sources']],
        'signature_table_equals_real_schema': not sigdiff,
        'impl_seconds': round(impl_s, 1),
        'stage_seconds': timings,
        'trusted_base': [
            'Coq 8.16.1 kernel (coqc; coqchk in the thorough tier); vm_compute for the finite checks over the '
            'generated table, witnesses and the cases.v cross-check',
            'extraction: ExtrOcamlBasic only, N/Z/positive kept inductive; OCaml 4.13.1; ocaml/conv.ml + c12_main.ml',
            'translator harness/translate/c12_stdsig.py (fail-closed tokenizer/parser of the CREATE headers; its '
            'output is compared with the real schema objects on every run)',
            'correspondence harness harness/props/c12.py + c12_gen.py + harness/impl/c12_impl.py (generators, '
            'EdgeQL rendering, type term conversion, error-kind classification, monitors)',
            'runtime substrate harness/rt (stubs, substitute LR parser, real Rust lexer, std schema bootstrap)',
            'modelled, not verified: the section hypotheses of C12_sound (each primitive returns its declared '
            'type; casts return their target type) - the SQL bodies of the std library and PostgreSQL are absent; '
            'tuple types are treated as non-persistent in is_type_compatible; explicit casts from json / to and '
            'from object types, union-typed operands, shapes, paths, DML, GROUP, FOR are outside the calculus '
            '(the model abstains: counted as model_abstains_unsupported)',
        ],
    })
    rep.assumptions = [
        'every operator/function implementation returns values of its declared (instantiated) return type '
        '(section hypothesis Hprim of C12_sound); casts produce values of their target type (Hcast)',
        'values: only where edb.tools.toy_eval_model implements the operation are evaluated values checked '
        'against the real compiler\'s inferred type (monitor toy-value-type); no PostgreSQL here',
    ]
    for f_ in (spec, spec_n):
        try:
            os.remove(f_)
        except OSError:
            pass
    return rep.finish()


def replay(path):
    d = json.load(open(path))
    case = d['replay'].get('case')
    man = json.load(open(os.path.join(COQ_DIR, 'Gen_StdSig.manifest.json')))
    ids = G.Ids(man)
    spec = write_spec(ids)
    exe, _ = lib.build_model('c12', 'ExtractC12.v', 'c12_main.ml', 'C12_ext')
    print('case :', case if len(case) < 3000 else case[:100] + ' ... ' + case[-400:])
    out = run_impl([case], spec)[0]
    print('impl :', out)
    if exe and not case.startswith('Q '):
        print('model:', lib.run_model(exe, [case])[0])
    return 0
