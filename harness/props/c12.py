"""C12 — statically inferred result types match evaluated values.

Proof : coq/theories/C12 — executable model of overload resolution / implicit-cast distance /
        common-type computation / polymorphic instantiation (`type_of`) over the std signature
        table translated from edb/lib (Gen_StdSig.v), a value semantics `eval`, and theorems for
        ALL expressions of the core calculus, signatures and primitive semantics satisfying the
        stated hypotheses (C12_sound ...), closed under the global context.
Tie   : (a) translator harness/translate/c12_stdsig.py regenerates Gen_StdSig.v from the current
            tree on every run (fail-closed) and the result is compared with the signatures of the
            REAL schema objects built by the real bootstrap (SIGDUMP);
        (b) correspondence: model `type_of` (OCaml extraction) vs the real
            `compile_ast_to_ir(...).stype` on generated expressions — exhaustive over scalar kinds
            for every operator / function name at arity <= 2, set-like forms over a universe of
            scalars + collections, random typed trees, and a malformed stream; plus the type
            algebra functions themselves (find_common, cast distance, issubclass, ...) on all
            pairs of a type universe.
Monitors (real code only): output type descriptor (sertypes.describe/parse) denotes ir.stype;
        ir.expr.typeref names ir.stype; values computed by edb.tools.toy_eval_model belong to the
        inferred type; call arguments structurally conform to the bound parameter types.
"""
from __future__ import annotations

import json
import os
import re
import sys
import time

import lib

sys.path.insert(0, os.path.join(lib.VERIF, 'harness', 'translate'))
sys.path.insert(0, os.path.join(lib.VERIF, 'harness', 'props'))

import c12_gen as G      # noqa: E402

PROP = 'C12'
THEOREMS = []            # filled below once the proofs exist
IMPL = os.path.join(lib.VERIF, 'harness', 'impl', 'c12_impl.py')
COQ_DIR = os.path.join(lib.COQ, 'theories', 'C12')
WORK = os.path.join(lib.CACHE, 'c12')


# ---------------------------------------------------------------- translator

def regenerate():
    """returns (manifest | None, error | None)"""
    import importlib
    import c12_stdsig
    importlib.reload(c12_stdsig)
    try:
        with lib.Lock('c12_gen'):
            return c12_stdsig.generate(lib.REPO, COQ_DIR), None
    except c12_stdsig.TranslateError as e:
        return None, f'TranslateError: {e}'
    except Exception as e:      # noqa
        return None, f'{type(e).__name__}: {e}'


def sig_canon_from_manifest(sig):
    def P(ps):
        return [[q['name'], q['kind'], q['typemod'], q['type'], q['default']] for q in ps]
    return {
        'scalars': {n: {'abstract': s['abstract'], 'enum': s['enum'] is not None, 'ancestors': s['ancestors']}
                    for n, s in sig['scalars'].items()},
        'objtypes': {n: {'ancestors': o['ancestors']} for n, o in sig['objtypes'].items()},
        'casts': sorted([[c['from'], c['to'], c['implicit'], c['assignment']] for c in sig['casts']], key=json.dumps),
        'operators': sorted([[o['name'], o['kind'], o['abstract'], o['recursive'], o['derivative_of'],
                              P(o['params']), o['ret_typemod'], o['ret']] for o in sig['operators']], key=json.dumps),
        'functions': sorted([[f['name'], P(f['params']), f['ret_typemod'], f['ret']] for f in sig['functions']],
                            key=json.dumps),
    }


def sig_diff(mine, real):
    """list of human-readable differences between the translated and the real signatures"""
    out = []
    for n, s in mine['scalars'].items():
        if real['scalars'].get(n) != s:
            out.append(f'scalar {n}: translated {s} real {real["scalars"].get(n)}')
    for n in real['scalars']:
        if n not in mine['scalars']:
            out.append(f'scalar {n}: only in the real schema')
    for n, o in mine['objtypes'].items():
        if real['objtypes'].get(n) != o:
            out.append(f'object type {n}: translated {o} real {real["objtypes"].get(n)}')
    for key in ('casts', 'operators', 'functions'):
        a = {json.dumps(x) for x in mine[key]}
        b = {json.dumps(x) for x in real[key]}
        for x in sorted(a - b)[:5]:
            out.append(f'{key}: only translated: {x[:300]}')
        for x in sorted(b - a)[:5]:
            out.append(f'{key}: only real: {x[:300]}')
        if len(mine[key]) != len(real[key]):
            out.append(f'{key}: {len(mine[key])} translated vs {len(real[key])} real')
    return out


# ---------------------------------------------------------------- running both sides

def write_spec(ids: G.Ids, flags=''):
    os.makedirs(WORK, exist_ok=True)
    spec = {'manifest': os.path.join(COQ_DIR, 'Gen_StdSig.manifest.json'), 'user_sdl': ids.user_sdl(),
            'user_ids': ids.user, 'flags': flags}
    path = os.path.join(WORK, f'spec_{os.getpid()}_{flags or "x"}.json')
    with open(path, 'w') as f:
        json.dump(spec, f)
    return path


def run_impl(lines, spec, nproc=8):
    return lib.parallel_lines([lib.PY, IMPL, lib.REPO, spec], lines, nproc=nproc, env=lib.impl_env())


def split_impl(r):
    """impl line -> (result, text, [monitor failures], toy_checked)"""
    parts = r.split('\t')
    res = parts[0]
    toyc = res.endswith(' #toy')
    if toyc:
        res = res[:-5]
    text = parts[1] if len(parts) > 1 else ''
    bad = [b[1:] for b in parts[2].split(' ') if b.startswith('!')] if len(parts) > 2 else []
    return res, text, bad, toyc


# error kinds the model is entitled to: real kind -> set of model kinds counted as agreement
def results_agree(impl_res, model_res):
    if impl_res == model_res:
        return True
    return False


def corpus():
    p = os.path.join(lib.VERIF, 'corpus', 'C12')
    out = []
    if os.path.isdir(p):
        for fn in sorted(os.listdir(p)):
            if fn.endswith('.json'):
                out.append(json.load(open(os.path.join(p, fn)))['case'])
    return out


def gen_cases(tier, g: G.G):
    """-> list of (kind, exprline)"""
    r = lib.rng('C12')
    cases = []
    u0 = g.universe(0)
    u1 = g.universe(1)
    u2 = g.universe(2)
    if tier == 'quick':
        cases += list(G.stream_binops(g, u0))
        # the non-core scalars and collections against a small probe set
        probe = [x for x in u1 if x[0] in ('std::int64', 'std::float64', 'std::str', 'std::json')]
        rest = [x for x in u2 if x not in u0]
        for name in g.infix:
            for (_, a) in rest:
                for (_, b) in probe[:2]:
                    cases.append(('binop', g.op(name, a, b)))
                    cases.append(('binop', g.op(name, b, a)))
                cases.append(('binop', g.op(name, a, a)))
        cases += list(G.stream_prefix(g, u2))
        cases += list(G.stream_setlike(g, u1[:40] + r.sample(u2, 12)))
        cases += list(G.stream_triples(g))
        cases += list(G.stream_funcs(g, u1[:30], u0[:8]))
        cases += list(G.stream_recursive(g))
        cases += list(G.stream_indirection(g, u1))
        cases += list(G.stream_casts(g, u1[:34]))
        cases += list(G.stream_userfuncs(g, u2))
        nrand, nmal = 6000, 2500
    else:
        cases += list(G.stream_binops(g, u1))
        rest = [x for x in u2 if x not in u1]
        for name in g.infix:
            for (_, a) in rest:
                for (_, b) in u1:
                    cases.append(('binop', g.op(name, a, b)))
                    cases.append(('binop', g.op(name, b, a)))
        cases += list(G.stream_prefix(g, u2))
        cases += list(G.stream_setlike(g, u2))
        cases += list(G.stream_triples(g))
        cases += list(G.stream_funcs(g, u2, u1[:30]))
        cases += list(G.stream_recursive(g))
        cases += list(G.stream_indirection(g, u2))
        cases += list(G.stream_casts(g, u2))
        cases += list(G.stream_userfuncs(g, u2))
        nrand, nmal = 60000, 15000
    for _ in range(nrand):
        cases.append(('random', G.random_expr(g, r, r.choice((2, 3, 3, 4)))))
    cases += list(G.stream_malformed(g, r, nmal))
    return cases


def pair_cases(g: G.G, tier):
    """type-algebra probes: (cmd, tyA, tyB) over a universe of type terms"""
    ids = g.ids
    S = g.S
    sc = [S(n) for n in g.all_scalars + g.no_atom] + [S(n) for n in sorted(ids.abstract)]
    core = [S(n) for n in g.core]
    colls = []
    for n in g.numeric + ['std::str', 'std::datetime']:
        colls += [f'(arr {S(n)})', f'(rng {S(n)})', f'(mrng {S(n)})', f'(tup 0 (0 {S(n)}))',
                  f'(tup 1 ({ids.name["a"]} {S(n)}))', f'(tup 0 (0 {S(n)}) (1 {S("std::str")}))']
    colls += ['any', 'anytuple', 'anyobject', '(arr any)', '(rng (s %d))' % ids.scalar['std::anypoint'],
              f'(tup 1 ({ids.name["b"]} {S("std::int64")}))', f'(arr (tup 0 (0 {S("std::int64")})))',
              f'(arr (tup 0 (0 {S("std::float64")})))']
    objs = [f'(obj {ids.objtype[n]})' for n in g.objs] + \
           [f'(obj {ids.objtype[n]})' for n in ('std::Object', 'std::BaseObject', 'std::FreeObject')]
    univ = sc + colls + objs if tier != 'quick' else core + sc[:20] + colls + objs
    out = []
    for a in univ:
        for b in univ:
            for cmd in 'CDSKPI':
                out.append(f'{cmd} {a} {b}')
    return out
