"""C07 -- access policies guard every read path.

Proof:  coq/theories/C07 -- a validator `guarded` over abstract query trees is proved sound
        (noninterference w.r.t. the policy view, for every operator interpretation, policy
        clause semantics and database), not stricter than the property (completeness), its
        truth-table test of the WHERE formula exact; a model of new_set/try_type_rewrite/
        should_ignore_rewrite with registration theorems.
Tie:    translation validation -- the REAL compiler (EdgeQL -> IR -> pgast) runs on generated
        read-only queries x policy placements; a Python abstraction of the emitted SQL tree
        (following the real code generator) is fed to the EXTRACTED validator.  Registration:
        the real setgen.class_set/new_set/try_type_rewrite driven directly vs the extracted
        model (correspondence).  Monitor on the real pgast: region rule (independent of the
        Guard recognition and of the model).
"""
from __future__ import annotations

import collections
import hashlib
import json
import os
import re
import sys

import lib
sys.path.insert(0, os.path.dirname(os.path.abspath(__file__)))
import c07_gen as G  # noqa: E402

PROP = 'C07'
THEOREMS = ['C07_noninterference', 'C07_guarded_complete', 'C07_cond_sound', 'C07_cond_complete',
            'C07_registration', 'C07_registration_outside_policy', 'C07_registration_nontrivial',
            'C07_registration_leaf', 'C07_registration_children', 'C07_registration_monotone']
IMPL = os.path.join(lib.VERIF, 'harness', 'impl', 'c07_impl.py')
WORK = os.path.join(lib.CACHE, 'c07')

KF_UNION = 'C07-exhaustive-union'
KF_STDOBJ = 'C07-std-rewrite-cached-in-policy'
KF_TYPEOF = 'C07-typeof-in-policy'


# ------------------------------------------------------------------ cases

def corpus():
    p = os.path.join(lib.VERIF, 'corpus', PROP)
    out = []
    if os.path.isdir(p):
        for f in sorted(os.listdir(p)):
            if f.endswith('.json'):
                out.append(json.load(open(os.path.join(p, f))))
    return out


def gen_cases(tier):
    """-> (placements {pid: pl}, cases [dict(line, pid, kind, feats, depth, stream)])"""
    rnd = lib.rng('C07')
    thorough = tier == 'thorough'
    npl = 16 if thorough else 7
    nq = 150 if thorough else 42
    nseed = 40 if thorough else 12
    nmal = 12 if thorough else 5
    nreg = 30 if thorough else 10
    pls, cases = {}, []

    for i, c in enumerate(corpus()):
        pl = dict(c['placement'])
        pl['pid'] = f'C{i}'
        pls[pl['pid']] = pl
        f = c['case'].split('\t')
        f[1] = pl['pid']
        cases.append({'line': '\t'.join(f), 'pid': pl['pid'], 'kind': f[0], 'feats': ['corpus'], 'depth': -1,
                      'stream': 'corpus'})

    if os.environ.get('C07_ONLY_CORPUS') == '1':      # debugging aid, never set by the check
        npl = 0
    pats = list(G.PLACEMENT_PATTERNS)
    for i in range(npl):
        pid = f'P{i}'
        if i == npl - 1:
            pl = G.gen_placement(rnd, pid, 'mixed', stdobj=True)
        elif thorough and i == npl - 2:
            pl = G.gen_placement(rnd, pid, 'typeof')
        else:
            pl = G.gen_placement(rnd, pid, pats[i % len(pats)])
        pls[pid] = pl
        std = pl['pattern'].endswith('+stdobj')
        qg = G.QGen(rnd, union_overlap=0.02, stdobj=0.25 if std else 0.0)
        seeds = rnd.sample(G.SEED_QUERIES, nseed)
        if i % 4 == 0:
            seeds += rnd.sample(G.OVERLAP_SEEDS, 2)
        if std:
            seeds += G.STDOBJ_SEEDS
        # explain mode inlines every rewrite; in the std::Object family the tainted Object rewrite
        # (with other types' policy filters inside) would then sit INSIDE a policy clause, which the
        # marker-based atom recognition cannot name: that family runs without explain
        opts_pool = [o for o in G.OPTS if 'E' not in o] if std else G.OPTS
        for q in seeds:
            cases.append({'line': f'Q\t{pid}\t{rnd.choice(opts_pool)}\t{q}', 'pid': pid, 'kind': 'Q',
                          'feats': ['seed'], 'depth': -1, 'stream': 'seed'})
        for _ in range(nq):
            d = rnd.choice((0, 1, 1, 2, 2, 2, 3, 3))
            q, feats = qg.query(d)
            cases.append({'line': f'Q\t{pid}\t{rnd.choice(opts_pool)}\t{q}', 'pid': pid, 'kind': 'Q',
                          'feats': feats, 'depth': d, 'stream': 'valid'})
        for _ in range(nmal):
            if rnd.random() < 0.5:
                q = rnd.choice(G.MALFORMED)
            else:
                q = G.mutate_text(rnd, qg.query(rnd.choice((1, 2)))[0])
            cases.append({'line': f'Q\t{pid}\t-\t{q}', 'pid': pid, 'kind': 'Q', 'feats': ['malformed'],
                          'depth': -1, 'stream': 'malformed'})
        if not std:
            for l in G.gen_reg_cases(rnd, pl, nreg):
                cases.append({'line': l, 'pid': pid, 'kind': 'R', 'feats': ['reg'], 'depth': -1, 'stream': 'reg'})
    for c in cases:
        c['line'] = c['line'].replace('\n', ' ')
    return pls, cases


def write_spec(pls, tag):
    os.makedirs(WORK, exist_ok=True)
    path = os.path.join(WORK, f'spec_{tag}_{os.getpid()}.json')
    json.dump({'skeleton': G.SKELETON, 'types': G.TYPES,
               'placements': {pid: {'ddl': p['ddl'], 'markers': p['markers'], 'spec': p['spec']}
                              for pid, p in pls.items()}}, open(path, 'w'))
    return path


def run_impl(spec_path, lines, nproc=8):
    """like lib.parallel_lines (contiguous chunks, one result line per case) but without its
    200-lines-per-process floor: a case costs 0.1-0.4 CPU-s here, a worker start ~3 s"""
    import subprocess
    from concurrent.futures import ThreadPoolExecutor
    if not lines:
        return []
    nproc = max(1, min(nproc, 8, (len(lines) + 24) // 25))
    size = (len(lines) + nproc - 1) // nproc
    chunks = [lines[i:i + size] for i in range(0, len(lines), size)]
    argv = [lib.PY, IMPL, lib.REPO, spec_path]

    def one(chunk):
        p = subprocess.run(argv, input='\n'.join(chunk) + '\n', env=lib.impl_env(), stdout=subprocess.PIPE,
                           stderr=subprocess.PIPE, text=True, timeout=7200)
        out = p.stdout.split('\n')
        if out and out[-1] == '':
            out.pop()
        if p.returncode != 0 or len(out) != len(chunk):
            raise RuntimeError(f'{argv}: rc={p.returncode}, {len(out)} results for {len(chunk)} cases\n'
                               + p.stderr[-3000:])
        return out

    with ThreadPoolExecutor(len(chunks)) as ex:
        res = list(ex.map(one, chunks))
    return [json.loads(o) for r in res for o in r]


def model_line(pls, case, out):
    f = case['line'].split('\t')
    if f[0] == 'Q':
        sp = '-' if 'N' in f[2] else G.spec_line(pls[f[1]])
        return f'G {sp} {out["tree"]}'
    return out['model_case']


# ------------------------------------------------------------------ known findings

def union_exprs(q):
    """type unions `A | B ..` in [is ...] of the query text -> list of component lists"""
    out = []
    for m in re.finditer(r'\[\s*is\s+([A-Za-z0-9_:]+(?:\s*\|\s*[A-Za-z0-9_:]+)+)\s*\]', q, re.I):
        comps = [c.strip().split('::')[-1] for c in m.group(1).split('|')]
        out.append(comps)
    return out


def exhaustive_union_tables(q):
    """tables of the expanded components of every union type expression in q whose components
    (subclasses of other components removed) share a descendant"""
    tabs = set()
    for comps in union_exprs(q):
        comps = [c for c in comps if c in G.TNUM]
        comps = [c for c in comps if not any(o != c and o in G.ancestors(c) for o in comps)]
        exp = [set([c] + G.descendants(c)) for c in comps]
        n = sum(len(e) for e in exp)
        allo = set().union(*exp) if exp else set()
        if exp and n != len(allo):
            tabs |= {G.TNUM[t] for t in allo}
    return tabs


def classify_known(case, pl, out):
    """-> known finding id or None.  Predicate over the INPUT (query text + placement) refined by
    what the compiler's IR says the compound types expand to, and the tables the validator blames:
      C07-exhaustive-union: the query has a type intersection with `|` or `&`, or two chained
        `[is ..]` steps, the IR contains a compound (union/intersection) type reference, and every
        blamed table belongs to the concrete types those references expand to;
      C07-std-rewrite-cached-in-policy: an in-force policy body names std::Object/std::BaseObject
        and the query names Object/BaseObject."""
    f = case['line'].split('\t')
    q = f[3]
    culprits = set(out.get('culprits', []))
    syntactic = bool(union_exprs(q)) or bool(re.search(r'\[\s*is\s+[^\]]*&', q, re.I)) \
        or len(re.findall(r'\[\s*is\b', q, re.I)) >= 2
    comp = set(out.get('compound', []))
    if syntactic and culprits and comp and culprits <= comp:
        return KF_UNION
    # C07-typeof-in-policy: a policy in force on type P has `typeof` in its expression and every
    # blamed table is P's or a descendant's
    tabs = set()
    for t, ps in pl['pols'].items():
        if any(re.search(r'\btypeof\b', x['text'], re.I) for x in ps):
            tabs |= {G.TNUM[x] for x in [t] + G.descendants(t)}
    if tabs and culprits and culprits <= tabs:
        return KF_TYPEOF
    std_in_policy = re.search(r'\bstd::(Object|BaseObject)\b', pl['ddl'])
    if std_in_policy and re.search(r'\b(Object|BaseObject)\b', q):
        # the tainted rewrite of std::Object / std::BaseObject ranges over EVERY user table: all the
        # placement's protected concrete tables are blamed, through an unfiltered cte / raw scans
        prot = {t for t, _ in pl['spec'] if G.TYPES[t] not in G.ABSTRACT}
        if culprits and prot <= culprits and not any('WHERE formula' in w for w in out.get('why', [])):
            return KF_STDOBJ
    return None


# ------------------------------------------------------------------ coq literals

def coq_cond(c):
    k = c[0]
    if k == 'a':
        return f'(CAtom {c[1]}%N)'
    if k == 'k':
        return f'(CConst {"true" if c[1] else "false"})'
    if k == '!':
        return f'(CNot {coq_cond(c[1])})'
    return f'({"CAnd" if k == "&" else "COr"} {coq_cond(c[1])} {coq_cond(c[2])})'


def coq_spec(pl, off=False):
    if off:
        return '[]'
    return '[' + '; '.join(
        f'({t}%N, [' + '; '.join(f'({"true" if al else "false"}, {coq_cond(c)})' for al, c in ps) + '])'
        for t, ps in pl['spec']) + ']'


class P:
    """parser of the tree / cond / tnode strings (the same syntax ocaml/c07_main.ml reads)"""

    def __init__(self, s):
        self.s, self.i = s, 0

    def peek(self):
        return self.s[self.i] if self.i < len(self.s) else ''

    def num(self):
        j = self.i
        while self.peek().isdigit():
            self.i += 1
        return int(self.s[j:self.i])

    def exp(self, c):
        assert self.peek() == c, (self.s[max(0, self.i - 20):self.i + 20], c)
        self.i += 1

    def cond(self):
        c = self.peek()
        self.i += 1
        if c == 'a':
            return ['a', self.num()]
        if c in 'tf':
            return ['k', c == 't']
        if c == '!':
            self.exp('(')
            x = self.cond()
            self.exp(')')
            return ['!', x]
        self.exp('(')
        a = self.cond()
        self.exp(')')
        self.exp('(')
        b = self.cond()
        self.exp(')')
        return [c, a, b]

    def trees(self):
        out = []
        while True:
            while self.peek() == ' ':
                self.i += 1
            if self.peek() == ')':
                return out
            out.append(self.tree())

    def tree(self):
        c = self.peek()
        self.i += 1
        if c == 'S':
            return f'(Scan {self.num()}%N)'
        if c == 'R':
            return f'(Ref {self.num()}%N)'
        if c == 'O':
            f = self.num()
            self.exp('(')
            ts = self.trees()
            self.exp(')')
            return f'(Op {f}%N [' + '; '.join(ts) + '])'
        if c == 'U':
            self.exp('(')
            ts = self.trees()
            self.exp(')')
            return '(Union [' + '; '.join(ts) + '])'
        if c == 'L':
            n = self.num()
            self.exp('(')
            d = self.tree()
            self.exp(')')
            self.exp('(')
            b = self.tree()
            self.exp(')')
            return f'(Let {n}%N {d} {b})'
        assert c == 'G', c
        self.exp('(')
        b = self.tree()
        self.exp(')')
        self.exp('(')
        k = self.cond()
        self.exp(')')
        self.exp('(')
        ts = self.trees()
        self.exp(')')
        return f'(Guard {b} {coq_cond(k)} [' + '; '.join(ts) + '])'

    def tnode(self):
        self.exp('(')
        i = self.num()
        self.exp(' ')
        u, a, m = (self.s[self.i + k] == '1' for k in range(3))
        self.i += 3
        self.exp(' ')
        self.exp('[')
        pols = []
        while self.peek() != ']':
            nm = self.num()
            self.exp('.')
            sel = self.num()
            self.exp('.')
            bs = []
            while self.peek().isdigit():
                bs.append(self.num())
                if self.peek() == ',':
                    self.i += 1
            pols.append(f'(mkPol {nm}%N {"true" if sel else "false"} [' + '; '.join(f'{b}%N' for b in bs) + '])')
            if self.peek() == ';':
                self.i += 1
        self.exp(']')
        kids = []
        while True:
            while self.peek() == ' ':
                self.i += 1
            if self.peek() != '(':
                break
            kids.append(self.tnode())
        self.exp(')')
        b = lambda x: 'true' if x else 'false'   # noqa: E731
        return (f'(TNode {i}%N {b(u)} {b(a)} {b(m)} [' + '; '.join(pols) + '] [' + '; '.join(kids) + '])')


def coq_reg_expr(mc):
    f = mc.split(' ', 5)
    aqr, auap = f[1][0] == '1', f[1][1] == '1'
    sup = '[]' if f[2] == '-' else '[' + '; '.join(f'{x}%N' for x in f[2].split(',')) + ']'
    b = lambda x: 'true' if x else 'false'   # noqa: E731
    tn = P(f[5]).tnode()
    return (f'(let r := new_set (mkOpts {b(aqr)} {b(auap)}) {sup} {tn} {b(f[3] == "1")} {b(f[4] == "1")} [] '
            f'in (snd r, length (fst r)))')


# ------------------------------------------------------------------ shrinking

def shrink_query(pls, spec_path, case, out, fails):
    """batched one-token / one-group deletions; keeps a candidate only if it still fails the
    validator with the same blamed tables"""
    f = case['line'].split('\t')
    best_q, best_out = f[3], out
    want = set(out.get('culprits', []))
    for _round in range(3):
        toks = re.findall(r"[A-Za-z_][A-Za-z_0-9:]*|'[^']*'|\"[^\"]*\"|:=|\.<|\?\?|\S", best_q)
        cands = set()
        for i in range(len(toks)):
            cands.add(' '.join(toks[:i] + toks[i + 1:]))
            if toks[i] in '({[':
                close = {'(': ')', '{': '}', '[': ']'}[toks[i]]
                d = 0
                for j in range(i, len(toks)):
                    d += toks[j] == toks[i]
                    d -= toks[j] == close
                    if d == 0:
                        cands.add(' '.join(toks[:i] + toks[j + 1:]))           # drop the group
                        cands.add(' '.join(toks[:i] + toks[i + 1:j] + toks[j + 1:]))   # unwrap it
                        break
        cands = sorted((c for c in cands if c.strip() and len(c) < len(best_q)), key=len)[:120]
        if not cands:
            break
        lines = [f'Q\t{f[1]}\t{f[2]}\t{c}' for c in cands]
        res = run_impl(spec_path, lines, nproc=4)
        ok = [(c, r) for c, r in zip(cands, res)
              if r.get('st') == 'ok' and fails(case, r) and set(r.get('culprits', [])) == want]
        if not ok:
            break
        best_q, best_out = min(ok, key=lambda t: len(t[0]))
    return best_q, best_out


# ------------------------------------------------------------------ run

def relation_categories(pl, q):
    """how the placement's policy-carrying types relate to the types the query names"""
    named = {t for t in G.TYPES if re.search(rf'\b{t}\b', q)}
    if re.search(r'\bAT\b|g_ts?\b', q):
        named.add('T')
    if re.search(r'\bAR\b', q):
        named.add('R')
    cats = set()
    for p in pl['own']:
        for t in named:
            if p == t:
                cats.add('type')
            elif p in G.ancestors(t):
                cats.add('ancestor')
            elif t in G.ancestors(p):
                cats.add('descendant')
        for t in named:
            for l, (tg, _c) in G.links_of(t).items():
                if re.search(rf'\b{l}\b', q) and (p == tg or p in G.ancestors(tg) or tg in G.ancestors(p)):
                    cats.add('link target')
    return cats


def run(tier):
    rep = lib.Report(PROP, tier, 'translation_validation')
    thorough = tier == 'thorough'
    import time
    t0 = time.time()
    stage = {}
    pf = lib.proof_stage(rep, PROP, THEOREMS, extra_targets=['theories/C07/Refuted.vo'], thorough=thorough)
    exe, blog = lib.build_model('c07', 'ExtractC07.v', 'c07_main.ml', 'C07_ext')
    stage['proof_and_extraction_s'] = round(time.time() - t0, 1)

    pls, cases = gen_cases(tier)
    spec_path = write_spec(pls, tier)
    lines = [c['line'] for c in cases]
    try:
        rc, wout, werr = lib.impl_python(IMPL, [lib.REPO, spec_path, '--warm'], extra_env={'VRT_REPO': lib.REPO})
        if rc != 0:
            raise RuntimeError('warm-up failed: ' + werr[-2000:])
        stage['schema_warmup_s'] = round(time.time() - t0 - stage['proof_and_extraction_s'], 1)
        outs = run_impl(spec_path, lines)
    except RuntimeError as e:
        rep.violation('the implementation driver failed: ' + str(e)[-1500:],
                      {'broken': 'harness/impl/c07_impl.py on the real compiler'}, False)
        rep.coverage.update({'programs': 0, 'disagreements_checked': 0, 'samples': [lines[0]],
                             'evaluations': len(lines), 'distinct_nontrivial': 0})
        return rep.finish()

    stage['real_compiler_s'] = round(time.time() - t0 - stage['proof_and_extraction_s'], 1)
    ok_idx = [i for i, o in enumerate(outs) if o.get('st') == 'ok']
    mlines = [model_line(pls, cases[i], outs[i]) for i in ok_idx]
    model = dict(zip(ok_idx, lib.run_model(exe, mlines))) if exe else None

    known = {e['id'] for e in lib.known_findings(PROP)}

    def fails(case, out, m=None):
        """validator verdict on a Q result (extracted model when given, else the twin)"""
        return (m.split()[0] == '0') if m is not None else out.get('twin') == 0

    viol, kf_hits, twin_mis, mon_only, reg_mis, unsup, crashes, harness_bad = [], collections.Counter(), [], [], [], [], [], []
    not_falsifiable = 0
    for i, (c, o) in enumerate(zip(cases, outs)):
        st = o.get('st')
        if st == 'unsup':
            unsup.append(i)
            continue
        if st == 'crash':
            (harness_bad if o.get('kind', '').startswith('harness:') else crashes).append(i)
            continue
        if st != 'ok' or model is None:
            continue
        m = model[i]
        if m.startswith('BAD'):
            harness_bad.append(i)
            continue
        if c['kind'] == 'R':
            # the model prints an extra "pif=" field
            mm = ' '.join(x for x in m.split() if not x.startswith('pif='))
            if mm != o['res']:
                reg_mis.append(i)
            continue
        g, gv, cl, fa = m.split()
        if fa == '0':
            not_falsifiable += 1
        if (g == '1') != (o['twin'] == 1):
            twin_mis.append(i)
        if g == '0':
            k = classify_known(c, pls[c['pid']], o)
            if k is not None and k in known:
                kf_hits[k] += 1
            else:
                viol.append((i, k))
        elif o['mon']:
            k = classify_known(c, pls[c['pid']], dict(o, culprits=[int(x.split()[-1]) for x in o['mon']]))
            if k is not None and k in known:
                kf_hits[k] += 1
            else:
                mon_only.append(i)

    # ---- Coq-internal evaluation of a sample (guards the extraction step)
    coq_diff, n_coq = [], 0
    if model is not None and ok_idx:
        rnd = lib.rng('C07coq')
        qs = [i for i in ok_idx if cases[i]['kind'] == 'Q' and len(outs[i]['tree']) < 6000]
        rs = [i for i in ok_idx if cases[i]['kind'] == 'R' and len(outs[i]['model_case']) < 6000]
        bad_first = [i for i in qs if model[i].split()[0] == '0'][:10]
        samp_q = bad_first + rnd.sample(qs, min(len(qs), 120 if thorough else 30))
        samp_r = rnd.sample(rs, min(len(rs), 60 if thorough else 15))
        exprs = []
        for i in samp_q:
            f = cases[i]['line'].split('\t')
            sp = coq_spec(pls[f[1]], off='N' in f[2])
            t = P(outs[i]['tree']).tree()
            exprs.append(f'(guarded {sp} [] {t}, guards_valid {sp} [] {t}, closed [] {t}, spec_falsifiable {sp})')
        for i in samp_r:
            exprs.append(coq_reg_expr(outs[i]['model_case']))
        res = lib.coq_eval(PROP, 'From Coq Require Import List NArith Bool. Import ListNotations.\n'
                                 'From Verif.C07 Require Import Model.', exprs, timeout=900)
        n_coq = len(res)
        for i, r in zip(samp_q, res[:len(samp_q)]):
            bits = ' '.join('1' if x == 'true' else '0' for x in re.findall(r'true|false', r))
            if bits != model[i]:
                coq_diff.append((i, r, model[i]))
        for i, r in zip(samp_r, res[len(samp_q):]):
            ign = 'ign=1' if 'true' in r else 'ign=0'
            n = int(re.findall(r'(\d+)\s*\)\s*$', r.replace('%nat', ''))[0])
            ents = [x for x in model[i].split() if '/' in x]
            if not model[i].startswith(ign) or n != len(ents):
                coq_diff.append((i, r, model[i]))

    # ---- verdict
    for k, n in kf_hits.items():
        rep.known_finding(k, f'validator rejects the emitted SQL on {n} generated case(s) matching the '
                             f'finding\'s input predicate')
    for i, k in viol[:3]:
        c, o = cases[i], outs[i]
        q, so = shrink_query(pls, spec_path, c, o, fails)
        f = c['line'].split('\t')
        pl = pls[c['pid']]
        why_txt = '; '.join(so['why'][:2])
        if len(why_txt) > 420:
            why_txt = why_txt[:200] + ' ... ' + why_txt[-200:]
        head = ('the WHERE formula filtering a protected type\'s storage is not that type\'s policy formula: '
                if 'WHERE formula' in why_txt and 'range variable' not in why_txt
                else 'generated SQL reads a protected type\'s storage outside its policy filter: ')
        rep.violation(
            head + why_txt
            + (f' [matches the input predicate of {k}, which is not in known_findings.json]' if k else ''),
            {'case': f'Q\t{f[1]}\t{f[2]}\t{q}', 'original_case': c['line'], 'placement': _pl_json(pl),
             'policy_ddl': pl['ddl'], 'spec': G.spec_line(pl), 'tree': so['tree'], 'why': so['why'],
             'blamed_tables': [G.TYPES[t] for t in so['culprits'] if t < len(G.TYPES)],
             'monitor': so['mon'],
             'how': f'./harness/check C07 --replay <this file>   (compiles the query with the real compiler of '
                    f'{lib.REPO} and prints the SQL, the abstract tree and the validator verdict)'})
    for i in mon_only[:2]:
        c, o = cases[i], outs[i]
        pl = pls[c['pid']]
        rep.violation('region monitor: a range variable over a protected table is not inside a SELECT whose WHERE '
                      'mentions the table\'s policy markers (the validator accepted the tree): ' + ', '.join(o['mon']),
                      {'case': c['line'], 'placement': _pl_json(pl), 'policy_ddl': pl['ddl'],
                       'spec': G.spec_line(pl), 'tree': o['tree'], 'monitor': o['mon']})
    if not viol and not mon_only:
        if model is None:
            rep.violation('model does not build: ' + blog[-1500:], {'broken': 'extraction of theories/C07/Model.v'}, False)
        if reg_mis:
            i = min(reg_mis, key=lambda j: len(outs[j]['model_case']))
            rep.violation('correspondence broken: the model of new_set/try_type_rewrite and the real code disagree '
                          f'on env.type_rewrites ({len(reg_mis)} cases)',
                          {'broken': 'correspondence C07 Model.new_set vs edb.edgeql.compiler.setgen.new_set / '
                                     'policies.try_type_rewrite', 'case': cases[i]['line'],
                           'placement': _pl_json(pls[cases[i]['pid']]),
                           'impl_result': outs[i]['res'], 'model_result': model[i],
                           'model_case': outs[i]['model_case'], 'disagreements': len(reg_mis)}, False)
        if twin_mis:
            i = twin_mis[0]
            rep.violation('the extracted validator and its Python twin (used for explanations) disagree',
                          {'broken': 'harness twin', 'case': cases[i]['line'], 'tree': outs[i]['tree'],
                           'model': model[i], 'twin': outs[i]['twin']}, False)
        if unsup:
            i = unsup[0]
            rep.violation(f'the abstraction of the emitted SQL failed closed on {len(unsup)} case(s): '
                          + outs[i].get('msg', ''),
                          {'broken': 'abstraction pgast -> tree', 'case': cases[i]['line'],
                           'placement': _pl_json(pls[cases[i]['pid']])}, False)
        if harness_bad:
            i = harness_bad[0]
            rep.violation('harness error: ' + str(outs[i].get('msg', model.get(i) if model else ''))[-600:],
                          {'broken': 'harness', 'case': cases[i]['line']}, False)
        if coq_diff:
            i, r, m = coq_diff[0]
            rep.violation('extracted model disagrees with vm_compute inside Coq',
                          {'broken': 'extraction', 'case': cases[i]['line'], 'coq': r, 'extracted': m}, False)
        if not pf['ok']:
            rep.violation('proof obligations no longer check: ' + '; '.join(pf['broken'][:6]),
                          {'broken': pf['broken'], 'log_tail': pf['log'][-3000:]}, False)

    # ---- evidence
    qcases = [i for i in ok_idx if cases[i]['kind'] == 'Q']
    nontriv = set()
    for i in qcases:
        st = outs[i]['stats']
        if st['guards'] >= 1 and st['scans'] + st['refs'] >= 2:
            f = cases[i]['line'].split('\t')
            nontriv.add(hashlib.sha1((G.spec_line(pls[f[1]]) + '|' + outs[i]['tree']).encode()).hexdigest())
    feat, depth, cats, kinds_res, optc, patt, gcount, streams = (collections.Counter() for _ in range(8))
    for c, o in zip(cases, outs):
        streams[c['stream']] += 1
        kinds_res[o.get('st', '?') + (':' + o['kind'] if o.get('kind') else '')] += 1
        if c['kind'] != 'Q':
            continue
        f = c['line'].split('\t')
        optc[f[2]] += 1
        if o.get('st') == 'ok':
            for x in c['feats']:
                feat[x] += 1
            depth[c['depth']] += 1
            gcount[min(o['stats']['guards'], 6)] += 1
            patt[pls[c['pid']]['pattern']] += 1
            for x in relation_categories(pls[c['pid']], f[3]):
                cats[x] += 1
    polkinds = collections.Counter()
    for pl in pls.values():
        for ps in pl['pols'].values():
            for p in ps:
                polkinds[('allow ' if p['allow'] else 'deny ') + p['kinds']] += 1
    nreg = len([i for i in ok_idx if cases[i]['kind'] == 'R'])
    samples = []
    for i in (qcases[:1] + qcases[len(qcases) // 2:len(qcases) // 2 + 1] + qcases[-1:]):
        samples.append({'case': cases[i]['line'], 'policy_ddl': pls[cases[i]['pid']]['ddl'][:600],
                        'spec': G.spec_line(pls[cases[i]['pid']]), 'tree': outs[i]['tree'][:600],
                        'validator': model[i] if model else None})
    rep.coverage.update({
        'programs': len(qcases),
        'disagreements_checked': len(viol) + sum(kf_hits.values()) + len(mon_only),
        'evaluations': len(cases),
        'distinct_nontrivial': len(nontriv),
        'rule': 'programs = generated read-only EdgeQL queries (seed corpus adapted from upstream policy/codegen '
                'tests, typed random generator over direct/link/backlink/shape/[is]/aggregate/subquery/alias/'
                'computed/global/union/for/group/with/free-object paths at nesting depth 0-3, a malformed stream) '
                'x random policy placements (on the type / an ancestor / a descendant / a link target / diamond / '
                'write-only kinds; allow/deny x select/all/other kinds; clause formulas with and/or/not) x compiler '
                'options (NATIVE/JSON, explain, implicit limit, implicit type ids, user policies off), compiled by '
                'the real compiler; non-trivial = the emitted SQL contains at least one recognised policy filter and '
                'at least two range variables; distinct = distinct (policy spec, abstract SQL tree)',
        'exhaustive': False,
        'samples': samples,
        'traces_validated_against_impl': nreg,
        'registration_model_vs_impl_disagreements': len(reg_mis),
        'validator_rejections': len(viol) + sum(kf_hits.values()),
        'validator_rejections_classified_known': dict(kf_hits),
        'monitor_only_failures': len(mon_only),
        'twin_disagreements': len(twin_mis),
        'abstraction_failed_closed': len(unsup),
        'compiler_crashes_non_edgedb_exceptions': [
            {'case': cases[i]['line'], 'kind': outs[i].get('kind'), 'msg': outs[i].get('msg', '')[:200]}
            for i in crashes[:8]],
        'compiler_internal_errors_not_c07': [
            {'case': c['line'], 'msg': o.get('msg', '')[:160]} for c, o in zip(cases, outs)
            if o.get('st') == 'err' and o.get('kind') == 'InternalServerError'][:8],
        'coq_vm_compute_cross_checked': n_coq,
        'specs_with_unfalsifiable_policy_formula': not_falsifiable,
        'placements': len(pls),
        'stage_seconds': stage,
        'distribution_streams': dict(streams),
        'distribution_result_kinds': dict(kinds_res),
        'distribution_access_paths': dict(feat),
        'distribution_nesting_depth': {str(k): v for k, v in sorted(depth.items())},
        'distribution_policy_relation': dict(cats),
        'distribution_placement_patterns': dict(patt),
        'distribution_policy_kinds': dict(polkinds),
        'distribution_options': dict(optc),
        'distribution_policy_filters_per_query': {str(k): v for k, v in sorted(gcount.items())},
        'trusted_base': [
            'Coq 8.16.1 kernel (coqc; coqchk in the thorough tier); vm_compute only in cases.v evaluation',
            'extraction: ExtrOcamlBasic only; OCaml 4.13.1; ocaml/conv.ml + c07_main.ml (parser of the tree syntax)',
            'the abstraction pgast -> tree in harness/impl/c07_impl.py: it follows the real SQL code generator '
            '(subclass recording the nesting of emitted nodes); trusted: every table/CTE range variable becomes a '
            'Scan/Ref at its position, SELECTs with scalar-only target lists and one FROM item are row preserving, '
            'a Guard is emitted only for SELECT..FROM base [CROSS/INNER JOIN scalar lateral subselects] WHERE f with '
            'f resolved through the lateral subselects into and/or/not over atoms identified by the policy marker '
            'constant they contain (two-valued atoms), `.id IS NOT DISTINCT FROM NULL::uuid` is false',
            'SQL semantics: the result of a construct is a function of the results of the relations it ranges over '
            '(the arbitrary interpretation of Op)',
            'the runtime substrate harness/rt (parser substitute, std schema) and harness/props/c07_gen.py (policy '
            'specs are computed from the generated placement, not from the compiler)',
            'not covered: link tables (treated as unprotected storage), DML, triggers, SQL functions\' bodies, '
            'compound (union/intersection) types in the registration model',
        ],
    })
    rep.assumptions = [
        'policy clauses are two-valued (the generator only uses required/?=/exists forms)',
        'a stored object id is never NULL (the compiler\'s "OR .id ?= <uuid>{}" disjunct is false)',
        'the translation of a policy clause EdgeQL -> SQL is correct (C07 checks that the clause formula is applied, '
        'not how each clause is compiled)',
    ]
    rep.notes.append('side finding (not C07, over-restriction): policies.try_type_rewrite children_overlap drops the '
                     'direct children from the union (select T misses T1/T2 objects when T1 has its own policy and '
                     'T12 extends T1, T2)')
    try:
        os.remove(spec_path)
    except OSError:
        pass
    return rep.finish()


def _pl_json(pl):
    return {k: pl[k] for k in ('pattern', 'ddl', 'markers', 'spec', 'pols', 'own')}


def replay(path):
    d = json.load(open(path))
    r = d['replay']
    case = r.get('case') or r.get('original_case')
    pl = dict(r['placement'])
    pl['pid'] = case.split('\t')[1]
    pls = {pl['pid']: pl}
    spec_path = write_spec(pls, 'replay')
    exe, _ = lib.build_model('c07', 'ExtractC07.v', 'c07_main.ml', 'C07_ext')
    print('case     :', case)
    print('policies :', pl['ddl'].replace('\n', '\n           '))
    print('spec     :', G.spec_line(pl))
    f = case.split('\t')
    if f[0] == 'Q':
        rc, out, err = lib.impl_python(IMPL, [lib.REPO, spec_path, '--sql', f[1], f[2], f[3]])
        print(out if rc == 0 else err[-3000:])
    o = run_impl(spec_path, [case], nproc=1)[0]
    print('impl     :', json.dumps(o)[:3000])
    if exe and o.get('st') == 'ok':
        ml = model_line(pls, {'line': case}, o)
        print('model in :', ml[:2000])
        print('model    :', lib.run_model(exe, [ml])[0],
              '   (guarded guards_valid closed spec_falsifiable)' if f[0] == 'Q' else '')
    return 0
