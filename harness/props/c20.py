"""C20 — dependency ordering (edb/common/topological.py).

Proof: coq/theories/C20 (model of sort_ex; theorems for every finite graph).
Tie:   correspondence — the real sort_ex and the OCaml-extracted model run on the
       same graphs (exact output order / error + item compared), monitors of the
       property evaluated on the implementation's answers.
"""
from __future__ import annotations

import itertools
import json
import os
import sys
import time

import lib

PROP = 'C20'
THEOREMS = [
    'C20_fuel_enough', 'C20_perm', 'C20_hard', 'C20_cycle_sound', 'C20_cycle_complete',
    'C20_soft_never_fail', 'C20_soft_honoured', 'C20_unresolved_sound', 'C20_unresolved_complete', 'C20_cycle_hard_only',
]
IMPL = os.path.join(lib.VERIF, 'harness', 'impl', 'c20_impl.py')


# ---------------------------------------------------------------- cases
# case = (allow: bool, nodes: [(k, weak, merge|None, deps, lctl)])

def enc(case):
    allow, nodes = case
    f = lambda xs: ','.join(map(str, xs))
    return ('1' if allow else '0') + ''.join(
        f';{k}:{f(w)}|{"-" if m is None else f(m)}|{f(d)}|{f(c)}' for k, w, m, d, c in nodes)


def dec(line):
    parts = line.split(';')
    nodes = []
    g = lambda s: [int(x) for x in s.split(',')] if s else []
    for p in parts[1:]:
        k, rest = p.split(':')
        w, m, d, c = rest.split('|')
        nodes.append((int(k), g(w), None if m == '-' else g(m), g(d), g(c)))
    return parts[0] == '1', nodes


def nontrivial(case):
    allow, nodes = case
    ks = {n[0] for n in nodes}
    ne = sum(len(w) + len(m or []) + len(d) + len(c) for _, w, m, d, c in nodes)
    if len(nodes) < 2 or ne == 0:
        return False
    has_weak = any(w for _, w, _, _, _ in nodes)
    dangling = any(x not in ks for _, w, m, d, c in nodes for x in w + (m or []) + d + c)
    # cycle in the union graph
    adj = {k: [x for x in w + (m or []) + d + c if x in ks] for k, w, m, d, c in nodes}
    seen, onst = set(), set()

    def dfs(n):
        seen.add(n); onst.add(n)
        for x in adj[n]:
            if x in onst or (x not in seen and dfs(x)):
                return True
        onst.discard(n)
        return False
    cyc = any(dfs(k) for k in adj if k not in seen)
    return has_weak or dangling or cyc


def exhaustive2():
    """all graphs on keys {1,2}: each ordered pair (incl. self) carries any subset of
    {weak, merge, deps, lctl}; x both allow_unresolved values; plus the same with one
    dangling reference (to key 9) of each kind on node 1."""
    pairs = [(1, 1), (1, 2), (2, 1), (2, 2)]
    for masks in itertools.product(range(16), repeat=4):
        nodes = {1: ([], [], [], []), 2: ([], [], [], [])}
        for (a, b), m in zip(pairs, masks):
            for bit in range(4):
                if m >> bit & 1:
                    nodes[a][bit].append(b)
        ns = [(k, v[0], (v[1] if v[1] else None), v[2], v[3]) for k, v in nodes.items()]
        yield (False, ns)
    # dangling variants on a reduced mask set
    for masks in itertools.product((0, 1, 2, 4, 8, 5), repeat=4):
        for dk in range(4):
            for allow in (False, True):
                nodes = {1: ([], [], [], []), 2: ([], [], [], [])}
                for (a, b), m in zip(pairs, masks):
                    for bit in range(4):
                        if m >> bit & 1:
                            nodes[a][bit].append(b)
                nodes[2][dk].append(9)
                ns = [(k, v[0], (v[1] if v[1] else None), v[2], v[3]) for k, v in nodes.items()]
                yield (allow, ns)


def exhaustive3(rnd=None, sample=None):
    """keys {1,2,3}: each ordered pair carries one of none/weak/merge/deps/lctl (5^9)."""
    pairs = [(a, b) for a in (1, 2, 3) for b in (1, 2, 3)]
    total = 5 ** 9
    idxs = range(total) if sample is None else (rnd.randrange(total) for _ in range(sample))
    for idx in idxs:
        nodes = {1: ([], [], [], []), 2: ([], [], [], []), 3: ([], [], [], [])}
        x = idx
        for (a, b) in pairs:
            x, kind = divmod(x, 5)
            if kind:
                nodes[a][kind - 1].append(b)
        yield (False, [(k, v[0], (v[1] if v[1] else None), v[2], v[3]) for k, v in nodes.items()])


def random_graph(rnd, maxn):
    n = rnd.randint(1, maxn)
    keys = rnd.sample(range(1, 3 * maxn), n)
    shape = rnd.random()
    dens = [rnd.choice((0, 0.05, 0.15, 0.3, 0.6)) for _ in range(4)]
    if shape < 0.6:       # mostly a DAG along the key order + a few soft back edges
        order = list(keys)
    else:
        order = None
    dangling = rnd.random() < 0.15
    nodes = []
    for i, k in enumerate(keys):
        lists = [[], [], [], []]
        for j, t in enumerate(keys):
            for kind in range(4):
                p = dens[kind] / max(1, n / 4)
                if order is not None and kind != 0 and j >= i:
                    p *= 0.05
                if rnd.random() < p:
                    lists[kind].append(t)
        if dangling and rnd.random() < 0.2:
            lists[rnd.randrange(4)].append(1000 + rnd.randrange(3))
        for l in lists:
            rnd.shuffle(l)
            if l and rnd.random() < 0.1:
                l.append(rnd.choice(l))        # duplicate entry (OrderedSet must dedupe)
        merge = lists[1] if (lists[1] or rnd.random() < 0.5) else None
        nodes.append((k, lists[0], merge, lists[2], lists[3]))
    return (dangling and rnd.random() < 0.6, nodes)


def structured(rnd):
    """families from DESIGN appendix C: soft back-edges onto hard chains, lctl fans"""
    n = rnd.randint(2, 9)
    keys = list(range(1, n + 1))
    rnd.shuffle(keys)
    nodes = {k: ([], [], [], []) for k in keys}
    for a, b in zip(keys, keys[1:]):
        nodes[a][rnd.choice((1, 2))].append(b)          # hard chain a -> b
    for _ in range(rnd.randint(1, 4)):
        a, b = rnd.choice(keys), rnd.choice(keys)
        nodes[a][rnd.choice((0, 0, 3, 2))].append(b)     # mostly soft extra edges
    order = list(keys)
    rnd.shuffle(order)
    return (False, [(k, nodes[k][0], nodes[k][1] or None, nodes[k][2], nodes[k][3]) for k in order])


def corpus():
    p = os.path.join(lib.VERIF, 'corpus', 'C20')
    out = []
    if os.path.isdir(p):
        for f in sorted(os.listdir(p)):
            if f.endswith('.json'):
                out.append(json.load(open(os.path.join(p, f)))['case'])
    return out


def gen_cases(tier):
    rnd = lib.rng('C20')
    cases = [dec(c) for c in corpus()]
    cases += list(exhaustive2())
    if tier == 'quick':
        cases += list(exhaustive3(rnd, 30000))
        cases += [random_graph(rnd, 12) for _ in range(15000)]
        cases += [structured(rnd) for _ in range(5000)]
    else:
        cases += list(exhaustive3())
        cases += [random_graph(rnd, 12) for _ in range(150000)]
        cases += [random_graph(rnd, 40) for _ in range(40000)]
        cases += [structured(rnd) for _ in range(60000)]
    return cases


# ---------------------------------------------------------------- coq literal

def coq_case(case):
    allow, nodes = case
    L = lambda xs: '[' + '; '.join(f'{x}%N' for x in xs) + ']'
    ns = '; '.join(
        f'({k}%N, {{| r_weak := {L(w)}; r_merge := {"None" if m is None else "Some " + L(m)}; '
        f'r_deps := {L(d)}; r_lctl := {L(c)} |}})' for k, w, m, d, c in nodes)
    return f'sort_ex {"true" if allow else "false"} [{ns}]'


def coq_result_to_line(s):
    s = s.strip()
    if s.startswith('Sorted'):
        body = s[len('Sorted'):].strip()
        nums = [x.replace('%N', '').strip() for x in body.strip('[]').split(';') if x.strip()]
        return 'S ' + ','.join(nums)
    if s.startswith('Cycle'):
        return 'C ' + s.split()[1].replace('%N', '')
    if s.startswith('Unresolved'):
        a = s.split()
        return f'U {a[1].replace("%N", "")} {a[2].replace("%N", "")}'
    return 'F'


# ---------------------------------------------------------------- run

def run_impl(lines, mode='list'):
    return lib.parallel_lines([lib.PY, IMPL, lib.REPO, mode], lines, env=lib.impl_env())


def shrink(case, pred):
    """greedy: drop nodes, then drop single edges, while pred(case) stays true"""
    allow, nodes = case
    changed = True
    while changed:
        changed = False
        for i in range(len(nodes)):
            cand = (allow, nodes[:i] + nodes[i + 1:])
            if cand[1] and pred(cand):
                nodes = cand[1]; changed = True
                break
        if changed:
            continue
        for i, (k, w, m, d, c) in enumerate(nodes):
            for fld, lst in enumerate((w, m or [], d, c)):
                for j in range(len(lst)):
                    nl = lst[:j] + lst[j + 1:]
                    parts = [w, m, d, c]
                    parts[fld] = nl if (fld != 1 or nl) else None
                    cand_nodes = nodes[:i] + [(k, *parts)] + nodes[i + 1:]
                    if pred((allow, cand_nodes)):
                        nodes = cand_nodes; changed = True
                        break
                if changed:
                    break
            if changed:
                break
    return (allow, nodes)


def one_impl(case, mode='list'):
    return run_impl([enc(case)], mode)[0]


def run(tier):
    rep = lib.Report(PROP, tier, 'proof')
    thorough = tier == 'thorough'
    pf = lib.proof_stage(rep, 'C20', THEOREMS, thorough=thorough)
    exe, blog = lib.build_model('c20', 'ExtractC20.v', 'c20_main.ml', 'C20_ext')

    cases = gen_cases(tier)
    lines = [enc(c) for c in cases]
    impl = run_impl(lines)
    # second container type for a slice: OrderedSet inputs must behave like lists
    impl_oset = run_impl(lines[: min(len(lines), 20000)], 'oset')
    model = lib.run_model(exe, lines) if exe else None

    mon_fail = [(i, r) for i, r in enumerate(impl) if ' !' in r]
    oset_diff = [i for i, r in enumerate(impl_oset) if r != impl[i]]
    mism = []
    if model is not None:
        mism = [i for i, (a, b) in enumerate(zip(impl, model)) if a.split(' !')[0] != b]

    # Coq-internal evaluation of a sample (guards extraction)
    coq_diff = []
    n_coq = 0
    if model is not None:
        rnd = lib.rng('C20coq')
        idx = sorted(rnd.sample(range(len(cases)), min(300 if not thorough else 1500, len(cases))))
        outs = lib.coq_eval('C20', 'From Coq Require Import List NArith. Import ListNotations.\n'
                                   'From Verif.C20 Require Import Model.',
                            [coq_case(cases[i]) for i in idx])
        n_coq = len(outs)
        coq_diff = [i for i, o in zip(idx, outs) if coq_result_to_line(o) != model[i]]

    # hash-seed probe: with ordered containers and *string* keys the result must not depend
    # on PYTHONHASHSEED (and must equal the integer-key result)
    seed_diff = []
    nprobe = len(lines) if thorough else min(len(lines), 30000)
    step = max(1, len(lines) // nprobe)
    pidx = list(range(0, len(lines), step))
    sub = [lines[i] for i in pidx]
    for hs in (('7', '12345', '99') if thorough else ('7', '12345')):
        other = lib.parallel_lines([lib.PY, IMPL, lib.REPO, 'str'], sub, env=lib.impl_env(hs))
        seed_diff += [(i, hs, r) for i, r in zip(pidx, other) if r != impl[i]]

    # ---- verdict
    for i, r in mon_fail[:3]:
        fails = r.split(' !')[1:]
        small = shrink(cases[i], lambda c: ' !' + fails[0] in one_impl(c))
        rep.violation(f'monitor {fails} failed on the real sort_ex',
                      {'case': enc(small), 'original_case': lines[i],
                       'impl_result': one_impl(small), 'model_result': model[i] if model else None,
                       'how': 'PYTHONPATH=/repo /venv/bin/python harness/impl/c20_impl.py /repo <<< case'})
    for i in oset_diff[:2]:
        rep.violation('result differs between list and OrderedSet inputs with the same iteration order',
                      {'case': lines[i], 'impl_result': impl[i], 'impl_result_orderedset': impl_oset[i]})
    for i, hs, r in sorted(seed_diff, key=lambda t: len(lines[t[0]]))[:2]:
        rep.violation('not deterministic: with string keys the order depends on PYTHONHASHSEED '
                      '(ordered containers, same input)',
                      {'case': lines[i], 'impl_result_int_keys_hashseed0': impl[i],
                       f'impl_result_string_keys_hashseed{hs}': r,
                       'how': f'PYTHONHASHSEED={hs} PYTHONPATH=/repo /venv/bin/python harness/impl/c20_impl.py /repo str <<< case'})
    if not mon_fail and not seed_diff and not oset_diff:
        if model is None:
            rep.violation('model does not build: ' + blog[-1500:], {'broken': 'extraction of theories/C20/Model.v'}, False)
        elif mism:
            i = mism[0]
            small = shrink(cases[i], lambda c: one_impl(c).split(' !')[0] != lib.run_model(exe, [enc(c)])[0])
            rep.violation('correspondence broken: model and implementation disagree, no monitor failed '
                          f'on {len(cases)} cases',
                          {'broken': 'correspondence C20 Model.sort_ex vs edb.common.topological.sort_ex',
                           'case': enc(small), 'impl_result': one_impl(small),
                           'model_result': lib.run_model(exe, [enc(small)])[0],
                           'disagreements': len(mism)}, False)
        if coq_diff:
            rep.violation('extracted model disagrees with vm_compute inside Coq',
                          {'broken': 'extraction', 'case': lines[coq_diff[0]]}, False)
        if not pf['ok']:
            rep.violation('proof obligations no longer check: ' + '; '.join(pf['broken'][:6]),
                          {'broken': pf['broken'], 'log_tail': pf['log'][-3000:]}, False)

    # ---- evidence
    distinct = {l for l, c in zip(lines, cases) if nontrivial(c)}
    kinds = {}
    for r in impl:
        kinds[r[0]] = kinds.get(r[0], 0) + 1
    sizes = {}
    for _, ns in cases:
        sizes[len(ns)] = sizes.get(len(ns), 0) + 1
    rep.coverage.update({
        'evaluations': len(cases),
        'distinct_nontrivial': len(distinct),
        'rule': 'graphs: all 2-node graphs with any subset of {weak,merge,deps,lctl} on each ordered pair '
                '(+ dangling variants x allow_unresolved), 3-node graphs with one kind per ordered pair '
                f'({"all 5^9" if thorough else "30000 sampled"}), random graphs up to '
                f'{40 if thorough else 12} nodes, structured chains with soft back-edges; '
                'non-trivial = >=2 nodes and >=1 edge and (a weak edge or a cycle or a dangling reference); '
                'distinct = distinct encoded case',
        'exhaustive': False,
        'exhaustive_subspaces': ['2-node graphs, all edge-kind subsets per ordered pair'] +
                                (['3-node graphs, one kind per ordered pair'] if thorough else []),
        'samples': [lines[i] for i in (0, len(lines) // 3, len(lines) // 2, len(lines) - 1)],
        'traces_validated_against_impl': len(cases) if model is not None else 0,
        'model_vs_impl_disagreements': len(mism),
        'coq_vm_compute_cross_checked': n_coq,
        'monitor_failures': len(mon_fail),
        'result_kinds': kinds,
        'graph_sizes': dict(sorted(sizes.items())),
        'orderedset_inputs_compared': len(impl_oset),
        'hashseed_probe_cases': len(sub),
        'trusted_base': [
            'Coq 8.16.1 kernel (coqc; coqchk in the thorough tier); vm_compute only in cases.v evaluation',
            'extraction: ExtrOcamlBasic only, N/positive/nat kept inductive; OCaml 4.13.1; ocaml/conv.ml + c20_main.ml',
            'correspondence harness harness/props/c20.py + harness/impl/c20_impl.py (generators, monitors)',
            'modelled, not verified: Python recursion/exception/finally semantics, OrderedSet, defaultdict; '
            'visited == set(order) and visiting_weak == frames entered with weak_link are folded into the model state',
        ],
    })
    rep.assumptions = ['Python semantics of try/except/finally as mirrored in Model.visit',
                       'dict keys are distinct (NoDup keys) — true of any Python mapping']
    return rep.finish()


def replay(path):
    d = json.load(open(path))
    case = d['replay'].get('case') or d['replay'].get('original_case')
    exe, _ = lib.build_model('c20', 'ExtractC20.v', 'c20_main.ml', 'C20_ext')
    print('case :', case)
    print('impl :', run_impl([case])[0])
    print('model:', lib.run_model(exe, [case])[0] if exe else 'model does not build')
    return 0
