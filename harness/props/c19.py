"""C19 -- configuration commands compose and persist (edb/server/config, edb/ir/statypes).

Proof: coq/theories/C19 (executable model of Operation.apply / coercion / from_pyvalue / uniqueness /
       lookup / to_json / from_json / Duration ISO-8601 / ConfigMemory text; theorems for all specs,
       operation sequences and values).
Tie:   (a) translator harness/translate/c19_units.py regenerates Gen_Units.v (unit constants, ISO
           multipliers, MAX_CONFIG_SET_SIZE, source names) from the working tree, fail-closed;
       (b) correspondence: real code (harness/impl/c19_impl.py) vs OCaml-extracted model on the same
           operation sequences over synthetic specs covering every setting kind; canonical text compared;
       (c) monitors of the property evaluated directly on the real code, including the
           to_edgeql -> parse (repo grammar) -> operations -> apply round trip.
"""
from __future__ import annotations

import json
import os
import re
import sys

import lib

sys.path.insert(0, os.path.join(lib.VERIF, 'harness', 'translate'))
import c19_units  # noqa: E402

PROP = 'C19'
THEOREMS = [
    'C19_lookup', 'C19_frame', 'C19_other_scopes', 'C19_reject_atomic', 'C19_reject_untyped',
    'C19_accept_typed', 'C19_stored_typed', 'C19_stored_set_canonical', 'C19_reset',
    'C19_duration_iso', 'C19_memory_str', 'C19_json_value', 'C19_json_roundtrip',
    'C19_set_insert', 'C19_set_remove', 'C19_insert_limit', 'C19_object_set_limit',
]
IMPL = os.path.join(lib.VERIF, 'harness', 'impl', 'c19_impl.py')
GEN_DIR = os.path.join(lib.COQ, 'theories', 'C19')
SCOPES = ['SESSION', 'DATABASE', 'INSTANCE']
NFLOATS = 8
UNITS = [('B', 1), ('KiB', 1024), ('MiB', 1024 ** 2), ('GiB', 1024 ** 3), ('TiB', 1024 ** 4), ('PiB', 1024 ** 5)]


# ================================================================ specs (data; built for real by the impl)
def enum_t(tr, idx):
    name = ['TransactionIsolation', 'EnabledDisabledType', 'TransactionAccessMode'][idx]
    return ['enum', idx, list(tr['statypes']['enum_scalars'][name]['members'])]


def fld(n, t, u=False, **kw):
    d = {'n': n, 't': t, 'u': u}
    if 'd' in kw:
        d['d'] = kw['d']
    return d


def stg(n, t, d, so=False, sec=False):
    return {'n': n, 't': t, 'so': so, 'd': d, 'sec': sec}


def spec_main(tr):
    E0 = enum_t(tr, 0)
    am = [fld('transports', ['set', 'str'], d={'fs': []})]
    types = [
        {'name': 'cfg::AuthMethod', 'parent': None, 'fields': am},
        {'name': 'cfg::Trust', 'parent': 'cfg::AuthMethod', 'fields': am},
        {'name': 'cfg::SCRAM', 'parent': 'cfg::AuthMethod', 'fields': [fld('transports', ['set', 'str'], d={'fs': ['TCP']})]},
        {'name': 'cfg::Auth', 'parent': None, 'fields': [
            fld('priority', ['p', 'int'], True),
            fld('user', ['set', 'str'], d={'fs': ['*']}),
            fld('method', ['obj', 'cfg::AuthMethod']),
            fld('comment', ['p', 'str'], d=None)]},
        {'name': 'cfg::EmailProvider', 'parent': None, 'fields': [fld('name', ['p', 'str'], True)]},
        {'name': 'cfg::SMTP', 'parent': 'cfg::EmailProvider', 'fields': [
            fld('name', ['p', 'str'], True),
            fld('sender', ['p', 'str'], d=None),
            fld('port', ['p', 'int'], d=None),
            fld('password', ['p', 'str'], d=None),
            fld('security', ['p', 'str'], d='STARTTLSOrPlainText'),
            fld('validate', ['p', 'bool'], d=True),
            fld('timeout', ['p', 'dur'], d={'dur': 60000000}),
            fld('buf', ['p', 'mem'], d=None),
            fld('ratio', ['p', 'float'], d=None)]},
        {'name': 'cfg::Port', 'parent': None, 'fields': [
            fld('protocol', ['p', 'str']), fld('database', ['p', 'str'], True), fld('port', ['p', 'int']),
            fld('concurrency', ['p', 'int']), fld('user', ['p', 'str']),
            fld('address', ['set', 'str'], True, d={'fs': ['localhost']})]},
        {'name': 'cfg::UI', 'parent': None, 'fields': [
            fld('title', ['p', 'str']), fld('width', ['p', 'int'], d=80), fld('logo', ['p', 'str'], d=None)]},
    ]
    settings = [
        stg('abool', ['p', 'bool'], True), stg('anint', ['p', 'int'], 0), stg('astr', ['p', 'str'], 'hello'),
        stg('afloat', ['p', 'float'], {'f': 1}), stg('anenum', ['p', E0], {'enum': [0, E0[2][0]]}),
        stg('adur', ['p', 'dur'], {'dur': 60000000}), stg('amem', ['p', 'mem'], {'mem': 0}),
        stg('amem2', ['p', 'mem'], None),
        stg('bools', ['p', 'bool'], {'fs': []}, so=True), stg('ints', ['p', 'int'], {'fs': []}, so=True),
        stg('strs', ['p', 'str'], {'fs': []}, so=True), stg('floats', ['p', 'float'], {'fs': []}, so=True),
        stg('auth', ['obj', 'cfg::Auth'], {'fs': []}, so=True),
        stg('providers', ['obj', 'cfg::EmailProvider'], {'fs': []}, so=True),
        stg('ports', ['obj', 'cfg::Port'], {'fs': []}, so=True),
        stg('ui', ['obj', 'cfg::UI'], None),
        stg('sec', ['p', 'str'], '', sec=True),
    ]
    return {'types': types, 'settings': settings}


def spec_exotic(tr):
    """kinds the pinned schema does not have (set-valued Duration / memory / enum-scalar settings,
    a single object setting with an object default, a second enum class): the model mirrors what the
    code does with them; no finding is drawn from them"""
    E0, E1 = enum_t(tr, 0), enum_t(tr, 1)
    types = [
        {'name': 'cfg::Port2', 'parent': None, 'fields': [
            fld('database', ['p', 'str'], True), fld('port', ['p', 'int'], d=1),
            fld('address', ['set', 'str'], True, d={'fs': ['localhost']})]},
    ]
    types.append({'name': 'cfg::Port3', 'parent': None, 'fields': types[0]['fields']})
    dflt = {'obj': ['cfg::Port3', [['database', True, 'main'], ['port', False, 1], ['address', True, {'fs': ['localhost']}]]]}
    settings = [
        stg('anint', ['p', 'int'], 0), stg('anenum2', ['p', E1], {'enum': [1, E1[2][0]]}), stg('anenum', ['p', E0], {'enum': [0, E0[2][1]]}),
        stg('durs', ['p', 'dur'], {'fs': []}, so=True), stg('mems', ['p', 'mem'], {'fs': []}, so=True),
        stg('enums', ['p', E0], {'fs': []}, so=True),
        stg('port', ['obj', 'cfg::Port3'], dflt), stg('ports2', ['obj', 'cfg::Port2'], {'fs': []}, so=True),
    ]
    return {'types': types, 'settings': settings}


def spec_real():
    """the REAL spec: load_spec_from_schema(std schema), dumped by the impl script in the case format"""
    env = lib.impl_env()
    env['VRT_REPO'] = lib.REPO
    import subprocess
    p = subprocess.run([lib.PY, IMPL, lib.REPO, 'specdump'], env=env, capture_output=True, text=True, timeout=900)
    if p.returncode != 0:
        raise RuntimeError('specdump failed: ' + p.stderr[-1500:])
    d = json.loads(p.stdout.strip().split('\n')[-1])
    d['real'] = True
    return d


# ================================================================ value generators
STRS = ['', 'hello', 'a', 'b', '*', 'TCP', 'HTTP', "it's \"x\" $", 'a\nb', 'tab\there', 'žluť', '‮abc',
        '\U0001f600', 'x' * 40, '$$', '\\', '0', 'PT1S', 'None', 'true']


def canon_str(x):
    out = []
    for ch in x:
        c = ord(ch)
        out.append(ch if (32 <= c < 127 and c not in (34, 92)) else '\\u{%x}' % c)
    return '"' + ''.join(out) + '"'


def gen_iso(rnd):
    """ISO-8601 duration text accepted by the documented format PT[nH][nM][n[.f]S] with optional
    signs; returns (text, microseconds) -- the value is computed here from the format's meaning,
    not from the code under test"""
    parts = []
    us = 0
    if rnd.random() < 0.6:
        h = rnd.choice([0, 1, 2, 25, 1000, 2 ** 31, rnd.randrange(10 ** 6)])
        sg = rnd.choice(['', '', '+', '-'])
        parts.append(f'{sg}{h}H')
        us += (-h if sg == '-' else h) * 3600_000_000
    if rnd.random() < 0.6:
        m = rnd.choice([0, 1, 59, 60, 61, rnd.randrange(10 ** 4)])
        sg = rnd.choice(['', '', '+', '-'])
        parts.append(f'{sg}{m}M')
        us += (-m if sg == '-' else m) * 60_000_000
    if rnd.random() < 0.7:
        sec = rnd.choice([0, 1, 59, 60, rnd.randrange(10 ** 5)])
        sg = rnd.choice(['', '', '+', '-'])
        if rnd.random() < 0.5:
            nd = rnd.randint(1, 9)
            frac = ''.join(rnd.choice('0123456789') for _ in range(nd))
            f6 = int(frac[:6].ljust(6, '0'))
            parts.append(f'{sg}{sec}.{frac}S')
            us += (-1 if sg == '-' else 1) * (sec * 1_000_000 + f6)
        else:
            parts.append(f'{sg}{sec}S')
            us += (-sec if sg == '-' else sec) * 1_000_000
    return 'PT' + ''.join(parts), us


def gen_us(rnd):
    r = rnd.random()
    if r < 0.3:
        return rnd.choice([0, 1, -1, 999_999, 1_000_000, 60_000_000, 3600_000_000, -3600_000_000,
                           2 ** 63 - 1, -2 ** 63, 59_999_999, 3599_999_999, 500_000, -500_000, 1_000_001])
    if r < 0.6:
        return rnd.randrange(-10 ** 7, 10 ** 7)
    if r < 0.9:
        return rnd.randrange(-2 ** 40, 2 ** 40)
    return rnd.randrange(-2 ** 63, 2 ** 63)


def gen_mem_n(rnd):
    r = rnd.random()
    if r < 0.4:
        u = rnd.choice(UNITS)[1]
        k = rnd.choice([0, 1, 2, 1023, 1024, 1025, rnd.randrange(1, 5000)])
        return max(0, u * k + rnd.choice([0, 0, 0, 1, -1]))
    if r < 0.8:
        return rnd.randrange(0, 2 ** 20)
    return rnd.randrange(0, 2 ** 62)


def gen_int(rnd):
    r = rnd.random()
    if r < 0.4:
        return rnd.choice([0, 1, -1, 2, 5, 42, 80, 5656, 2 ** 31 - 1, -2 ** 31, 2 ** 63 - 1, -2 ** 63])
    return rnd.randrange(-1000, 1000)


def valid_prim(rnd, p):
    """-> (payload json, canonical stored value) for a payload that is inside the type"""
    if p == 'bool':
        b = rnd.random() < 0.5
        return b, 'T' if b else 'F'
    if p == 'int':
        z = gen_int(rnd)
        return z, f'i{z}'
    if p == 'str':
        x = rnd.choice(STRS)
        return x, canon_str(x)
    if p == 'float':
        i = rnd.randrange(NFLOATS)
        return {'f': i}, f'f{i}'
    if p == 'dur':
        r = rnd.random()
        if r < 0.4:
            us = gen_us(rnd)
            return {'dur': us}, f'd{us}'
        if r < 0.9:
            t, us = gen_iso(rnd)
            return t, f'd{us}'
        sec = rnd.choice([0, 5, -5, 3600, rnd.randrange(10 ** 6)])
        return rnd.choice(['', '+'] if sec >= 0 else ['']) + str(sec), f'd{sec * 1_000_000}'
    if p == 'mem':
        r = rnd.random()
        n = gen_mem_n(rnd)
        if r < 0.3:
            return {'mem': n}, f'm{n}'
        if r < 0.45:
            return n, f'm{n}'
        if r < 0.5:
            return '0', 'm0'
        sfx, u = rnd.choice(UNITS)
        k = rnd.choice([0, 1, 7, 1024, rnd.randrange(10 ** 6)])
        return f'{k}{sfx}', f'm{k * u}'
    if isinstance(p, list):
        mem = rnd.choice(p[2])
        if rnd.random() < 0.5:
            return {'enum': [p[1], mem]}, f'e{p[1]}:{mem}'
        return mem, f'e{p[1]}:{mem}'
    raise ValueError(p)


JUNK = [None, True, 0, 1, -7, 'abc', '', {'f': 2}, [], [1], ['a', 'b'], {'d': []}, {'d': [['a', 1]]},
        {'dur': 5}, {'mem': 5}, {'enum': [1, 'Enabled']}, [[1]], {'d': [['_tname', 'Nope']]}]


def invalid_prim(rnd, p):
    """payload outside the type (by EdgeQL typing as well as by Python's); must be rejected"""
    if p == 'bool':
        return rnd.choice([1, 0, 'true', None, {'f': 1}, [True], {'dur': 1}])
    if p == 'int':
        return rnd.choice(['42', {'f': 2}, None, [1], {'d': []}, {'dur': 1}, {'mem': 1}, '', {'enum': [0, 'Serializable']}])
    if p == 'str':
        return rnd.choice([5, True, None, ['a'], {'f': 1}, {'dur': 0}, {'d': [['a', 'b']]}])
    if p == 'float':
        return rnd.choice([1, '1.5', None, True, [{'f': 1}], {'mem': 1}])
    if p == 'dur':
        return rnd.choice([5, True, None, ['PT1S'], {'f': 1}, {'mem': 1}, 'abc', {'d': []}])
    if p == 'mem':
        return rnd.choice(['5', '5 MiB', 'MiB', '5mib', '5MB', '-5B', '1.5GiB', '', None, {'f': 2}, [1],
                           '5KiBB', ' 5B', '5B ', '5iB', {'dur': 1}, '+5B', '0x10B'])
    if isinstance(p, list):
        other = 1 if p[1] != 1 else 0
        return rnd.choice(['Nope', p[2][0].lower(), p[2][0] + ' ', 5, None, True, [p[2][0]],
                           {'enum': [other, ['Serializable', 'Enabled'][other]]}, ''])
    raise ValueError(p)


def quirk_prim(rnd, p):
    """payloads Python's typing lets through although the EdgeQL type would not (observed, counted)"""
    if p == 'int':
        return rnd.choice([True, False, 2 ** 70, -2 ** 64])
    if p == 'mem':
        return rnd.choice([True, False, -5, -1024, {'mem': -1}, {'memb': True}])
    return None


# ---------------------------------------------------------------- objects
def obj_payload(rnd, spec, tname, valid=True, depth=0):
    types = {t['name']: t for t in spec['types']}
    children = [t['name'] for t in spec['types'] if t['parent'] == tname]
    actual = tname
    d = []
    r = rnd.random()
    if children and r < 0.6:
        actual = rnd.choice(children)
        d.append(['_tname', actual])
    elif r < 0.8:
        d.append(['_tname', tname])
    t = types[actual]
    pools = {'priority': [0, 1, 2, 3], 'name': ['a', 'b', 'c'], 'database': ['f1', 'f2', 'f3'],
             'host': ['localhost', 'smtp.example.com'], 'username': ['u'], 'sub1': ['s1'], 'sub2': ['s2'],
             'port': [1000, 1001, 80], 'concurrency': [1, 4], 'protocol': ['http', 'graphql+http'],
             'user': ['test', 'admin', '*'], 'title': ['T', 'U'], 'width': [80, 120]}
    for f in t['fields']:
        required = 'd' not in f
        if not required and rnd.random() < 0.5:
            if rnd.random() < 0.15:
                d.append([f['n'], None])
            continue
        kind = f['t'][0]
        if kind == 'obj':
            d.append([f['n'], obj_payload(rnd, spec, f['t'][1], True, depth + 1)])
        elif kind == 'set':
            pool = {'user': ['*', 'test', 'admin'], 'address': ['localhost', 'x', '::1'],
                    'transports': ['TCP', 'HTTP', 'SIMPLE_HTTP']}.get(f['n'], ['p', 'q'])
            k = rnd.randint(0, 2)
            if k == 0 and f.get('d', {'fs': []}) != {'fs': []} and rnd.random() < 0.93:
                continue      # explicit "empty" over a non-empty default: rare (see OBSERVATIONS)
            xs = rnd.sample(pool, k) if k else []
            if k == 1 and rnd.random() < 0.5:
                d.append([f['n'], xs[0]])            # a bare element is wrapped
            else:
                d.append([f['n'], xs])
        else:
            p = f['t'][1]
            if f['n'] in pools and p in ('int', 'str'):
                d.append([f['n'], rnd.choice(pools[f['n']])])
            elif p == 'dur':
                if rnd.random() < 0.5:
                    d.append([f['n'], {'dur': gen_us(rnd)}])
                else:
                    d.append([f['n'], gen_iso(rnd)[0]])
            else:
                d.append([f['n'], valid_prim(rnd, p)[0]])
    rnd.shuffle(d)
    if not valid:
        how = rnd.randrange(8)
        if how == 0:
            d.append(['zzz', 1])
        elif how == 1 and any('d' not in f for f in t['fields']):
            req = [f['n'] for f in t['fields'] if 'd' not in f]
            victim = rnd.choice(req)
            d = [kv for kv in d if kv[0] != victim]
        elif how == 2:
            cands = [kv for kv in d if kv[0] != '_tname']
            if cands:
                kv = rnd.choice(cands)
                f = next(f for f in t['fields'] if f['n'] == kv[0])
                if f['t'][0] == 'p' and f['t'][1] == 'str':
                    kv[1] = 5
                elif f['t'][0] == 'p' and f['t'][1] == 'dur':
                    kv[1] = 'abc'
                elif f['t'][0] == 'set':
                    kv[1] = ['a', 1]
                elif f['t'][0] == 'obj':
                    kv[1] = 'x'
                else:
                    kv[1] = {'d': []}
            else:
                d.append(['zzz', 1])
        elif how == 3:
            return rnd.choice([None, 5, 'x', [], True, {'f': 1}])
        elif how == 4:
            d = [kv for kv in d if kv[0] != '_tname'] + [['_tname', 'Nope']]
        elif how == 5:
            d.append(['zzz', 'q'])
        elif how == 6:
            return [{'d': d}]
        else:
            req = [f['n'] for f in t['fields'] if 'd' not in f]
            if req:
                victim = rnd.choice(req)
                d = [kv if kv[0] != victim else [victim, None] for kv in d]
            else:
                d.append(['zzz', 0])
    return {'d': d}


# ================================================================ operation sequences
def setting_kind(sd):
    return sd['t'][0], (sd['t'][1] if sd['t'][0] == 'p' else sd['t'][1]), sd['so']


def gen_op(rnd, spec, name, scope, malformed):
    sd = next((s for s in spec['settings'] if s['n'] == name), None)
    if sd is None:
        return [rnd.choice(['SET', 'RESET', 'ADD', 'REM']), scope, name, rnd.choice(JUNK), ['x']]
    kind, p, so = setting_kind(sd)
    r = rnd.random()
    if kind == 'p':
        if r < 0.15:
            return ['RESET', scope, name, None if rnd.random() < 0.9 or not malformed else rnd.choice(JUNK)]
        if malformed and r < 0.25:
            return [rnd.choice(['ADD', 'REM']), scope, name, rnd.choice(JUNK + [valid_prim(rnd, p)[0]])]
        if so:
            q = rnd.random()
            if q < 0.7:
                k = rnd.choice([0, 1, 2, 3, 5])
                items = [valid_prim(rnd, p) for _ in range(k)]
                # expected stored set: distinct canonical values (bool/int cross-equality does not arise:
                # a bool set only gets bools, an int set only gets ints here)
                return ['SET', scope, name, [x[0] for x in items], ['v', '{' + ','.join(sorted({x[1] for x in items})) + '}']]
            if q < 0.8:
                items = [valid_prim(rnd, p)[0] for _ in range(rnd.randint(0, 3))]
                items.insert(rnd.randint(0, len(items)), invalid_prim(rnd, p))
                return ['SET', scope, name, items, ['x']]
            if q < 0.9:
                return ['SET', scope, name, rnd.choice([None, 5, 'abc', True, {'f': 1}, {'dur': 3}]), ['x']]
            if q < 0.95 and p in ('int', 'str'):
                n = rnd.choice([128, 129, 200])
                items = list(range(n)) if p == 'int' else [f's{i}' for i in range(n)]
                if n <= 128:
                    exp = '{' + ','.join(sorted((f'i{i}' if p == 'int' else canon_str(i)) for i in items)) + '}'
                    return ['SET', scope, name, items, ['v', exp]]
                return ['SET', scope, name, items, ['x']]
            qk = quirk_prim(rnd, p)
            return ['SET', scope, name, [qk] if qk is not None else []]
        q = rnd.random()
        if q < (0.55 if malformed else 0.8):
            v, c = valid_prim(rnd, p)
            return ['SET', scope, name, v, ['v', c]]
        if q < 0.93:
            return ['SET', scope, name, invalid_prim(rnd, p), ['x']]
        qk = quirk_prim(rnd, p)
        if qk is None:
            v, c = valid_prim(rnd, p)
            return ['SET', scope, name, v, ['v', c]]
        return ['SET', scope, name, qk]
    # object settings
    if r < 0.12:
        return ['RESET', scope, name, None]
    if so:
        if r < 0.6:
            ok = rnd.random() < (0.6 if malformed else 0.85)
            return ['ADD', scope, name, obj_payload(rnd, spec, p, ok), ['a'] if ok else ['x']]
        if r < 0.85:
            ok = rnd.random() < 0.85
            pl = obj_payload(rnd, spec, p, ok)
            if ok and rnd.random() < 0.4 and isinstance(pl, dict):     # filtered reset names only some fields
                pl = {'d': [kv for kv in pl['d'] if rnd.random() < 0.6 or kv[0] == '_tname']}
            return ['REM', scope, name, pl]
        if malformed:
            k = rnd.randint(0, 3)
            return ['SET', scope, name, [obj_payload(rnd, spec, p, rnd.random() < 0.8) for _ in range(k)]]
        return ['ADD', scope, name, obj_payload(rnd, spec, p, True), ['a']]
    # single object setting
    if malformed:
        q = rnd.random()
        if q < 0.4:
            return ['SET', scope, name, [obj_payload(rnd, spec, p, True) for _ in range(rnd.randint(0, 2))]]
        if q < 0.7:
            return ['ADD', scope, name, obj_payload(rnd, spec, p, rnd.random() < 0.8)]
        return ['REM', scope, name, obj_payload(rnd, spec, p, True)]
    return rnd.choice([['RESET', scope, name, None], ['ADD', scope, name, obj_payload(rnd, spec, p, True)]])


def gen_case(rnd, spec, malformed=False, maxlen=10):
    names = [s['n'] for s in spec['settings']]
    k = rnd.choice([1, 1, 2, 3])
    focus = rnd.sample(names, min(k, len(names)))
    if malformed and rnd.random() < 0.2:
        focus.append('nope')
    n = rnd.randint(1, maxlen)
    scopes = rnd.sample(SCOPES, rnd.choice([1, 2, 3, 3]))
    sysnames = {s['n'] for s in spec['settings'] if s.get('sys')}
    ops = []
    for _ in range(n):
        nm = rnd.choice(focus)
        # CONFIGURE SESSION / CURRENT BRANCH is refused by the compiler for system-level settings: in the
        # real-spec stream (whose to_edgeql text is loaded back through the real compiler) they are only
        # touched at instance scope
        sc = 'INSTANCE' if (spec.get('real') and nm in sysnames) else rnd.choice(scopes)
        ops.append(gen_op(rnd, spec, nm, sc, malformed))
    return {'spec': spec, 'ops': ops, 'q': names + ['nope']}


# ---------------------------------------------------------------- real spec: CONFIGURE text through the real compiler
SCOPE_TEXT = {'SESSION': ['SESSION'], 'DATABASE': ['CURRENT BRANCH', 'CURRENT DATABASE'], 'INSTANCE': ['INSTANCE', 'SYSTEM']}
QL_STRS = ['', 'hello', 'a', 'b', '*', 'TCP', 'x y', 'NeverAllow', 'AlwaysAllow', 'One', 'Two', 'zzz', 'PT1S', 'false',
           'Default', 'InMemory', 'žluť']
PG_DUR = [('1 hour', 3600_000_000), ('3 ms', 3000), ('90 seconds', 90_000_000), ('2 minutes 5 us', 120_000_005),
          ('-5', -5_000_000), ('0', 0), ('01:02:03', 3723_000_000), ('1 hour 3 ms', 3600_003_000)]


def ql_expr(rnd, sd):
    """-> (EdgeQL expression text, label) for `CONFIGURE <scope> SET <name> := <expr>`.
    label ('p', canon): if the statement is accepted its value must be canon;
          ('x',): the text is ill-typed for the setting: the compiler or Operation.apply must reject it"""
    kind, p, so = setting_kind(sd)
    r = rnd.random()

    def lit(p, bad=False):
        if p == 'bool':
            if bad:
                return rnd.choice(['1', "'true'", '0.5']), None
            b = rnd.random() < 0.5
            return ('true' if b else 'false'), ('T' if b else 'F')
        if p == 'int':
            if bad:
                return rnd.choice(["'5'", 'true', '1.5', "<duration>'1s'"]), None
            z = rnd.choice([0, 1, 2, 5, 10, 100, 5656, 32767, 32768, 2147483647, 2147483648, -1,
                            9223372036854775807, rnd.randrange(1, 1000)])
            return str(z), f'i{z}'
        if p == 'str':
            if bad:
                return rnd.choice(['5', 'true', "<duration>'1s'"]), None
            x = rnd.choice(QL_STRS)
            return "'" + x + "'", canon_str(x)
        if p == 'float':
            return '1.5', None
        if p == 'dur':
            if bad:
                return rnd.choice(['5', "'PT1S'" if False else 'true', "<duration>'abc'", "<duration>'PT1X'"]), None
            q = rnd.random()
            if q < 0.5:
                t, us = gen_iso(rnd)
                return f"<duration>'{t}'", f'd{us}'
            t, us = rnd.choice(PG_DUR)
            return f"<duration>'{t}'", f'd{us}'
        if p == 'mem':
            if bad:
                return rnd.choice(["<cfg::memory>'5 MiB'", "<cfg::memory>'5mib'", "<cfg::memory>true", "'5MiB'" if False else "5.5",
                                   "<cfg::memory>'-5B'", "<cfg::memory>''"]), None
            q = rnd.random()
            if q < 0.6:
                sfx, u = rnd.choice(UNITS)
                k = rnd.choice([0, 1, 7, 1024, rnd.randrange(10 ** 6)])
                return f"<cfg::memory>'{k}{sfx}'", f'm{k * u}'
            if q < 0.85:
                n = gen_mem_n(rnd)
                return f'<cfg::memory>{n}', f'm{n}'
            n = rnd.choice([-5, -1024, -1])
            return f'<cfg::memory>{n}', f'm{n}'          # negative size (known finding C19-json-memory-negative)
        if isinstance(p, list):
            tn = ['sys::TransactionIsolation', 'cfg::TestEnabledDisabledEnum', 'sys::TransactionAccessMode',
                  'sys::TransactionDeferrability'][p[1]]
            if bad:
                return rnd.choice([f"<{tn}>'Nope'", '5', 'true']), None
            mem = rnd.choice(p[2])
            return (f"<{tn}>'{mem}'" if rnd.random() < 0.6 else f"'{mem}'"), f'e{p[1]}:{mem}'
        raise ValueError(p)
    if kind != 'p':
        return None
    if so:
        if r < 0.1:
            t, _ = lit(p, True)
            return '{' + t + '}', ('x',)
        k = rnd.choice([0, 1, 1, 2, 3])
        items = [lit(p) for _ in range(k)]
        if k == 1 and rnd.random() < 0.5:
            return items[0][0], ('p', '{' + items[0][1] + '}')
        return '{' + ', '.join(i[0] for i in items) + '}', ('p', '{' + ','.join(sorted({i[1] for i in items})) + '}')
    if r < 0.15:
        t, _ = lit(p, True)
        return t, ('x',)
    t, c = lit(p)
    return t, (('p', c) if c is not None else None)


def gen_real_items(rnd, spec, maxlen=10):
    names = [s['n'] for s in spec['settings']]
    sdesc = {s['n']: s for s in spec['settings']}
    focus = rnd.sample(names, rnd.choice([1, 1, 2, 3]))
    n = rnd.randint(1, maxlen)
    scopes = rnd.sample(SCOPES, rnd.choice([1, 2, 3, 3]))
    items = []
    for _ in range(n):
        nm = rnd.choice(focus)
        sd = sdesc[nm]
        sc = rnd.choice(scopes)
        if sd.get('sys') and rnd.random() < 0.9:
            sc = 'INSTANCE'
        kind = sd['t'][0]
        if kind == 'p':
            if rnd.random() < 0.2:
                items.append(('ql', f'CONFIGURE {rnd.choice(SCOPE_TEXT[sc])} RESET {nm};', None))
            else:
                e = ql_expr(rnd, sd)
                items.append(('ql', f'CONFIGURE {rnd.choice(SCOPE_TEXT[sc])} SET {nm} := {e[0]};', e[1]))
        else:
            # INSERT / filtered RESET are executed by the backend (evaluate_to_config_op leaves them to
            # SQL): their Operation payloads are generated here, as in the synthetic streams
            items.append(('op', gen_op(rnd, spec, nm, sc, False), None))
    return items


def gen_real_cases(rnd, spec, n):
    """-> (cases, compile statistics, compile-stage violations)"""
    all_items = [gen_real_items(rnd, spec) for _ in range(n)]
    texts = sorted({it[1] for items in all_items for it in items if it[0] == 'ql'})
    env = lib.impl_env()
    env['VRT_REPO'] = lib.REPO
    outs = lib.parallel_lines([lib.PY, IMPL, lib.REPO, 'compile'], [json.dumps({'t': t}) for t in texts], env=env)
    comp = {t: json.loads(o) for t, o in zip(texts, outs)}
    names = [s['n'] for s in spec['settings']]
    stats = {'statements': len(texts), 'compiled': sum('op' in v for v in comp.values()), 'rejected_by_class': {}}
    for v in comp.values():
        if 'err' in v:
            stats['rejected_by_class'][v['err']] = stats['rejected_by_class'].get(v['err'], 0) + 1
    cviol = []
    cases = []
    for items in all_items:
        ops = []
        for it in items:
            if it[0] == 'op':
                ops.append(it[1])
                continue
            _, text, label = it
            r = comp[text]
            if 'err' in r:
                continue                      # refused by the compiler: no operation reaches the config layer
            op = list(r['op'])
            if label is not None and label[0] == 'p':
                op.append(['v', label[1]])
            elif label is not None and label[0] == 'x':
                op.append(['x'])
            else:
                op.append(None)
            op.append(text)
            ops.append(op)
        if ops:
            cases.append({'spec': spec, 'ops': ops, 'q': names + ['nope']})
    return cases, stats, cviol


def small_scope(spec):
    """every sequence of <= 3 operations over {SET v1, SET v2, SET <invalid>, RESET} x 3 scopes on one
    scalar setting (lookup composition), for two settings"""
    out = []
    import itertools
    names = [s['n'] for s in spec['settings']]
    for name, v1, c1, v2, c2, bad in (('anint', 1, 'i1', 2, 'i2', 'x'), ('adur', 'PT1S', 'd1000000', {'dur': -5}, 'd-5', 5)):
        alpha = []
        for sc in SCOPES:
            alpha += [['SET', sc, name, v1, ['v', c1]], ['SET', sc, name, v2, ['v', c2]],
                      ['SET', sc, name, bad, ['x']], ['RESET', sc, name, None]]
        for n in (1, 2, 3):
            for seq in itertools.product(alpha, repeat=n):
                out.append({'spec': spec, 'ops': [list(o) for o in seq], 'q': names + ['nope'], 'ql': False})
    return out


def boundary(spec, setting, mk, limit=128, real=False):
    """histories that reach MAX_CONFIG_SET_SIZE through every path, on the object set `setting`
    (mk(i) = payload of the i-th distinct object, canon(i) its canonical stored form is not needed:
    acceptance / rejection labels only):
      * limit+2 INSERTs of distinct objects at one scope (the crossing step is an INSERT);
      * SET of limit-1 / limit / limit+1 objects;
      * SET limit; filtered RESET of one; INSERT; INSERT (the second must be rejected);
      * INSERT up to the limit in one scope does not affect another scope."""
    names = [s['n'] for s in spec['settings']]
    out = []

    def case(ops):
        out.append({'spec': spec, 'ops': ops, 'q': [setting, 'nope'], 'ql': True, 'noshrink': True})
    for sc in (['INSTANCE'] if real else ['INSTANCE', 'SESSION']):
        case([['ADD', sc, setting, mk(i), ['a'] if i < limit else ['x']] for i in range(limit + 2)])
    for n in (limit - 1, limit, limit + 1):
        case([['SET', 'DATABASE', setting, [mk(i) for i in range(n)], ['A'] if n <= limit else ['x']]])
    case([['SET', 'INSTANCE', setting, [mk(i) for i in range(limit)], ['A']],
          ['REM', 'INSTANCE', setting, mk(5)],
          ['ADD', 'INSTANCE', setting, mk(limit + 1), ['a']],
          ['ADD', 'INSTANCE', setting, mk(limit + 2), ['x']],
          ['ADD', 'DATABASE', setting, mk(limit + 2), ['a']]])
    case([['SET', 'INSTANCE', setting, [mk(i) for i in range(limit - 2)], ['A']]]
         + [['ADD', 'INSTANCE', setting, mk(limit + i), ['a'] if i < 2 else ['x']] for i in range(4)]
         + [['ADD', 'INSTANCE', setting, mk(3), ['x']]])       # full AND conflicting
    return out


def boundary_scalar(spec, setting, elems, canon, limit=128):
    out = []
    for n in (limit - 1, limit, limit + 1):
        items = [elems(i) for i in range(n)]
        lab = ['v', '{' + ','.join(sorted(canon(i) for i in range(n))) + '}'] if n <= limit else ['x']
        out.append({'spec': spec, 'ops': [['SET', 'SESSION', setting, items, lab],
                                          ['SET', 'SESSION', setting, items + [elems(0)] * 3, lab],   # duplicates do not count
                                          ['ADD', 'SESSION', setting, elems(0)]],
                    'q': [setting, 'nope'], 'noshrink': True})
    return out


def boundary_cases(S1, SR):
    out = []
    out += boundary(S1, 'providers', lambda i: {'d': [['name', f'n{i}']]})
    out += boundary(S1, 'ports', lambda i: {'d': [['protocol', 'http'], ['database', f'db{i}'], ['port', 1000 + i],
                                                   ['concurrency', 1], ['user', 'u'], ['address', [f'h{i}']]]})[:3]
    out += boundary_scalar(S1, 'ints', lambda i: i, lambda i: f'i{i}')
    out += boundary_scalar(S1, 'strs', lambda i: f's{i}', lambda i: canon_str(f's{i}'))
    if SR is not None:
        out += boundary(SR, 'email_providers',
                        lambda i: {'d': [['_tname', 'cfg::SMTPProviderConfig'], ['name', f'n{i}']]}, real=True)[:4]
        out += boundary_scalar(SR, 'multiprop', lambda i: f's{i}', lambda i: canon_str(f's{i}'))[:3]
    return out


def catalogue(rnd, spec):
    """one op of every opcode x scope for every setting with a fixed payload catalogue"""
    out = []
    names = [s['n'] for s in spec['settings']]
    for sd in spec['settings']:
        kind, p, so = setting_kind(sd)
        pls = list(JUNK)
        if kind == 'p':
            pls += [valid_prim(rnd, p)[0] for _ in range(6)] + [invalid_prim(rnd, p) for _ in range(6)]
            pls += [[valid_prim(rnd, p)[0] for _ in range(3)]]
        else:
            pls += [obj_payload(rnd, spec, p, True) for _ in range(5)] + [obj_payload(rnd, spec, p, False) for _ in range(5)]
            pls += [[obj_payload(rnd, spec, p, True), obj_payload(rnd, spec, p, True)]]
        for code in ('SET', 'RESET', 'ADD', 'REM'):
            for i, pl in enumerate(pls):
                out.append({'spec': spec, 'ops': [[code, SCOPES[i % 3], sd['n'], pl]], 'q': names + ['nope']})
    return out


def corpus():
    p = os.path.join(lib.VERIF, 'corpus', 'C19')
    out = []
    if os.path.isdir(p):
        for f in sorted(os.listdir(p)):
            if f.endswith('.json'):
                out.append(json.loads(json.load(open(os.path.join(p, f)))['case']))
    return out


REAL_STATS = {}


def gen_cases(tier, tr, SR=None):
    rnd = lib.rng('C19')
    S1, S2 = spec_main(tr), spec_exotic(tr)
    cases = corpus()
    ncorp = len(cases)
    cases += boundary_cases(S1, SR)            # both tiers: MAX_CONFIG_SET_SIZE reached through every path
    cases += small_scope(S1)
    cases += catalogue(rnd, S1) + catalogue(rnd, S2)
    nv, nm, nx = (6000, 2500, 1000) if tier == "quick" else (90000, 30000, 15000)
    cases += [gen_case(rnd, S1, False) for _ in range(nv)]
    cases += [gen_case(rnd, S1, True) for _ in range(nm)]
    cases += [gen_case(rnd, S2, rnd.random() < 0.4) for _ in range(nx)]
    if SR is not None:
        nr = 1200 if tier == "quick" else 12000
        rc, stats, _ = gen_real_cases(rnd, SR, nr)
        cases += rc
        REAL_STATS.clear()
        REAL_STATS.update(stats)
        REAL_STATS['cases'] = len(rc)
    if tier != 'quick':
        cases += [gen_case(rnd, S1, False, maxlen=40) for _ in range(5000)]
    return cases, ncorp


def enc(case):
    return json.dumps(case, ensure_ascii=True, separators=(',', ':'))


# ================================================================ Coq literals (vm_compute cross-check)
def cq_str(x):
    return '[' + '; '.join(f'{ord(c)}%N' for c in x) + ']'


def cq_val(j):
    if j is None:
        return 'VNone'
    if j is True:
        return 'VBool true'
    if j is False:
        return 'VBool false'
    if isinstance(j, int):
        return f'VInt ({j})%Z'
    if isinstance(j, str):
        return f'VStr {cq_str(j)}'
    if isinstance(j, list):
        return 'VList [' + '; '.join(cq_val(x) for x in j) + ']'
    (k, v), = j.items()
    if k == 'f':
        return f'VFloat {v}%N'
    if k == 'dur':
        return f'VDur ({v})%Z'
    if k == 'mem':
        return f'VMem ({v})%Z false'
    if k == 'memb':
        return f'VMem ({1 if v else 0})%Z true'
    if k == 'enum':
        return f'VEnum {v[0]}%N {cq_str(v[1])}'
    if k == 'fs':
        return 'VList [' + '; '.join(cq_val(x) for x in v) + ']'
    if k == 'd':
        return 'VDict [' + '; '.join(f'({cq_str(a)}, {cq_val(b)})' for a, b in v) + ']'
    if k == 'obj':
        return f'VObj {cq_str(v[0])} [' + '; '.join(
            f'({cq_str(a)}, ({"true" if u else "false"}, {cq_val(b)}))' for a, u, b in v[1]) + ']'
    raise ValueError(j)


def cq_ptype(p):
    if isinstance(p, list):
        return f'(TEnum {p[1]}%N [' + '; '.join(cq_str(m) for m in p[2]) + '])'
    return {'bool': 'TBool', 'int': 'TInt', 'str': 'TStr', 'float': 'TFloat', 'dur': 'TDur', 'mem': 'TMem'}[p]


def cq_spec(spec):
    ts = []
    for t in spec['types']:
        fs = []
        for f in t['fields']:
            ft = {'p': lambda: f'FPrim {cq_ptype(f["t"][1])}', 'set': lambda: f'FSetOf {cq_ptype(f["t"][1])}',
                  'obj': lambda: f'FObj {cq_str(f["t"][1])}'}[f['t'][0]]()
            dv = f'Some ({cq_val(f["d"])})' if 'd' in f else 'None'
            fs.append(f'{{| f_name := {cq_str(f["n"])}; f_type := {ft}; f_unique := {"true" if f["u"] else "false"}; '
                      f'f_default := {dv} |}}')
        par = 'None' if t['parent'] is None else f'Some {cq_str(t["parent"])}'
        ts.append(f'{{| t_name := {cq_str(t["name"])}; t_fields := [{"; ".join(fs)}]; t_parent := {par} |}}')
    ss = []
    for s_ in spec['settings']:
        st = f'SPrim {cq_ptype(s_["t"][1])}' if s_['t'][0] == 'p' else f'SObj {cq_str(s_["t"][1])}'
        ss.append(f'{{| s_name := {cq_str(s_["n"])}; s_type := {st}; s_set_of := {"true" if s_["so"] else "false"}; '
                  f's_default := {cq_val(s_["d"])}; s_secret := {"true" if s_["sec"] else "false"} |}}')
    return f'{{| sp_settings := [{"; ".join(ss)}]; sp_types := [{"; ".join(ts)}] |}}'


def cq_case(case, specnames):
    key = json.dumps(case['spec'], sort_keys=True)
    code = {'SET': 'OSet', 'RESET': 'OReset', 'ADD': 'OAdd', 'REM': 'ORem'}
    sc = {'SESSION': 'Session', 'DATABASE': 'Database', 'INSTANCE': 'Instance'}
    ops = '; '.join(f'{{| o_code := {code[o[0]]}; o_scope := {sc[o[1]]}; o_name := {cq_str(o[2])}; '
                    f'o_value := {cq_val(o[3])} |}}' for o in case['ops'])
    qs = '; '.join(cq_str(q) for q in case['q'])
    return f'case_fp {specnames[key]} [{ops}] [{qs}]'


# ================================================================ running
def run_impl(lines, extra=()):
    env = lib.impl_env()
    env['VRT_REPO'] = lib.REPO
    return lib.parallel_lines([lib.PY, IMPL, lib.REPO, *extra], lines, env=env)


def split(line):
    parts = line.split(' ##')
    return parts[0], parts[1:]


def ops_of(line):
    m = re.match(r'O:(\S*)', line)
    return m.group(1).split(',') if m and m.group(1) else []


def agree(impl_base, model):
    """-> (agree?, fully compared?)"""
    if model.startswith('DRIVER-ERROR') or impl_base.startswith('HARNESS-ERROR'):
        return False, False
    mo = ops_of(model)
    if mo and mo[-1] == 'UNMODELLED':
        io = ops_of(impl_base)
        return io[:len(mo) - 1] == mo[:-1], False
    return norm_jr(impl_base) == norm_jr(model), True


def norm_jr(line):
    """inside the J:/R: sections only the fact that serialisation failed is compared, not the
    exception class: when two settings of one map are unserialisable the class depends on the
    iteration order of immutables.Map"""
    k = line.find(' J:')
    if k < 0:
        return line
    return line[:k] + re.sub(r'!\w+', '!E', line[k:])


def strip_tag(tag):
    tag = re.sub(r'@\d+', '', tag)
    return re.sub(r'^(stored-value-differs):.*$', r'\1', tag)


# ---------------------------------------------------------------- known findings (predicates over inputs)
def _mem_setting_names(spec):
    return {s['n'] for s in spec['settings'] if s['t'] == ['p', 'mem']}


def _mem_fields(spec):
    return {(t['name'], f['n']) for t in spec['types'] for f in t['fields'] if f['t'] == ['p', 'mem']}


def _payload_has_field(pl, fnames):
    if isinstance(pl, dict) and 'd' in pl:
        return any((k in fnames and v is not None) or _payload_has_field(v, fnames) for k, v in pl['d'])
    if isinstance(pl, list):
        return any(_payload_has_field(x, fnames) for x in pl)
    return False


def pred_edgeql_memory(case, tag):
    """to_edgeql raises ValueError as soon as the stored configuration holds a cfg::memory value"""
    if not tag.startswith('edgeql-roundtrip:') or not tag.endswith('raise:to_edgeql:ValueError'):
        return False
    mem = _mem_setting_names(case['spec'])
    mf = {f for _, f in _mem_fields(case['spec'])}
    for o in case['ops']:
        if o[0] == 'SET' and o[2] in mem:
            return True
        if o[0] in ('ADD', 'SET') and _payload_has_field(o[3], mf):
            return True
    return False


def _is_bad_mem_payload(v):
    if v is True or v is False:
        return True
    if isinstance(v, int) and v < 0:
        return True
    if isinstance(v, dict) and (('mem' in v and v['mem'] < 0) or 'memb' in v):
        return True
    return False


def pred_json_memory(case, tag):
    """a negative int (or a bool) is accepted for a cfg::memory setting / field; its JSON form
    ('-5B', 'TrueB') is rejected by from_json"""
    # the same unloadable text ('-5B' / 'TrueB') is what to_edgeql prints since 3120b56:
    # `<cfg::memory>'-5B'` is rejected when the statement is loaded back
    if not ((tag.startswith('json-roundtrip-raised:') and tag.endswith(':InvalidValueError'))
            or (tag.startswith('edgeql-roundtrip:') and tag.endswith(':raise:parse:InvalidValueError'))):
        return False
    mem = _mem_setting_names(case['spec'])
    mf = {f for _, f in _mem_fields(case['spec'])}

    def bad_in(pl):
        if isinstance(pl, dict) and 'd' in pl:
            return any((k in mf and _is_bad_mem_payload(v)) or bad_in(v) for k, v in pl['d'])
        if isinstance(pl, list):
            return any(bad_in(x) for x in pl)
        return False
    for o in case['ops']:
        if o[0] == 'SET' and o[2] in mem and _is_bad_mem_payload(o[3]):
            return True
        if o[0] in ('ADD', 'SET') and bad_in(o[3]):
            return True
    return False


def pred_edgeql_int64(case, tag):
    """an int outside int64 is accepted for an int setting; to_edgeql raises ValueError on it"""
    if not tag.startswith('edgeql-roundtrip:') or not tag.endswith('raise:to_edgeql:ValueError'):
        return False

    def big(pl):
        if isinstance(pl, bool):
            return False
        if isinstance(pl, int):
            return not (-2 ** 63 <= pl < 2 ** 63)
        if isinstance(pl, list):
            return any(big(x) for x in pl)
        if isinstance(pl, dict) and 'd' in pl:
            return any(big(v) for _, v in pl['d'])
        return False
    return any(o[0] in ('SET', 'ADD') and big(o[3]) for o in case['ops'])


def pred_unparseable_string(case, tag):
    """to_edgeql prints a str value in a form the EdgeQL lexer rejects (the C18 quoting defects:
    a dollar-quoted literal whose text ends with `$`, bidirectional control characters verbatim)"""
    if not tag.startswith('edgeql-roundtrip:') or not tag.endswith('raise:parse:EdgeQLSyntaxError'):
        return False

    def bad(x):
        if isinstance(x, str):
            if any(0x202A <= ord(c) <= 0x202E or 0x2066 <= ord(c) <= 0x2069 for c in x):
                return True
            return "'" in x and '"' in x and x.endswith('$')
        if isinstance(x, list):
            return any(bad(y) for y in x)
        if isinstance(x, dict) and 'd' in x:
            return any(bad(v) for _, v in x['d'])
        return False
    return any(o[0] in ('SET', 'ADD') and bad(o[3]) for o in case['ops'])


def obs_empty_multi_field(case, tag):
    """an object payload gives a multi-valued field explicitly as empty while the field's default is
    non-empty: stored as empty, printed by to_edgeql as `field := {}`, which evaluates to "no value"
    and reloads as the default.  Whether the real compile step behaves like the harness's literal
    evaluator here cannot be established without the std schema -- counted, not alarmed."""
    if not tag.startswith('edgeql-roundtrip:'):
        return False
    if not (tag.endswith(':differs') or tag.endswith('raise:apply:ConstraintViolationError')):
        return False
    nonempty = {f['n'] for t in case['spec']['types'] for f in t['fields']
                if f['t'][0] == 'set' and f.get('d', {'fs': []}) != {'fs': []}}

    def has(x):
        if isinstance(x, dict) and 'd' in x:
            return any((k in nonempty and v == []) or has(v) for k, v in x['d'])
        if isinstance(x, list):
            return any(has(y) for y in x)
        return False
    return any(o[0] in ('SET', 'ADD') and has(o[3]) for o in case['ops'])


def walk_objs(spec, tname, payload):
    """yield (resolved type description, {field: payload}) for every object payload nested in `payload`
    (a dict payload of declared type `tname`; `_tname` overrides, as in from_pyvalue)"""
    types = {t['name']: t for t in spec['types']}
    if isinstance(payload, list):
        for x in payload:
            yield from walk_objs(spec, tname, x)
        return
    if not (isinstance(payload, dict) and 'd' in payload):
        return
    d = {k: v for k, v in payload['d']}
    tn = d.get('_tname') if isinstance(d.get('_tname'), str) else tname
    t = types.get(tn)
    if t is None:
        return
    yield t, d
    for f in t['fields']:
        if f['t'][0] == 'obj' and f['n'] in d:
            yield from walk_objs(spec, f['t'][1], d[f['n']])


def case_objs(case):
    sd = {s['n']: s for s in case['spec']['settings']}
    for o in case['ops']:
        if o[0] in ('ADD', 'SET') and o[2] in sd and sd[o[2]]['t'][0] == 'obj':
            yield from walk_objs(case['spec'], sd[o[2]]['t'][1], o[3])


def pred_multi_default_tuple(case, tag):
    """a multi-valued field whose schema default has several elements gets the default
    frozenset({(<elements>)}) -- a set holding ONE TUPLE (staeval.object_type_to_spec wraps the tuple
    instead of converting it); an object created without that field cannot be written as JSON and
    read back, nor printed by to_edgeql.  In the pinned schema: cfg::mTLS.transports."""
    if not ((tag.startswith('json-roundtrip-raised:') and tag.endswith(':ConfigurationError'))
            or (tag.startswith('edgeql-roundtrip:') and tag.endswith(':raise:to_edgeql:ValueError'))):
        return False
    for t, d in case_objs(case):
        for f in t['fields']:
            if f['t'][0] == 'set' and isinstance(f.get('d'), dict) and any(isinstance(x, list) for x in f['d'].get('fs', [])):
                if d.get(f['n']) is None:
                    return True
    return False


def obs_bool_for_int(case, tag):
    """Operation.apply accepts a bool where the setting / field type is int (isinstance); to_edgeql prints
    `true`, which the real compiler refuses for an int setting (so does it for the original CONFIGURE
    statement: the state is reachable only through operations not produced by the compiler)"""
    if not (tag.startswith('edgeql-roundtrip:') and (tag.endswith(':raise:parse:ConfigurationError')
                                                     or tag.endswith(':raise:parse:QueryError'))):
        return False
    sd = {s['n']: s for s in case['spec']['settings']}

    def has_bool(x):
        return isinstance(x, bool) or (isinstance(x, list) and any(isinstance(y, bool) for y in x))
    for o in case['ops']:
        if o[0] == 'SET' and o[2] in sd and sd[o[2]]['t'] == ['p', 'int'] and has_bool(o[3]):
            return True
    for t, d in case_objs(case):
        for f in t['fields']:
            if f['t'] in (['p', 'int'], ['set', 'int']) and has_bool(d.get(f['n'])):
                return True
    return False


def obs_none_default_multi_field(case, tag):
    """a multi-valued object field whose default is None (cfg::AuthMethod.transports, cfg::Trust.transports)
    is written to JSON as [] and read back as frozenset(): None vs empty set"""
    if not tag.startswith('json-roundtrip-differs:'):
        return False
    for t, d in case_objs(case):
        for f in t['fields']:
            if f['t'][0] == 'set' and 'd' in f and f['d'] is None and d.get(f['n']) is None:
                return True
    return False


OBSERVATIONS = {'empty-multi-field-vs-default': obs_empty_multi_field,
                'bool-for-int': obs_bool_for_int,
                'none-default-multi-field': obs_none_default_multi_field}

KNOWN_PREDICATES = {
    # (C19-to_edgeql-memory and C19-to_edgeql-unparseable-string were fixed in /repo, commits 3120b56 and
    #  e926075+28c4a3e: they suppress nothing any more -- the round trip of to_edgeql text through the
    #  repo grammar alarms if they return)
    'C19-json-memory-negative': pred_json_memory,
    'C19-to_edgeql-int64': pred_edgeql_int64,
}
# fixed in /repo (suppress nothing; kept only so that a replay can name what came back):
#   C19-to_edgeql-memory (3120b56), C19-to_edgeql-unparseable-string (e926075+28c4a3e),
#   C19-multi-default-tuple (dfc4d65: staeval.object_type_to_spec wrapped a multi default in one tuple)
FIXED_PREDICATES = {'C19-multi-default-tuple': pred_multi_default_tuple,
                    'C19-to_edgeql-memory': pred_edgeql_memory,
                    'C19-to_edgeql-unparseable-string': pred_unparseable_string}


def classify(case, tag, known_ids):
    t = strip_tag(tag)
    for fid, pred in KNOWN_PREDICATES.items():
        if fid in known_ids and pred(case, t):
            return fid, fid
    for oid, pred in OBSERVATIONS.items():
        if pred(case, t):
            return 'obs:' + oid, oid
    for fid, pred in KNOWN_PREDICATES.items():
        if pred(case, t):
            return fid if fid in known_ids else None, fid
    for fid, pred in FIXED_PREDICATES.items():
        if pred(case, t):
            return None, fid + ' (recorded as FIXED: it is back)'
    return None, None


# ---------------------------------------------------------------- shrinking
def shrink(case, pred, batch_pred=None):
    """greedy op deletion.  `batch_pred(list of cases) -> list of bool` evaluates one round of
    candidates in a single run of the implementation (start-up with the real spec costs seconds)"""
    ops = list(case['ops'])
    changed = True
    import time as _time
    t0 = _time.time()
    # boundary histories carry labels that depend on the whole history (the 129th INSERT "must be
    # rejected" only after 128 accepted ones): they are minimal by construction and are not shrunk
    if case.get('noshrink') or len(ops) > 40:
        return case
    while changed and len(ops) > 1 and _time.time() - t0 < 120:
        changed = False
        cands = [dict(case, ops=ops[:i] + ops[i + 1:]) for i in range(len(ops))]
        if batch_pred is not None:
            res = batch_pred(cands)
        else:
            res = [pred(c) for c in cands]
        for c, ok in zip(cands, res):
            if ok:
                ops = c['ops']
                changed = True
                break
    return dict(case, ops=ops)


def one_impl(case):
    return run_impl([enc(case)])[0]


def nontrivial(case, impl_line):
    """>= 2 operations on one setting of which >= 2 succeeded, and (they span >= 2 scopes, or one is an
    INSERT / filtered RESET on an object set, or an invalid payload follows a success on that setting)"""
    res = ops_of(impl_line)
    by = {}
    for o, r in zip(case['ops'], res):
        by.setdefault(o[2], []).append((o, r))
    for name, lst in by.items():
        okc = [o for o, r in lst if r == 'ok']
        if len(lst) >= 2 and len(okc) >= 2:
            if len({o[1] for o in okc}) >= 2:
                return True
            if any(o[0] in ('ADD', 'REM') for o in okc):
                return True
        if len(lst) >= 2 and okc:
            seen_ok = False
            for o, r in lst:
                if r == 'ok':
                    seen_ok = True
                elif seen_ok:
                    return True
    return False


# ================================================================ the check
def run(tier):
    rep = lib.Report(PROP, tier, 'proof')
    thorough = tier == 'thorough'
    import time as _time
    stages = {}
    _t = [_time.time()]

    def mark(name):
        now = _time.time()
        stages[name] = round(now - _t[0], 1)
        _t[0] = now

    # ---- 1. translator (fail-closed)
    tr = None
    tr_err = None
    try:
        tr = c19_units.run(lib.REPO, GEN_DIR)
    except Exception as e:      # TranslateError or a syntax error in the source
        tr_err = f'{type(e).__name__}: {e}'
    if tr is None:
        # generate cases with the last good tables so that the search for a failing input can run
        try:
            tr = c19_units.run('/repo', os.path.join(lib.CACHE, 'c19_fallback_gen'))
        except Exception:
            tr = None

    # ---- 2. proofs
    mark('translator')
    pf = lib.proof_stage(rep, 'C19', THEOREMS, extra_targets=['theories/C19/Refuted.vo'], thorough=thorough)
    mark('proofs')
    exe, blog = lib.build_model('c19', 'ExtractC19.v', 'c19_main.ml', 'C19_ext')
    mark('extraction+ocaml')

    if tr is None:
        rep.violation('translator failed closed and no fallback tables: ' + str(tr_err),
                      {'broken': 'harness/translate/c19_units.py', 'error': tr_err}, False)
        rep.coverage.update({'evaluations': 0, 'distinct_nontrivial': 0, 'rule': 'n/a', 'samples': [],
                             'trusted_base': []})
        return rep.finish()

    # ---- 3. cases
    SR = None
    sr_err = None
    try:
        SR = spec_real()
    except Exception as e:
        sr_err = f'{type(e).__name__}: {str(e)[-800:]}'
    mark('real spec dump (std schema load)')
    cases, ncorp = gen_cases(tier, tr, SR)
    mark('case generation (incl. real compile of CONFIGURE text)')
    lines = [enc(c) for c in cases]
    impl = run_impl(lines)
    mark('implementation + monitors')
    model = lib.run_model(exe, lines) if exe else None
    mark('extracted model')

    known_ids = {e['id'] for e in lib.known_findings(PROP)}
    mon = []            # (case index, tag)
    harness_err = []
    for i, r in enumerate(impl):
        if r.startswith('HARNESS-ERROR'):
            harness_err.append(i)
            continue
        for tag in split(r)[1]:
            mon.append((i, tag))
    mism = []
    partial = 0
    if model is not None:
        for i, (a, b) in enumerate(zip(impl, model)):
            ok, full = agree(split(a)[0], b)
            if not ok:
                mism.append(i)
            if not full:
                partial += 1

    # ---- 4. Coq-internal evaluation of a sample (guards the extraction step)
    coq_diff = []
    n_coq = 0
    if model is not None and pf['ok']:
        rnd = lib.rng('C19coq')
        pool = [i for i, c in enumerate(cases) if len(lines[i]) < 9000]
        idx = sorted(rnd.sample(pool, min(60 if not thorough else 400, len(pool))))
        specnames = {}
        defs = []
        for i in idx:
            key = json.dumps(cases[i]['spec'], sort_keys=True)
            if key not in specnames:
                specnames[key] = f'spec{len(specnames)}'
                defs.append(f'Definition {specnames[key]} : spec := {cq_spec(cases[i]["spec"])}.')
        req = ('From Coq Require Import List NArith ZArith. Import ListNotations.\n'
               'From Verif.C19 Require Import Model.\n' + '\n'.join(defs))
        try:
            outs = lib.coq_eval('C19', req, [cq_case(cases[i], specnames) for i in idx], timeout=900)
            fps = lib.run_model(exe, ['@' + lines[i] for i in idx])
            n_coq = len(outs)
            coq_diff = [i for i, o, f in zip(idx, outs, fps) if o.replace('%N', '').strip() != f.strip()]
        except Exception as e:
            coq_diff = [-1]
            rep.notes.append('coq_eval failed: ' + str(e)[-500:])

    mark('coq vm_compute cross-check')
    # ---- 5. verdict
    viol_tags = {}
    quirk_counts = {}
    obs_counts = {}
    for i, tag in mon:
        fid, would = classify(cases[i], tag, known_ids)
        if fid is not None and fid.startswith('obs:'):
            obs_counts[would] = obs_counts.get(would, 0) + 1
            continue
        if fid is not None:
            rep.known_finding(fid, f'{strip_tag(tag)}')
            quirk_counts[fid] = quirk_counts.get(fid, 0) + 1
            continue
        key = (strip_tag(tag), would)
        viol_tags.setdefault(key, []).append(i)
    for (tag, would), idxs in sorted(viol_tags.items(), key=lambda kv: (kv[0][1] is not None, not kv[0][0].startswith('set-too-large'), kv[0][0].startswith('edgeql-'),
                                                                   kv[0][0].startswith('json-'), -len(kv[1])))[:5]:
        i = idxs[0]

        def still_batch(cs, tag=tag):
            outs = run_impl([enc(c) for c in cs])
            return [any(strip_tag(t) == tag for t in split(o)[1]) for o in outs]
        small = shrink(cases[i], None, still_batch)
        what = f'monitor {tag!r} failed on the real configuration code ({len(idxs)} cases)'
        if would:
            what += f' [matches finding {would}; not suppressed: no such entry in known_findings.json findings]'
        rep.violation(what, {'case': enc(small), 'original_case': lines[i], 'impl_result': one_impl(small),
                             'model_result': (lib.run_model(exe, [enc(small)])[0] if exe else None),
                             'proposed_known_finding': would,
                             'how': f'PYTHONPATH={lib.REPO}:harness /venv/bin/python harness/impl/c19_impl.py '
                                    f'{lib.REPO} <<< case'})
    if SR is None:
        rep.violation('the real configuration spec could not be loaded (std schema / load_spec_from_schema): ' + str(sr_err),
                      {'broken': 'harness/impl/c19_impl.py specdump', 'error': sr_err}, False)
    for i in harness_err[:1]:
        rep.violation('harness error while driving the real code: ' + impl[i][:300],
                      {'case': lines[i], 'broken': 'harness/impl/c19_impl.py'}, False)
    if not viol_tags:
        if model is None:
            rep.violation('model does not build: ' + blog[-1500:], {'broken': 'extraction of theories/C19/Model.v'}, False)
        elif mism:
            i = mism[0]

            def dis_batch(cs):
                ls = [enc(c) for c in cs]
                return [not agree(split(a)[0], b)[0] for a, b in zip(run_impl(ls), lib.run_model(exe, ls))]
            small = shrink(cases[i], None, dis_batch)
            rep.violation(f'correspondence broken: model and implementation disagree on {len(mism)} of '
                          f'{len(cases)} cases; no monitor failed',
                          {'broken': 'correspondence C19 Model vs edb.server.config', 'case': enc(small),
                           'impl_result': one_impl(small), 'model_result': lib.run_model(exe, [enc(small)])[0],
                           'disagreements': len(mism)}, False)
        if coq_diff:
            rep.violation('extracted model disagrees with vm_compute inside Coq',
                          {'broken': 'extraction', 'case': lines[coq_diff[0]] if coq_diff[0] >= 0 else None}, False)
        if tr_err:
            rep.violation('translator failed closed: ' + tr_err,
                          {'broken': 'harness/translate/c19_units.py (source shape not recognised)', 'error': tr_err}, False)
        if not pf['ok']:
            rep.violation('proof obligations no longer check: ' + '; '.join(pf['broken'][:6]),
                          {'broken': pf['broken'], 'log_tail': pf['log'][-3000:]}, False)

    # ---- 6. evidence
    distinct = {l for l, c, r in zip(lines, cases, impl) if nontrivial(c, r)}
    opk, resk, lens, labels = {}, {}, {}, {}
    for c, r in zip(cases, impl):
        lens[len(c['ops'])] = lens.get(len(c['ops']), 0) + 1
        for o, rr in zip(c['ops'], ops_of(r)):
            opk[o[0]] = opk.get(o[0], 0) + 1
            resk[rr] = resk.get(rr, 0) + 1
            lab = o[4][0] if len(o) > 4 and o[4] else '-'
            labels[lab] = labels.get(lab, 0) + 1
    montab = {}
    for i, tag in mon:
        montab[strip_tag(tag)] = montab.get(strip_tag(tag), 0) + 1
    rep.coverage.update({
        'evaluations': len(cases),
        'distinct_nontrivial': len(distinct),
        'rule': 'operation sequences (1..10 ops, thorough also up to 40) over synthetic specs that contain every '
                'setting kind (bool/int/str/float/enum/duration/memory, single and set-valued, object sets with '
                'exclusive fields, inheritance and nested objects, a single object setting, a secret setting): '
                'corpus; boundary histories that reach MAX_CONFIG_SET_SIZE through INSERT (130 INSERTs of distinct objects), SET of '
                '127/128/129 objects or elements, SET 128 + filtered RESET + INSERT + INSERT, on synthetic and real specs; every sequence of <=3 ops over {SET v1, SET v2, SET invalid, RESET} x 3 scopes on two scalar '
                'settings; a one-op catalogue (every setting x opcode x payload catalogue); seeded random '
                'mostly-valid sequences; a malformed stream (wrong opcode for the kind, junk payloads, unknown '
                'names); an exotic-spec stream. non-trivial = >=2 ops on one setting of which >=2 succeeded and '
                '(they span >=2 scopes or include INSERT/filtered RESET on an object set), or a rejected op after a '
                'successful one on the same setting; distinct = distinct encoded case',
        'exhaustive': False,
        'exhaustive_subspaces': ['<=3 ops over {SET v1, SET v2, SET invalid, RESET} x {SESSION, DATABASE, INSTANCE} '
                                 'on settings anint and adur'],
        'samples': [json.loads(lines[i])['ops'] for i in (ncorp, len(lines) // 2, len(lines) - 1)],
        'traces_validated_against_impl': len(cases) if model is not None else 0,
        'compared_only_up_to_an_unmodelled_op': partial,
        'model_vs_impl_disagreements': len(mism),
        'coq_vm_compute_cross_checked': n_coq,
        'monitor_failures': len(mon),
        'monitor_failures_by_kind': montab,
        'known_finding_hits': quirk_counts,
        'observations_not_alarmed': obs_counts,
        'op_kinds': opk, 'op_results': resk, 'sequence_lengths': dict(sorted(lens.items())),
        'payload_labels': {'v (inside the type, value predicted)': labels.get('v', 0),
                           'x (outside the type, must be rejected)': labels.get('x', 0),
                           'a (valid object, accepted unless exclusive conflict)': labels.get('a', 0),
                           'unlabelled (quirks, filtered resets, junk)': labels.get('-', 0)},
        'real_spec_stream': (dict(REAL_STATS, note='CONFIGURE SET/RESET text generated here, compiled by the REAL compiler '
                                  'front end (parse -> compile_ast_to_ir -> evaluate_to_config_op) on the REAL spec '
                                  'loaded from the std schema; the resulting Operations are the cases of this stream '
                                  '(INSERT / filtered RESET payloads are generated: the compiler leaves them to SQL)')
                             if SR is not None else {'unavailable': sr_err}),
        'stage_seconds': stages,
        'translator': (tr or {}).get('manifest'),
        'trusted_base': [
            'Coq 8.16.1 kernel (coqc; coqchk in the thorough tier); vm_compute only for examples/refutations and the cases.v cross-check',
            'extraction: ExtrOcamlBasic only; OCaml 4.13.1; ocaml/conv.ml + c19_main.ml (JSON reader, canonical printer)',
            'translator harness/translate/c19_units.py (fail-closed; constants only)',
            'correspondence harness harness/props/c19.py + harness/impl/c19_impl.py (generators, canonical printers, monitors, '
            'value oracle of the generator for labelled payloads)',
            'runtime substrate harness/rt (stubs for absent native modules; LR tables for the repo grammar + real Rust lexer, '
            'used only by the to_edgeql round-trip monitor)',
            'stand-in for compile + static evaluation of CONFIGURE statements (needs the std schema, not available): '
            'literal ASTs are turned into Operations by c19_impl.ql_to_ops using the real statypes constructors',
            'modelled, not verified: Python isinstance/==/hash/frozenset/dict semantics, the re module on ASCII input, '
            'json.dumps/loads being mutually inverse on JSON values, immutables.Map as a finite map',
        ],
    })
    rep.assumptions = [
        'operation payloads are the Python values listed in Model.val; GLOBAL scope, Duration text other than [+-]?digits '
        'or ISO-8601, non-ASCII text fed to \\d regexes and non-string _tname are outside the model (counted, skipped)',
        'specs are well-formed (distinct setting / type / field names, parents and field object types registered)',
        'CONFIGURE statements reach Operation.apply through the compiler; that step is not available here and is '
        'replaced by a literal evaluator in the harness',
    ]
    return rep.finish()


def replay(path):
    d = json.load(open(path))
    case = d['replay'].get('case') or d['replay'].get('original_case')
    exe, _ = lib.build_model('c19', 'ExtractC19.v', 'c19_main.ml', 'C19_ext')
    print('case :', case)
    print('impl :', run_impl([case])[0])
    print('model:', lib.run_model(exe, [case])[0] if exe else 'model does not build')
    return 0
