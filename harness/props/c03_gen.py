"""Generators shared by C03 (describe round trip) and C11 (SDL order independence).

* schemas: the feature-grammar generator of harness/props/c02_gen.py (imported, not modified), the
  upstream SDL corpus tests/schemas/*.esdl of the repo under test, and hand-written edge families;
* an SDL splitter / permuter that works on TEXT (independent of the repo's parser): a document is
  split into module blocks, declarations and body members by bracket depth, permuted at every
  level and printed back;
* replay sessions (module-alias maps) for C03;
* cyclic / looks-cyclic-but-is-not families for C11 (the label is known by construction).
"""
from __future__ import annotations

import glob
import os
import re

from props import c02_gen as G

# =====================================================================================
#  SDL text splitter
# =====================================================================================


class Node:
    """one SDL item: `head` text, optional `{ children }` block, optional trailing text"""
    __slots__ = ('head', 'children', 'tail')

    def __init__(self, head, children=None, tail=''):
        self.head = head
        self.children = children
        self.tail = tail

    def is_module(self):
        return self.children is not None and re.match(r'\s*module\s', self.head) is not None

    def render(self, ind=''):
        if self.children is None:
            return ind + self.head.strip() + ';'
        inner = '\n'.join(c.render(ind + '    ') for c in self.children)
        return ind + self.head.strip() + ' {\n' + inner + ('\n' if inner else '') + ind + '}' + self.tail.strip() + ';'

    def count(self):
        return 1 + sum(c.count() for c in (self.children or []))


class SplitError(Exception):
    pass


_OPEN = '([{'
_CLOSE = ')]}'


def _skip_string(s, i):
    """s[i] starts a string / quoted identifier / comment; return index after it (or i if not)"""
    c = s[i]
    n = len(s)
    if c == '#':
        j = s.find('\n', i)
        return n if j < 0 else j + 1
    if c in '\'"':
        # raw strings r'..' are handled by the caller seeing the quote; escapes: backslash
        raw = i > 0 and s[i - 1] in 'rR' and (i < 2 or not (s[i - 2].isalnum() or s[i - 2] == '_'))
        j = i + 1
        while j < n:
            if s[j] == '\\' and not raw:
                j += 2
                continue
            if s[j] == c:
                return j + 1
            j += 1
        raise SplitError('unterminated string')
    if c == '`':
        j = s.find('`', i + 1)
        if j < 0:
            raise SplitError('unterminated quoted identifier')
        return j + 1
    if c == '$':
        m = re.match(r'\$([A-Za-z_][A-Za-z0-9_]*)?\$', s[i:])
        if m:
            tag = m.group(0)
            j = s.find(tag, i + len(tag))
            if j < 0:
                raise SplitError('unterminated dollar string')
            return j + len(tag)
    return i


def split_items(s, i=0, top=True):
    """parse items until the closing brace of the enclosing block (or end of text when top)
    -> (list of Node, index after the closing brace)"""
    items = []
    n = len(s)
    while True:
        # skip whitespace / comments / stray semicolons
        while i < n:
            if s[i].isspace() or s[i] == ';':
                i += 1
            elif s[i] == '#':
                i = _skip_string(s, i)
            else:
                break
        if i >= n:
            if top:
                return items, i
            raise SplitError('unterminated block')
        if s[i] == '}':
            if top:
                raise SplitError('unbalanced }')
            return items, i + 1
        # one item
        start = i
        depth = 0
        assign = False
        node = None
        while i < n:
            c = s[i]
            if c in '\'"`$':
                j = _skip_string(s, i)
                if j != i:
                    i = j
                    continue
            if c == ':' and depth == 0 and s.startswith(':=', i):
                assign = True
                i += 2
                continue
            if c == '{' and depth == 0 and not assign:
                head = s[start:i]
                children, i = split_items(s, i + 1, top=False)
                # optional trailing text up to ';' (nothing in practice)
                node = Node(head, children, '')
                break
            if c in _OPEN:
                depth += 1
            elif c in _CLOSE:
                if depth == 0:
                    if c == '}':
                        # item without terminating ';' right before the block end
                        node = Node(s[start:i])
                        break
                    raise SplitError('unbalanced ' + c)
                depth -= 1
            elif c == ';' and depth == 0:
                node = Node(s[start:i])
                i += 1
                break
            i += 1
        if node is None:
            if depth != 0:
                raise SplitError('unbalanced brackets')
            node = Node(s[start:i])
        if node.head.strip():
            items.append(node)


def strip_comments(s):
    out = []
    i = 0
    n = len(s)
    while i < n:
        c = s[i]
        if c == '#':
            j = s.find('\n', i)
            i = n if j < 0 else j
            continue
        if c in '\'"`$':
            j = _skip_string(s, i)
            if j != i:
                out.append(s[i:j])
                i = j
                continue
        out.append(c)
        i += 1
    return ''.join(out)


def parse_doc(text):
    items, _ = split_items(strip_comments(text), 0, True)
    return items


def render_doc(items):
    return '\n'.join(n.render('') for n in items)


def copy_tree(items):
    return [Node(n.head, copy_tree(n.children) if n.children is not None else None, n.tail) for n in items]


def permute_doc(items, rnd, levels=('modules', 'decls', 'members'), split_modules=False):
    """a random permutation at the chosen levels; returns a new tree.
    split_modules: additionally split one module block into two blocks with the same name (the same
    declarations, spread over two blocks) and interleave them with the other modules."""
    items = copy_tree(items)
    if split_modules:
        mods = [n for n in items if n.is_module() and len(n.children) >= 2]
        if mods:
            m = rnd.choice(mods)
            k = rnd.randint(1, len(m.children) - 1)
            rnd.shuffle(m.children)
            second = Node(m.head, m.children[k:], '')
            m.children = m.children[:k]
            items.append(second)
    _rec_perm(items, rnd, levels)
    return items


def _rec_perm(nodes, rnd, levels, depth=0, parent_is_module=False):
    for n in nodes:
        if n.children is not None:
            _rec_perm(n.children, rnd, levels, depth + 1, n.is_module())
    if depth == 0:
        lvl = 'modules'
    elif parent_is_module:
        lvl = 'decls'
    else:
        lvl = 'members'
    if lvl in levels and len(nodes) > 1:
        rnd.shuffle(nodes)


def reverse_doc(items):
    """the fully reversed document (every level)"""
    items = copy_tree(items)

    def rec(nodes):
        nodes.reverse()
        for n in nodes:
            if n.children is not None:
                rec(n.children)
    rec(items)
    return items


def all_top_permutations(items, limit=120):
    """all permutations of the declarations of a single-module document, or of the top-level items
    (module blocks / fully-qualified declarations) of a document with several of them"""
    import itertools
    out = []
    if len(items) == 1 and items[0].is_module():
        m = items[0]
        for p in itertools.permutations(range(len(m.children))):
            out.append([Node(m.head, [m.children[i] for i in p], '')])
            if len(out) >= limit:
                break
        return out
    if len(items) > 5:
        return []
    for p in itertools.permutations(range(len(items))):
        out.append([items[i] for i in p])
        if len(out) >= limit:
            break
    return out


def shape(items):
    """(modules, declarations, members) counts"""
    mods = [n for n in items if n.is_module()]
    nm = len(mods)
    nd = 0
    nb = 0

    def walk_mod(m):
        nonlocal nm, nd, nb
        for d in m.children:
            if d.is_module():
                nm += 1
                walk_mod(d)
            else:
                nd += 1
                nb += d.count() - 1
    for m in mods:
        walk_mod(m)
    nd += len(items) - len(mods)
    return nm, nd, nb


# =====================================================================================
#  schema sources
# =====================================================================================

EXT_MARKERS = ('using extension', 'ext::', 'fts::', 'pg_trgm', 'pgvector', 'unaccent')


def upstream_corpus(repo, maxlen=7000):
    """[(name, sdl text)] from tests/schemas/*.esdl of the repo under test (module bodies)"""
    out = []
    for p in sorted(glob.glob(os.path.join(repo, 'tests', 'schemas', '*.esdl'))):
        try:
            t = open(p, encoding='utf-8').read()
        except OSError:
            continue
        if len(t) > maxlen or any(m in t for m in EXT_MARKERS):
            continue
        name = os.path.basename(p)[:-5]
        mod = 'default'
        if name.endswith('_other'):
            mod = 'other'
        out.append((name, f'module {mod} {{\n{t}\n}}'))
    return out


HAND = [
    ('mutual-links', 'module default { type MA { link b -> MB; }; type MB { link a -> MA; multi link many -> MA; }; }'),
    ('self-link', 'module default { type T { link parent -> T; multi link kids := .<parent[is T]; property n := count(.kids); }; }'),
    ('backlink-pair', 'module default { type P1 { required property name -> str; multi link cs := .<p[is C1]; }; type C1 { required link p -> P1; property pn := .p.name; }; '
                      'abstract type Titled { required property title -> str; }; type P2 extending P1, Titled; }'),
    ('nested-modules', 'module default { type A { link b -> default::sub::B; }; module sub { type B { link a -> default::A; property x := count(default::A); }; }; }; '
                       'module other { type C extending default::A, default::sub::B; alias V := (select default::A { b }); }'),
    ('unqualified-in-module', 'module other { type X { property p -> str; link y -> Y; }; type Y extending X; scalar type S extending str; '
                              'function f(a: S) -> str using (<str>a); alias XV := (select X filter .p = f(<S>"a")); }'),
    ('std-shadow', 'module default { scalar type str2 extending str; type Object2 extending Object { property id2 -> uuid; }; '
                   'function len2(s: str) -> int64 using (len(s)); type U { property l := len2("x"); required property s -> str2 { default := <str2>"d"; }; }; }'),
    ('constraints', 'module default { abstract constraint pos { using (__subject__ > 0); errmessage := "neg"; }; '
                    'scalar type PInt extending int64 { constraint pos; }; '
                    'type K { required property a -> PInt { constraint exclusive; }; property b -> str { constraint max_len_value(5); constraint regexp(r"^\\w+$"); }; '
                    'constraint exclusive on ((.a, .b)); constraint expression on (.a > 1) except (.b = "x"); index on (.b); index on ((.a, .b)); }; }'),
    ('link-props', 'module default { abstract link rel { property since -> datetime; property weight -> float64 { default := 1.0; }; }; '
                   'type N { multi link knows extending rel -> N { property note -> str; constraint exclusive; on target delete allow; }; '
                   'link best -> N { on target delete deferred restrict; on source delete delete target; }; }; }'),
    ('globals-policies', 'module default { global cur -> uuid; global lim -> int64 { default := 10; }; required global flag -> bool { default := false; }; '
                         'global me := (select Usr filter .id = global cur); '
                         'type Usr { required property nm -> str; access policy own allow all using (.id ?= global cur); '
                         'access policy ro allow select; access policy noadm deny delete using (.nm = "admin") { errmessage := "no"; }; }; '
                         'type Doc2 { required link owner -> Usr { default := (global me); }; property n -> int64 { rewrite insert, update using (global lim); }; '
                         'trigger log after insert, update for each do (insert Log { msg := __new__.owner.nm }); }; type Log { property msg -> str; }; }'),
    ('enums-arrays-tuples', 'module default { scalar type Col extending enum<Red, Green, Blue>; scalar type Seq extending sequence; '
                            'type E { property c -> Col { default := Col.Red; }; property cs -> array<Col>; property t -> tuple<a: int64, b: str>; '
                            'property tt -> array<tuple<x: Col, y: float64>>; property sq -> Seq; multi property tags -> str; '
                            'property isred := .c = Col.Red; }; function pick(c: Col) -> optional str using (<str>c); '
                            'function vs(variadic xs: int64) -> int64 using (sum(array_unpack(xs))); '
                            'function nd(b: optional str = {}, named only a: int64 = 5) -> int64 using (a); }'),
    # scalars extending a USER enum (added after seed C03/4): the subtype must be described by its base name,
    # not by the inherited label list
    ('enum-inheritance', 'module default { scalar type Color extending enum<Red, Green>; scalar type Shade extending Color; '
                         'scalar type Tone extending Shade { annotation title := "t"; }; '
                         'type Paint { property c -> Color; property s -> Shade { default := <Shade>"Red"; }; multi property ts -> Tone; }; '
                         'function shade_of(c: Color) -> optional Shade using (<Shade><str>c); }'),
    ('annotations', 'module default { abstract annotation note; abstract inheritable annotation tagl; '
                    'type AN { annotation note := "n"; annotation tagl := "t"; annotation title := "T"; annotation description := "D"; '
                    'property p -> str { annotation note := "pn"; annotation tagl := "pt"; }; index on (.p) { annotation note := "idx"; }; }; '
                    'type AN2 extending AN; function af() -> str { annotation note := "f"; using ("x"); }; '
                    'scalar type AS extending str { annotation tagl := "s"; }; }'),
    ('aliases', 'module default { type Mv { required property title -> str; property year -> int64; multi link cast -> Pn; }; type Pn { required property nm -> str; }; '
                'alias MvA := Mv { title, n := count(.cast) }; alias Late := (select Mv filter .year > 2000 order by .title); '
                'alias Pair := (Mv.title, Mv.year); alias Names := Pn.nm; alias One := 1; alias NestA := MvA { title, cast: { nm } }; '
                'alias WithT := (with x := Mv select x { title, y := x.year + 1 }); }'),
    ('overloads', 'module default { abstract type B0 { property p -> str; link l -> B0; }; type B1 extending B0 { overloaded required property p -> str { default := "d"; }; '
                  'overloaded link l -> B1; }; type B2 extending B1 { overloaded property p -> str { constraint max_len_value(3); }; }; '
                  'abstract type Mix { property m -> int64; }; type B3 extending B2, Mix { overloaded property m -> int64 { default := 0; }; }; }'),
    ('multi-computed', 'module default { type W { required property a -> int64; required property b -> int64; property s := .a + .b; property d := .s * 2; '
                       'multi property all3 := {.a, .b, .s}; link me := (select W filter .id = W.id limit 1); '
                       'multi link others := (select W filter .a != W.a); required property c := 1; single property e := <str>.a; }; }'),
    ('func-obj', 'module default { type Fo { required property nm -> str; }; function fo(o: Fo) -> str using (o.nm); '
                 'function fos() -> set of Fo using (select Fo); function fcnt() -> int64 using (count(Fo)); '
                 'type Fu { property x := fcnt(); link f := (select fos() limit 1); property fn := fo(assert_exists(.f)); }; }'),
    ('empty-modules', 'module default {}; module a {}; module a::b {}; module a::b::c { type Deep; }; module z { type Z extending a::b::c::Deep; }'),
    ('fq-toplevel', 'type default::TopA { link b -> default::TopB; }; type default::TopB; scalar type default::TopS extending std::str; module default {}'),
    ('quoted-names', 'module default { type `Select` { property `from` -> str; property `my prop` -> int64; link `type` -> `Select`; '
                     'property c := .`my prop` + 1; index on (.`from`); }; type `T-1` extending `Select`; scalar type `my scalar` extending str; }'),
    ('module-named-like-std', 'module math { type V { property n -> int64; }; function abs(x: int64) -> int64 using (x); }; '
                              'module default { type MU { property a := math::abs(-1); property b := std::math::abs(-2); link v -> math::V; }; }'),
    ('session-module-shadows-std', 'module other { function count(x: int64) -> int64 using (x); function len(s: str) -> int64 using (0); }; '
                                   'module default { type Cn { property d := count({1, 2}); property e := len("abc"); multi property tags -> str; '
                                   'property nt := count(.tags); }; }'),
    ('mod-std-names', 'module default { type str { property v -> std::str; }; type Us { link s -> default::str; property t -> std::str; }; '
                      'function count(x: int64) -> int64 using (x); type Cn { property c := default::count(1); property d := std::count({1, 2}); }; }'),
]

# forced in every run of BOTH tiers of C03 and C11 (classes of seeded defects the random streams missed)
SWEEP = [
    # stored-expression normalisation: WITH aliases / FOR iterators / shape-computed names that shadow a
    # type, function or module name inside their own definition
    ('with-shadow', '''module app { type User { required property name -> str; property active -> bool; multi link friends -> User;
      property nact := (with User := (select User filter .active) select count(User));
      property first_active := (with User := (select User filter .active) select (select User order by .name limit 1).name); };
   alias ActiveUsers := (with User := (select User filter .active) select User { name });
   function active_names() -> set of str using (with User := (select User filter .active) select User.name);
   type Post { link author -> User { default := (with User := (select User filter .active) select assert_single((select User limit 1))); };
      required property title -> str { default := 'untitled'; constraint expression on (len(__subject__) > 0); };
      property str := (with str := .title select str ++ '!');
      property cnt := (with count := count(User) select count + 1); };
   alias Iter := (for User in {1, 2} union (User + 1));
   alias Shaped := (select User { str := .name, count := count(.friends), User := .name ++ '!' });
   global app := (with app := 1 select app);
 }'''),
    ('with-shadow-default', 'module default { type User { required property name -> str; property active -> bool; '
                            'property nact := (with User := (select User filter .active) select count(User)); }; '
                            'alias ActiveUsers := (with User := (select User filter .active) select User { name }); '
                            'function active_names() -> set of str using (with User := (select User filter .active) select User.name); }'),
    # union-typed link targets on a holder whose name sorts before the right-hand operands
    ('union-target', 'module default { type Aa { link l -> Ab | Zz; multi link m -> Zz | Ab | Mm; }; type Ab { property x -> str; }; '
                     'type Zz { property x -> str; }; type Mm { property x -> str; }; }'),
    # references that occur only inside FILTER / ORDER BY / OFFSET / LIMIT (result alias), nested shape
    # filters, group, for ... union (select ... filter ...); cross-module, referencing declaration first
    ('filter-only-refs', '''module default { type Holder {
      property p := (select o := data::Other filter o.flag and exists data::Gate limit 1).name;
      property q := (select o := data::Other order by data::rk(o.rank) limit 1).name;
      property r := (select o := data::Other order by o.name offset count(data::Off) limit count(data::Lim)).name;
      multi property t := (for x in {1, 2} union (select data::Other filter .rank = x and exists data::ForG).name);
   };
   alias V := (select data::Other { name, kids: { name } filter .rank = data::okv() });
   function gcount() -> int64 using (count((group data::Other by .flag)) + data::gf(1));
 }
 module data { type Other { property flag -> bool; property name -> str; property rank -> int64; multi link kids -> Other; };
   type Gate; type Off; type Lim; type ForG;
   function rk(a: int64) -> int64 using (a); function okv() -> int64 using (1); function gf(a: int64) -> int64 using (a); }'''),
    # nested modules in flat syntax and fully-qualified top-level declarations around `module shop {}`
    ('flat-nested-modules', '''module shop { type Item { property sku -> shop::util::Sku; link bill -> shop::billing::Bill; }; };
   module shop::billing { type Bill { link item -> shop::Item; property amount -> shop::util::Money; }; };
   scalar type shop::util::Sku extending str;
   module shop::util { scalar type Money extending int64; }'''),
    # weak dependencies on every pointer of a given name + a function using such a pointer
    ('weak-name-cycle', '''module default { type T1 { property x := assert_single(T3).name; }; type T2 { property name := f(); };
   function f() -> optional str using ((select T1 limit 1).x); type T3 { property name -> str; }; }'''),
    ('weak-name-cycle2', '''module default { type U1 { property name -> str; }; type U3 { property name -> str; };
   function nm(t: U3) -> optional str using (t.name);
   type U5 { property name := nm(assert_single(U3)); property e := assert_single(U1).name; }; }'''),
]

# schemas built by a DDL script (session module `default`) instead of SDL: C03 only
SWEEP_DDL = [
    ('with-shadow-ddl', '''create module default if not exists; create module other;
create type default::User { create property name: str; create property active: bool; };
create type other::User { create property name: str; create property active: bool; };
create alias default::ActiveUsers := (with User := (select User filter .active) select User { name });'''),
    ('with-shadow-ddl2', '''create module default if not exists; create module other;
create type default::User { create property name: str; create property active: bool; };
create type other::User { create property name: str; create property active: bool; };
create function default::active_names() -> set of str using (with User := (select User filter .active) select User.name);
alter type default::User { create property nact := (with User := (select User filter .active) select count(User)); };'''),
]

SHADOW_NAMES = ['Sh', 'count', 'len', 'str', 'std', 'shadowm', 'default', 'Object', 'min']


def shadow_doc(rnd, extra_names=()):
    """a module whose stored expressions use WITH aliases / FOR iterators / shape-computed names chosen
    among type, function and module names (random per run)"""
    names = SHADOW_NAMES + [n for n in extra_names if re.fullmatch(r'[A-Za-z_]\w*', n)]
    n1, n2, n3, n4 = (rnd.choice(names) for _ in range(4))
    return f'''module shadowm {{ type Sh {{ required property name -> str; property active -> bool; property rank -> int64;
      property a := (with {n1} := (select Sh filter .active) select count({n1}));
      multi property b := (for {n2} in {{1, 2}} union ({n2} + 1));
      property c := (with {n3} := .name select {n3} ++ '!');
      property d := (with {n1} := (select Sh filter .rank > 0) select (select {n1} order by .name limit 1).name); }};
   alias ShV := (select Sh {{ {n4} := .name ++ '?' }});
   function shf() -> set of str using (with {n3} := (select Sh filter .active) select {n3}.name);
 }}''', (n1, n2, n3, n4)


# declarations that depend on each other in a REAL cycle (must be rejected in every order) and
# families that look cyclic but are not (must be accepted in every order)
CYCLIC = [
    ('cyc-inherit', 'type CycA extending CycB; type CycB extending CycA;'),
    ('cyc-inherit3', 'type Cy1 extending Cy3; type Cy2 extending Cy1; type Cy3 extending Cy2;'),
    ('cyc-alias', 'alias CA := CB; alias CB := CA;'),
    ('cyc-computed', 'type CC { property a := .b; property b := .a; };'),
    ('cyc-self', "type SR { property a := .a ++ 'x'; };"),
    ('cyc-scalar', 'scalar type S1 extending S2; scalar type S2 extending S1;'),
    ('cyc-global', 'global g1 := (global g2); global g2 := (global g1);'),
    ('cyc-alias-self', 'alias SelfA := (select SelfA);'),
    ('cyc-computed-cross', 'type X1 { link y -> Y1; property a := .y.b; }; type Y1 { link x -> X1; property b := .x.a; };'),
    ('cyc-func-alias', 'function fa() -> int64 using (count(FAl)); alias FAl := (select fa());'),
    ('cyc-abstract-link', 'abstract link l1 extending l2; abstract link l2 extending l1;'),
    ('cyc-constraint', 'abstract constraint c1 extending c2; abstract constraint c2 extending c1;'),
]
ACYCLIC_LOOKALIKE = [
    ('ok-mutual-links', 'type MA0 { link b -> MB0; }; type MB0 { link a -> MA0; };'),
    ('ok-backlinks', 'type PP { multi link cs := .<p[is CC0]; }; type CC0 { link p -> PP; };'),
    ('ok-self-count', 'type SC { property n := count(SC); };'),
    ('ok-computed-chain', 'type Ch { property a -> int64; property b := .a + 1; property c := .b + 1; property d := .c + .a; };'),
    ('ok-alias-chain', 'type AT { property p -> str; }; alias A1 := AT { p }; alias A2 := (select A1 filter .p = "x"); alias A3 := A2.p;'),
    ('ok-alias-of-alias-path', "type Mv { property title -> str; link o -> Pn; }; type Pn { property nm -> str; }; alias A := Mv; "
                               "alias B := (select A filter .title = 'x');"),
    ('ok-diamond', 'abstract type D0 { property p -> str; }; type D1 extending D0; type D2 extending D0; type D3 extending D1, D2;'),
    ('ok-func-chain', 'function g1(a: int64) -> int64 using (a + 1); function g2(a: int64) -> int64 using (g1(a) + 1); function g3() -> int64 using (g2(g1(1)));'),
    ('ok-computed-other-type', 'type O1 { link o -> O2; property v := .o.w; }; type O2 { property w := 1; link back := .<o[is O1]; };'),
    ('ok-default-self', 'type DS { required property a -> int64 { default := (select count(DS)); }; };'),
    ('ok-policy-self', 'type PS { link owner -> PS; access policy p allow all using (.owner.id ?= .id); };'),
    ('ok-constraint-inherit', 'abstract constraint k1 { using (__subject__ > 0); }; abstract constraint k2 extending k1; '
                              'scalar type KS extending int64 { constraint k2; }; type KT { property v -> KS; };'),
]


def wrap_default(body):
    return 'module default {\n' + body + '\n}'


def gen_schema_text(rnd, rich=True):
    s, feat = G.Gen(rnd, rich).schema()
    return G.render(s), sorted(feat), s


# =====================================================================================
#  unqualified rendering of generator schemas (C11: tracer name resolution inside a module)
# =====================================================================================

def render_unqualified(s, rnd, p=0.6):
    """like c02_gen.render, but a reference to a declaration of the SAME module is written without the
    module prefix with probability p (the SDL tracer then has to resolve it through the current
    module).  c02_gen is not modified: its module-level `qn` is swapped for the duration of the call."""
    orig = G.qn
    state = {'cur': 'default'}

    def qn(d):
        mod = d.get('mod', 'default')
        if mod == state['cur'] and rnd.random() < p:
            return d['name']
        return f"{mod}::{d['name']}"
    G.qn = qn
    try:
        mods = {}
        for d in s.decls:
            state['cur'] = d.get('mod', 'default')
            mods.setdefault(state['cur'], []).append(G.r_decl(s, d))
        for m in s.extra_modules:
            mods.setdefault(m, [])
        mods.setdefault('default', [])
        out = []
        for m in sorted(mods):
            out.append(f'module {m} {{\n' + '\n'.join(mods[m]) + '\n}')
        return '\n'.join(out)
    finally:
        G.qn = orig


# =====================================================================================
#  replay sessions (C03)
# =====================================================================================

def modules_of(text):
    """module names (and their first components) that appear in a DDL/SDL text, textually"""
    mods = set(re.findall(r'(?:create module|module)\s+([A-Za-z_][\w:]*)', text))
    mods |= {m.rsplit('::', 1)[0] for m in re.findall(r'([A-Za-z_]\w*(?:::[A-Za-z_]\w*)+)', text)}
    firsts = {m.split('::')[0] for m in mods}
    return mods, firsts


def harmless_sessions(rnd, schema_modules, nextra=1):
    """>= 3 alias maps none of whose alias NAMES equals the first component of a module that can occur
    in the text (std included); the current module varies over: default, an existing other module,
    a module that does not exist, std, and no current module at all"""
    mods = sorted(schema_modules | {'default'})
    other = [m for m in mods if m != 'default']
    fresh = ['zz_alias', 'al', 'mm', 'cur', 'x1']
    base = [
        [[None, 'default']],
        [[None, other[0] if other else 'nonexistent_mod']],
        [[None, rnd.choice(['std', 'schema', 'cfg', 'std::math'])], [rnd.choice(fresh), 'default'], [rnd.choice(fresh) + '2', 'std']],
        [],
    ]
    extra = [
        [[None, 'default::sub']],
        [[rnd.choice(fresh), rnd.choice(mods)], [None, 'sys']],
        [[None, 'default'], ['stdx', 'std'], ['defaultx', 'default']],
        [[None, '__std__']],
        [[None, 'nonexistent_mod']],
        [[None, other[-1] if other else 'other']],
    ]
    return base + rnd.sample(extra, nextra)


def colliding_session(rnd, firsts):
    """an alias whose NAME is the first component of a module named in the text"""
    k = rnd.choice(sorted(firsts | {'std', 'default'}))
    tgt = rnd.choice(['other_target', 'default', 'std', 'schema'])
    if tgt == k:
        tgt = 'other_target'
    return [[k, tgt], [None, 'default']]


# =====================================================================================
#  known-finding predicates (precise, over inputs / observed forms)
# =====================================================================================

STD_SUBMODULES = ('math', 'cal', 'enc', 'net', 'fts', 'pg', 'net::http')


def alias_collides(session, text):
    """C03-alias-shadows-module: the session has an alias whose NAME equals the first component of a
    module named in the text (std included), and it does not map the name to itself"""
    _, firsts = modules_of(text)
    firsts = set(firsts) | {'std'}
    for k, v in session:
        if k is not None and k.split('::')[0] in firsts and k == k.split('::')[0] and v != k:
            return True
    return False


def early_resolution(sdl_text, cmpres):
    """C03-migration-body-early-resolution: the schema has a user module M for which std::M exists and
    the only differences are expressions in which `M::f` became `std::M::f`"""
    if not isinstance(cmpres, dict) or 'dump_diff' not in cmpres:
        return False
    user_mods = set(re.findall(r'module\s+([A-Za-z_][\w:]*)', sdl_text))
    hit = [m for m in user_mods if m in STD_SUBMODULES]
    if not hit:
        return False
    def norm(v, m):
        if v[0] != 'expr':
            return json_text(v)
        return v[1].replace(f'std::{m}::', f'{m}::')      # the text; the resolved objects differ by definition
    for d in cmpres['dump_diff']:
        if d[0] != 'field' or not isinstance(d[3], list) or not isinstance(d[4], list):
            return False
        if not any(norm(d[3], m) == norm(d[4], m) for m in hit):
            return False
    return True


def json_text(v):
    import json
    return json.dumps(v)


def overloaded_link_order(text, err):
    """C11-inherited-overloaded-link-order: rejected with "cannot be cast automatically" and the
    document has an `overloaded` pointer whose owner has a subtype"""
    return bool(err) and 'cannot be cast automatically' in err.get('msg', '') and 'overloaded' in text


def abstract_constraint_base(text, err):
    """C11-abstract-constraint-base: "constraint 'X' does not exist" where X is an abstract constraint
    declared in the document and named as a base of another abstract constraint"""
    if not err:
        return False
    m = re.match(r"constraint '([\w:]+)' does not exist", err.get('msg', ''))
    if not m:
        return False
    short = m.group(1).split('::')[-1]
    return (re.search(r'abstract\s+constraint\s+' + re.escape(short) + r'\b', text) is not None
            and re.search(r'abstract\s+constraint\s+\w+(?:\([^)]*\))?\s+extending\s+[\w:, ]*\b' + re.escape(short) + r'\b', text) is not None)


def alias_nested_shape(text, err):
    """C11-alias-over-alias-nested-shape: "<type> has no link or property <p>" and the document has an
    alias whose shape descends through a link into a nested shape (`link: { ... }`) - the pointers
    of the link's TARGET type named there are not dependencies of the alias (directly or through
    another alias), so the alias is created first when the target type is declared later"""
    if not err or 'has no link or property' not in err.get('msg', ''):
        return False
    for m in re.finditer(r'alias\s+\w+\s*:=\s*([^;]*)', text):
        body = m.group(1)
        if re.search(r'\{[^{}]*\b\w+\s*:\s*\{', body):
            return True
    # ... or a path through another alias into a link target's pointer (`A.link.prop` with A an alias)
    aliases = re.findall(r'alias\s+(\w+)\s*:=', text)
    for a in aliases:
        if re.search(r'alias\s+\w+\s*:=[^;]*\b' + re.escape(a) + r'\.\w+\.\w+', text):
            return True
    return False


def c11_reject_finding(text, err):
    if abstract_constraint_base(text, err):
        return 'C11-abstract-constraint-base'
    if overloaded_link_order(text, err):
        return 'C11-inherited-overloaded-link-order'
    if alias_nested_shape(text, err):
        return 'C11-alias-over-alias-nested-shape'
    return None


# =====================================================================================
#  abstraction of a real DDL text to the C03 model's schema (Part II correspondence)
# =====================================================================================

_QN = r'(?:[A-Za-z_]\w*|`[^`]+`)(?:::(?:[A-Za-z_]\w*|`[^`]+`))+'


def split_statements(ddl):
    """top-level statements of a DDL text (bracket depth 0, strings skipped)"""
    out = []
    depth = 0
    start = 0
    i = 0
    n = len(ddl)
    while i < n:
        c = ddl[i]
        if c in '\'"`$':
            j = _skip_string(ddl, i)
            if j != i:
                i = j
                continue
        if c in _OPEN:
            depth += 1
        elif c in _CLOSE:
            depth -= 1
        elif c == ';' and depth == 0:
            st = ddl[start:i].strip()
            if st:
                out.append(st)
            start = i + 1
        i += 1
    st = ddl[start:].strip()
    if st:
        out.append(st)
    return out


def abstract_ddl(ddl):
    """-> (schema entries [(qualified name, cls, [referenced qualified names])], base names) or None.
    Only CREATE statements of module-qualified objects; CREATE MODULE is ignored (modules are implicit
    in the model); anything else (ALTER ...: the text splits an object over several statements) makes
    the abstraction abstain."""
    ents = []
    names = []
    for st in split_statements(strip_comments(ddl)):
        low = st.lower()
        if low.startswith('create module'):
            continue
        m = re.match(r'create\s+((?:abstract\s+|required\s+|multi\s+|single\s+|inheritable\s+|scalar\s+|final\s+)*'
                     r'(?:type|alias|function|global|constraint|annotation|link|property|index))\s+(' + _QN + r')', st, re.I)
        if not m:
            return None
        kind = ' '.join(m.group(1).lower().split())
        name = m.group(2)
        if name in names:
            return None          # overloaded functions: one name, several objects
        names.append(name)
        ents.append((name, kind, st))
    nameset = set(names)
    out = []
    base = set()
    for name, kind, st in ents:
        body = re.sub(r"'(?:[^'\\]|\\.)*'", "''", st[st.index(name) + len(name):])
        refs = []
        for r in re.findall(_QN, body):
            if r == name:
                continue
            if r in nameset:
                if r not in refs:
                    refs.append(r)
            elif r.startswith('std::'):
                # possibly `std::Type.ptr`-like tails are not produced by the printer
                if r not in refs:
                    refs.append(r)
                base.add(r)
        # implicit references of a CREATE statement (resolved through the session like explicit ones)
        implicit = {'type': 'std::Object', 'abstract type': 'std::Object', 'abstract link': 'std::link',
                    'abstract property': 'std::property', 'abstract constraint': 'std::constraint'}.get(kind)
        if implicit and implicit not in refs:
            refs.append(implicit)
            base.add(implicit)
        out.append((name, kind, refs))
    return out, sorted(base)
