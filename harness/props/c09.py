"""C09 — compiler session state follows transaction / savepoint semantics.

Proof : coq/theories/C09 — refinement of a PostgreSQL-style specification by the model of
        dbstate.py + compile_in_tx + server bookkeeping + worker state reuse, for every
        history satisfying hist_ok (see Model.v), with refutation witnesses for the three
        defects found (two repaired in /repo by `fix:` commits, one recorded as known finding).
Tie   : correspondence — the real dbstate / Compiler.compile_in_tx / _compile_ql_transaction /
        worker.compile_in_tx / AbstractPool.compile_in_tx run the same histories as the
        OCaml-extracted model (replies and the payload every statement was compiled against
        are compared), plus an independent Python PostgreSQL oracle as the property monitor.
"""
from __future__ import annotations

import itertools
import json
import os

import lib

PROP = 'C09'
THEOREMS = [
    'C09_refines', 'C09_agree', 'C09_log_sufficient', 'C09_reject_outside_block',
    'C09_rollback_restores', 'C09_rollback_to_restores', 'C09_release_keeps',
    'C09_commit_baseline', 'C09_log_sufficient_run', 'C09_reach_run', 'C09_reject_outside_block_impl',
    'C09_rollback_to_missing', 'C09_aborted_rejects',
]
REFUTED = ['C09_F1_refuted', 'C09_F2_refuted', 'C09_F3_refuted']
IMPL = os.path.join(lib.VERIF, 'harness', 'impl', 'c09_impl.py')
VARIANT = '1 1'      # fixF1 fixF2: what /repo implements after the two fix: commits
HEADER = VARIANT + ' 1 1 100'


# ---------------------------------------------------------------- generators

def gen_stmt(r, fresh, names):
    k = r.random()
    n = r.randint(1, names)
    if k < 0.10:
        return 'ST'
    if k < 0.18:
        return 'CO'
    if k < 0.26:
        return 'RB'
    if k < 0.44:
        return f'DE{n}'
    if k < 0.54:
        return f'RE{n}'
    if k < 0.70:
        return f'RT{n}'
    if k < 0.80:
        return f'SA{fresh()}'
    if k < 0.93:
        return f'DD{fresh()}'
    return 'QU'


def gen_history(r, maxlen=25):
    cnt = [10]

    def fresh():
        if r.random() < 0.12:
            return 0            # "reset to the empty configuration"
        cnt[0] += 1
        return cnt[0]
    names = r.choice((1, 2, 2, 3))
    p_bad = r.choice((0.03, 0.12, 0.25))
    p_fail = r.choice((0.0, 0.1, 0.25))
    p_cali = r.choice((0.0, 0.1, 0.3))
    reqs = []
    if r.random() < 0.7:
        reqs.append('ST/0/%d/-' % r.randint(0, 1))
    for _ in range(r.randint(1, maxlen)):
        if r.random() < p_bad:
            b = 'B:' + ','.join(gen_stmt(r, fresh, names) for _ in range(r.randint(1, 3)))
        else:
            b = gen_stmt(r, fresh, names)
        bf = '1' if r.random() < p_fail else '0'
        ru = '1' if r.random() < 0.5 else '0'
        ca = str(fresh()) if r.random() < p_cali else '-'
        reqs.append(f'{b}/{bf}/{ru}/{ca}')
    return reqs


FORMS = ['ST/0/1/-', 'CO/0/1/-', 'CO/1/1/-', 'RB/0/1/-', 'DE1/0/1/-', 'DE2/0/1/-', 'RE1/0/1/-',
         'RT1/0/1/-', 'RT1/0/0/-', 'DD{f}/0/1/-', 'DD{f}/1/1/-', 'SA{f}/0/1/-', 'QU/0/1/{f}',
         'QU/1/0/-', 'QU/0/1/0', 'SA0/0/1/-', 'B:RE1/0/1/-', 'B:DD{f},DE1/0/1/-', 'B:CO/0/1/-']


def exhaustive(depth):
    for d in range(1, depth + 1):
        for combo in itertools.product(range(len(FORMS)), repeat=d):
            f = 20
            reqs = []
            for i in combo:
                f += 1
                reqs.append(FORMS[i].format(f=f))
            yield reqs


def corpus():
    p = os.path.join(lib.VERIF, 'corpus', 'C09')
    out = []
    if os.path.isdir(p):
        for fn in sorted(os.listdir(p)):
            if fn.endswith('.json'):
                out.append(json.load(open(os.path.join(p, fn)))['case'])
    return out


def gen_cases(tier):
    r = lib.rng('C09')
    cases = [c.split(' ; ')[1:] if ' ; ' in c else [] for c in corpus()]
    cases = [c for c in cases if c]
    if tier == 'quick':
        cases += list(exhaustive(3))
        cases += [['ST/0/1/-'] + c for c in exhaustive(3)]
        cases += [gen_history(r) for _ in range(12000)]
    else:
        cases += list(exhaustive(4))
        cases += [['ST/0/1/-'] + c for c in exhaustive(4)]
        cases += [gen_history(r, 40) for _ in range(150000)]
    return cases


def line_of(reqs):
    return HEADER + ' ; ' + ' ; '.join(reqs)


def nontrivial(reqs):
    """contains a savepoint command inside a block and a payload change"""
    has_start = any(q.startswith('ST') for q in reqs)
    has_sp = any(q[:2] in ('DE', 'RT', 'RE') for q in reqs)
    has_change = any(q[:2] in ('DD', 'SA') or not q.endswith('-') for q in reqs)
    return has_start and has_sp and has_change


def run_impl(lines):
    return lib.parallel_lines([lib.PY, IMPL, lib.REPO], lines, env=lib.impl_env())


def first_diff(a, b):
    xa, xb = a.split(' '), b.split(' ')
    for i in range(max(len(xa), len(xb))):
        if i >= len(xa) or i >= len(xb) or xa[i] != xb[i]:
            return i
    return None


def shrink(reqs, pred):
    changed = True
    while changed and len(reqs) > 1:
        changed = False
        for i in range(len(reqs)):
            cand = reqs[:i] + reqs[i + 1:]
            if cand and pred(cand):
                reqs = cand
                changed = True
                break
    return reqs


def impl_vs_pg_bad(replies):
    """index of the first request where the real code's reply differs from the oracle's"""
    for i, pr in enumerate(replies.split(' ')):
        if not pr:
            continue
        a, b = pr.split('|')
        if a != b:
            return i
    return None


def run(tier):
    rep = lib.Report(PROP, tier, 'proof')
    thorough = tier == 'thorough'
    pf = lib.proof_stage(rep, 'C09', THEOREMS, extra_targets=['theories/C09/Refuted.vo'],
                         thorough=thorough)
    # refutation witnesses must still check too (they document the three findings)
    rok, rproved, rlog = lib.coq_props('C09', 'Refuted.v') if os.path.exists(
        os.path.join(lib.COQ, 'theories', 'C09', 'Refuted.v')) else (False, {}, 'Refuted.v missing')
    for t in REFUTED:
        if not rok or rproved.get(t) != []:
            pf['ok'] = False
            pf['broken'].append(f'{t}: does not check')
    rep.coverage['refutation_witnesses'] = {t: ('checked' if rproved.get(t) == [] else 'NOT CHECKED')
                                           for t in REFUTED}
    exe, blog = lib.build_model('c09', 'ExtractC09.v', 'c09_main.ml', 'C09_ext')

    cases = gen_cases(tier)
    lines = [line_of(c) for c in cases]
    impl = run_impl(lines)
    model = lib.run_model(exe, lines) if exe else None

    known = {k['id']: k for k in lib.known_findings(PROP)}
    viol, kf, mism, spec_mism = [], [], [], []
    n_hok = 0
    for i, l in enumerate(lines):
        bad = impl_vs_pg_bad(impl[i])
        hok = None
        mrest = None
        if model is not None:
            hok, _, mrest = model[i].partition(' ')
            n_hok += hok == 'H1'
            if mrest != impl[i] and not (hok.startswith('H0@') and (first_diff(mrest, impl[i]) or 0) > int(hok[3:])):
                # split: impl side vs oracle side
                im = ' '.join(x.split('|')[0] for x in impl[i].split(' ') if x)
                mm = ' '.join(x.split('|')[0] for x in mrest.split(' ') if x)
                po = ' '.join(x.split('|')[1] for x in impl[i].split(' ') if '|' in x)
                ms = ' '.join(x.split('|')[1] for x in mrest.split(' ') if '|' in x)
                if im != mm:
                    mism.append(i)
                if po != ms:
                    spec_mism.append(i)
        if bad is not None:
            # known finding C09-F3: the history is outside hist_ok and the first divergence from the
            # oracle comes after the RELEASE that made it so
            if hok and hok.startswith('H0@') and bad > int(hok[3:]) and 'C09-F3' in known:
                kf.append(i)
            else:
                viol.append(i)

    # Coq-internal evaluation of a sample (guards extraction)
    coq_diff, n_coq = [], 0
    if model is not None:
        r = lib.rng('C09coq')
        idx = sorted(r.sample(range(len(cases)), min(150 if not thorough else 600, len(cases))))
        exprs = [f'agree true true 1 1 100 {coq_reqs(cases[i])}' for i in idx]
        outs = lib.coq_eval('C09', 'From Coq Require Import List NArith. Import ListNotations.\n'
                                   'From Verif.C09 Require Import Model.', exprs)
        n_coq = len(outs)
        for i, o in zip(idx, outs):
            mrest = model[i].partition(' ')[2]
            agree = all(x.split('|')[0] == x.split('|')[1] for x in mrest.split(' ') if x)
            if (o.strip() == 'true') != agree:
                coq_diff.append(i)

    # ---- verdict
    for i in viol[:3]:
        small = shrink(cases[i], lambda c: impl_vs_pg_bad(run_impl([line_of(c)])[0]) is not None)
        out = run_impl([line_of(small)])[0]
        rep.violation('a statement was compiled against a state a PostgreSQL-style transaction would '
                      'not expose (or accepted/rejected differently): real code vs oracle differ at request '
                      f'#{impl_vs_pg_bad(out)}',
                      {'case': line_of(small), 'impl|oracle replies': out, 'original_case': lines[i],
                       'model (impl|spec)': lib.run_model(exe, [line_of(small)])[0] if exe else None,
                       'how': 'PYTHONPATH=/repo:/verif/harness /venv/bin/python harness/impl/c09_impl.py /repo <<< case'})
    if kf:
        ex = min((lines[i] for i in kf), key=len)
        rep.known_finding('C09-F3', known['C09-F3']['what'] + f' ({len(kf)} generated histories hit it, e.g. {ex})')
    if not viol:
        if model is None:
            rep.violation('model does not build: ' + blog[-1500:], {'broken': 'extraction of C09/Model.v'}, False)
        else:
            if mism:
                i = mism[0]
                rep.violation(f'correspondence broken: model variant (fixF1,fixF2)=({VARIANT}) and the real code '
                              f'disagree on {len(mism)} histories; no history with hist_ok violated the oracle',
                              {'broken': 'correspondence C09 Model.impl_step vs real dbstate/compile_in_tx/worker/pool',
                               'case': lines[i], 'impl': impl[i], 'model': model[i]}, False)
            if spec_mism:
                i = spec_mism[0]
                rep.violation('the Coq specification and the independent PostgreSQL oracle disagree',
                              {'broken': 'Model.spec_step vs harness/impl/c09_impl.py::PG', 'case': lines[i],
                               'impl': impl[i], 'model': model[i]}, False)
            if coq_diff:
                rep.violation('extracted model disagrees with vm_compute inside Coq',
                              {'broken': 'extraction', 'case': lines[coq_diff[0]]}, False)
        if not pf['ok']:
            rep.violation('proof obligations no longer check: ' + '; '.join(pf['broken'][:6]),
                          {'broken': pf['broken'], 'log_tail': pf['log'][-3000:]}, False)

    kinds = {}
    for l in impl:
        for pr in l.split(' '):
            if pr:
                kinds[pr[0]] = kinds.get(pr[0], 0) + 1
    distinct = {l for l, c in zip(lines, cases) if nontrivial(c)}
    rep.coverage.update({
        'evaluations': len(cases),
        'distinct_nontrivial': len(distinct),
        'rule': 'histories of client requests (single statements START/COMMIT/ROLLBACK/DECLARE/RELEASE/ROLLBACK TO/'
                'SET ALIAS/DDL/query, rejected scripts with an effectful prefix; flags: backend failure, worker '
                'reuse, client-side alias change): all sequences of length <= '
                f'{4 if thorough else 3} over {len(FORMS)} request forms (also prefixed by START), '
                'plus random histories (savepoint names from pools of 1-3 to force duplicates); non-trivial = '
                'has START, a savepoint command and a payload change; distinct = distinct encoded history',
        'samples': [lines[i] for i in (len(lines) // 4, len(lines) // 2, len(lines) - 1)],
        'traces_validated_against_impl': len(cases) if model is not None else 0,
        'histories_satisfying_hist_ok': n_hok,
        'model_vs_impl_disagreements': len(mism),
        'spec_vs_oracle_disagreements': len(spec_mism),
        'impl_vs_oracle_violations': len(viol),
        'known_finding_histories': len(kf),
        'coq_vm_compute_cross_checked': n_coq,
        'impl_reply_kinds': kinds,
        'exhaustive': False,
        'trusted_base': [
            'Coq 8.16.1 kernel (coqc; coqchk in the thorough tier); vm_compute in witnesses and cases.v',
            'extraction: ExtrOcamlBasic only; OCaml 4.13.1; ocaml/conv.ml + c09_main.ml',
            'harness/impl/c09_impl.py: REAL dbstate, Compiler.compile/compile_in_tx, _compile_ql_transaction, '
            'worker.compile_in_tx, AbstractPool.compile_in_tx; SOURCE TEXT TRANSLATED ON EVERY RUN and executed '
            '(harness/translate/pyx2py.py strips only the Cython declaration layer, fail closed; .pxd attribute '
            'defaults applied; harness/impl/pyxload.py): edb/server/dbview/dbview.pyx (DatabaseIndex, Database, '
            'DatabaseConnectionView: parse, _compile, as_compiled, _check_in_tx_error, start, start_tx, '
            '_apply_in_tx, on_success, on_error, tx_error, declare_savepoint, rollback_tx_to_savepoint, abort_tx, '
            'apply_config_ops), edb/server/protocol/execute.pyx (execute), edb/server/cache/stmt_cache.pyx; '
            'MODELLED (transliterated): the per-statement loop for SET ALIAS / DDL, the dispatch of binary.pyx '
            'EdgeConnection.execute / _execute_rollback / main-loop error handler, dbview.serialize_state '
            '(constant), the backend connection (scripted by the oracle), PostgreSQL (oracle class PG)',
            'the pyx2py translator: assumes the translated bodies mean the same in CPython as in Cython '
            '(C integer attributes become Python ints; no overflow is involved in this code)',
            'stub installer harness/rt/vrt.py for the missing native modules',
        ],
    })
    rep.assumptions = ['every payload update produces a fresh value (identity == equality of versions)',
                       'backend failures are placed on DDL / queries / COMMIT only (SAVEPOINT, RELEASE, START '
                       'cannot fail in PostgreSQL while the block survives)']
    return rep.finish()


def coq_stmt(s):
    k, a = s[:2], s[2:]
    return {'ST': 'SStart', 'CO': 'SCommit', 'RB': 'SRollback', 'QU': 'SQuery'}.get(k) or {
        'DE': f'SDeclare {a}%N', 'RE': f'SRelease {a}%N', 'RT': f'SRollbackTo {a}%N',
        'SA': f'SSetAlias {a}%N', 'DD': f'SDdl {a}%N'}[k]


def coq_reqs(reqs):
    out = []
    for q in reqs:
        b, bf, ru, ca = q.split('/')
        if b.startswith('B:'):
            body = 'BBadScript [' + '; '.join(coq_stmt(x) for x in b[2:].split(',') if x) + ']'
        else:
            body = f'BStmt ({coq_stmt(b)})'
        out.append(f'Req ({body}) {"true" if bf == "1" else "false"} {"true" if ru == "1" else "false"} '
                   f'{"None" if ca == "-" else "(Some " + ca + "%N)"}')
    return '[' + '; '.join(out) + ']'


def replay(path):
    d = json.load(open(path))
    case = d['replay'].get('case')
    exe, _ = lib.build_model('c09', 'ExtractC09.v', 'c09_main.ml', 'C09_ext')
    print('case              :', case)
    print('impl|oracle       :', run_impl([case])[0])
    print('model(impl|spec)  :', lib.run_model(exe, [case])[0] if exe else 'model does not build')
    return 0
