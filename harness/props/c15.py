"""C15 — Connection pool never oversubscribes or double-lends the backend
(edb/server/connpool/pool.py).  Shares model, proofs and harness with C16.

Proof: coq/theories/Pool/{Model,Proofs}.v — executable model of Block/BasePool/Pool at the
       granularity of asyncio atomic sections (explicit FIFO ready queue of continuations);
       every float/clock dependent decision is an ORACLE value of the event; theorems in
       coq/theories/C15/Props.v hold for every reachable state under every oracle value.
Tie:   correspondence — the REAL Pool runs on a deterministic event loop (harness/impl/
       c15_impl.py: harness-owned clock, timers, connect/disconnect futures); after EVERY
       event (incl. every single ready callback) the full integer state of the real pool
       (counters, per-block dicts/stacks/waiter queues, ready queue labels, outputs) is
       compared with the OCaml-extracted model fed with the same event + the oracle values
       read off the real pool.
Monitors (independent of the model): ghost truth of the fake backend, see c15_impl.py.
"""
from __future__ import annotations

import hashlib
import itertools
import json
import os
import re
import sys

import lib

PROP = 'C15'
THEOREMS = ['C15_capacity', 'C15_usage_exact', 'C15_usage_quiescent', 'C15_single_lender',
            'C15_stack_sound', 'C15_asserts_never_fire', 'C15_broken_are_open', 'C15_lent_for_requested_db',
            'C15_pending_covers_promises']
IMPL = os.path.join(lib.VERIF, 'harness', 'impl', 'c15_impl.py')
MONITORS = {'RUNAWAY': 'every atomic section of the pool returns (no unbounded loop / unbounded work)',
            'M1': 'open(not handed back broken)+opening <= max',
            'M2': 'current_capacity == open+opening (exact when the loop is quiescent)',
            'M3': 'acquire() returns an open, idle, not-lent connection of the requested database',
            'M4': 'disconnect only on open, not-lent, not-already-closing connections'}


# ---------------------------------------------------------------- cases
def corpus(prop):
    p = os.path.join(lib.VERIF, 'corpus', prop)
    out = []
    if os.path.isdir(p):
        for f in sorted(os.listdir(p)):
            if f.endswith('.json'):
                out.append(json.load(open(os.path.join(p, f)))['case'])
    return out


DIRECTED = [
    # release(discard=True) at full capacity (the max+1 excursion of _cur_capacity)
    '1,120000,{D};a1 q o0 q R0 q o0 d0 q',
    '2,120000,{D};a1 a1 q o0 o0 q R0 R0 q d0 o0 d0 o0 q',
    # transfer between databases in Mode D, failing disconnect inside the transfer
    '1,120000,{D};a1 q o0 a2 q t R0 q e0 q o0 q',
    '1,120000,{D};a1 q o0 q a2 q t r0 q d0 q o0 q r0 q',
    # connect failures: retries, 3D000, abort of the waiters
    '2,120000,{D};a1 a1 q f0 q f0 q f0 q f0 q f0 q',
    '2,120000,{D};a1 a2 q F0 q o0 q',
    # prune with pending connects / waiters; prune failing; gather of discards
    '2,120000,{D};a1 q o0 q r0 q a1 q r0 p1 q F0 q a1 a1 q',
    '2,50,{D};a1 q o0 q r0 q a1 q r0 p1 q o0 q d0 d0 q',
    '4,50,{D};a1 x x o1 p1 q d0 q',
    # GC
    '2,20,{D};a1 a1 q o0 o0 q r0 r0 q w30 t t q d0 d0 q t t',
    # Mode C rebalancing with several blocks, steal for a new block
    '3,120000,{D};a1 a1 a1 q o0 o0 o0 q r0 r0 q a2 q t q d0 q o0 q',
    '2,120000,{D};a1 a2 q o0 o0 q a3 a3 q r0 q t q d0 q o0 q r0 r0 q t q',
    # malformed releases
    '2,120000,{D};a1 a2 q o0 o0 q bu bf0 r0 bd0 bd1 q',
    # caller cancellation: before the task starts, while queued, after its waiter was completed
    '1,120000,{D};a1 c0 q a1 q o0 q r0 q',
    '1,120000,{D};a1 q o0 q a1 a1 q c0 r0 q r0 q',
    '1,120000,{D};a1 q o0 q a1 a1 q r0 c0 q r0 q',
    '1,120000,{D};a1 q o0 q a1 a1 a1 q c0 c0 r0 q r0 q',
    '2,120000,{D};a1 a1 q c1 F0 q c0 q',
    # _maybe_rebalance with a block two under quota and one free slot (pool full over two dbs,
    # waiters on d1, a slot of d2 freed by prune without a hand-over, Mode C tick)
    '4,120000,{D};a2 a2 a2 q o0 o0 o0 q a1 q o0 q a1 a1 a1 a1 q r0 q p2 q d0 q t q o0 q',
    '5,120000,{D};a2 a2 a2 a2 q o0 o0 o0 o0 q a1 q o0 q a1 a1 a1 a1 a1 q r0 r0 q p2 q d0 q t q d0 q t q',
    # three databases: two under-quota blocks share one free slot while the over-quota block is all lent
    '4,20,{D};a1 a1 a1 q o0 o0 o0 q a2 q o0 q r0 q w30 t t q a2 a2 a3 a3 q d0 q t q',
    '4,120000,{D};a1 a1 a1 q o0 o0 o0 q a2 q o0 q r0 q p1 q a2 a2 a3 a3 q d0 q t q',
]


def rand_schedule(rnd, maxlen, drain):
    mode = rnd.random()
    if mode < 0.45:
        ndb, maxc = rnd.randint(1, 2), rnd.randint(1, 4)
    elif mode < 0.9:
        ndb, maxc = rnd.randint(3, 6), rnd.randint(1, 3)
    else:
        ndb, maxc = rnd.randint(2, 4), rnd.randint(2, 4)
    faults = rnd.random() < 0.5
    malformed = rnd.random() < 0.15
    wts = {'a': 6, 'r': 4, 'R': 0.8, 'o': 5, 'd': 3, 't': 2, 'w': 1, 'p': 0.5, 'x': 8, 'q': 3}
    if faults:
        wts.update({'f': 1.2, 'F': 0.4, 'e': 0.5})
    if malformed:
        wts['b'] = 1.0
    if rnd.random() < 0.4:
        wts['c'] = 1.0
    ks = list(wts)
    ws = [wts[k] for k in ks]
    ops = []
    for _ in range(rnd.randint(5, maxlen)):
        k = rnd.choices(ks, ws)[0]
        if k in 'ap':
            ops.append(f'{k}{rnd.randint(1, ndb)}')
        elif k == 'w':
            ops.append(f'w{rnd.choice((1, 5, 10, 30, 200))}')
        elif k in 'tqx':
            ops.append(k)
        elif k == 'b':
            ops.append('b' + rnd.choice('ufd') + str(rnd.randint(0, 5)))
        else:
            ops.append(f'{k}{rnd.randint(0, 5)}')
    return f'{maxc},{rnd.choice((20, 50, 120000))},{drain};' + ' '.join(ops)


EX_ALPHABET = ('a1', 'a2', 'r0', 'R0', 'o0', 'd0', 't', 'q', 'x')


def exhaustive(depth, drain, maxc=2):
    """every sequence of `depth` abstract ops over 2 databases / capacity `maxc`"""
    for ops in itertools.product(EX_ALPHABET, repeat=depth):
        if ops[0] not in ('a1', 'a2'):       # anything before the first acquire is a no-op
            continue
        yield f'{maxc},50,{drain};' + ' '.join(ops)


def rebalance_family(rnd, drain):
    """pool full over two databases, k waiters on d1, j slots of d2 freed WITHOUT a hand-over
    (release to d2's own stack, then prune / GC closes the idle connection), then ticks: Mode C
    quota vectors that leave d1 two or more under quota while one slot is free"""
    m = rnd.choice((4, 4, 5, 6))
    k = rnd.randint(3, 7)
    j = rnd.randint(1, 2)
    via_gc = rnd.random() < 0.3
    ops = ['a2'] * (m - 1) + ['q'] + ['o0'] * (m - 1) + ['q', 'a1', 'q', 'o0', 'q'] + ['a1'] * k + ['q']
    tail = ['r0'] * j + ['q']
    if via_gc:
        tail += ['w30', 't', 't', 't', 'q'] + ['d0'] * j + ['q', 't', 'q']
    else:
        tail += ['p2', 'q'] + ['d0'] * (j - 1) + ['q', 'd0', 'q', 't', 'q']
    tail += rnd.choice((['o0', 'q', 't', 'q'], ['t', 'q'], ['d0', 'q', 't', 'q', 'o0', 'o0', 'q']))
    extra = ('t', 'q', 'x', 'a1', 'a2', 'r0', 'o0', 'd0', 'w5', 'c0')
    for _ in range(rnd.randint(0, 3)):
        tail.insert(rnd.randrange(len(tail) + 1), rnd.choice(extra))
    return f'{m},{20 if via_gc else 120000},{drain};' + ' '.join(ops + tail)


def rebalance3_family(rnd, drain):
    """three or more databases (added after seed C15/4): d1 holds most of the pool with `idle`
    connections released to its own stack, d2 holds the rest; GC / prune closes d1's idle
    connections; while those disconnects are in flight waiters arrive on d2, d3 (, d4); the
    disconnects complete (free room < combined shortfall of the under-quota blocks, d1 is over
    quota but cannot be shrunk because its connections are lent) and Mode C ticks rebalance"""
    m = rnd.choice((4, 4, 5, 6))
    nb = rnd.randint(1, 2) if m > 4 else 1
    na = m - nb
    idle = rnd.randint(1, min(2, na - 1))
    via_gc = rnd.random() < 0.5
    ops = ['a1'] * na + ['q'] + ['o0'] * na + ['q'] + ['a2'] * nb + ['q'] + ['o0'] * nb + ['q']
    ops += ['r0'] * idle + ['q']
    ops += (['w30', 't', 't', 'q'] if via_gc else ['p1', 'q'])
    waiters = ['a2'] * rnd.randint(1, 3) + ['a3'] * rnd.randint(1, 3) + ['a4'] * rnd.randint(0, 2)
    rnd.shuffle(waiters)
    tail = waiters + ['q'] + ['d0'] * idle + ['q', 't', 'q']
    tail += rnd.choice((['o0', 'q', 't', 'q'], ['t', 'q'], ['o0', 'o0', 'q', 'r0', 'q', 't', 'q']))
    extra = ('t', 'q', 'x', 'a1', 'a2', 'a3', 'r0', 'o0', 'd0', 'w5')
    for _ in range(rnd.randint(0, 2)):
        tail.insert(rnd.randrange(len(tail) + 1), rnd.choice(extra))
    return f'{m},{20 if via_gc else 120000},{drain};' + ' '.join(ops + tail)


RB_PREFIX = 'a2 a2 a2 q o0 o0 o0 q a1 q o0 q a1 a1 a1 a1 q'
RB_ALPHABET = ('r0', 'p2', 'd0', 't', 'q', 'a1', 'o0', 'x')


def rebalance_exhaustive(depth, drain):
    """every sequence of `depth` ops after the prefix that fills a 4-connection pool (3 on d2, 1 on d1)
    and queues 4 waiters on d1"""
    for ops in itertools.product(RB_ALPHABET, repeat=depth):
        yield f'4,120000,{drain};{RB_PREFIX} ' + ' '.join(ops)


def gen_cases(prop, tier, drain):
    rnd = lib.rng(prop)
    cases = list(corpus(prop))
    cases += [d.replace('{D}', str(drain)) for d in DIRECTED]
    if tier == 'quick':
        cases += list(exhaustive(4, drain))
        cases += list(rebalance_exhaustive(3, drain))
        cases += [rebalance_family(rnd, drain) for _ in range(300)]
        cases += [rebalance3_family(rnd, drain) for _ in range(300)]
        cases += [rand_schedule(rnd, 60, drain) for _ in range(2600)]
    else:
        cases += list(exhaustive(5, drain))
        cases += list(exhaustive(4, drain, maxc=1))
        cases += list(rebalance_exhaustive(4, drain))
        cases += [rebalance_family(rnd, drain) for _ in range(3000)]
        cases += [rebalance3_family(rnd, drain) for _ in range(3000)]
        cases += [rand_schedule(rnd, 60, drain) for _ in range(30000)]
        cases += [rand_schedule(rnd, 300, drain) for _ in range(6000)]
    return cases


# ---------------------------------------------------------------- running
def run_impl(lines):
    out = lib.parallel_lines([lib.PY, IMPL, lib.REPO], lines, env=lib.impl_env())
    return [json.loads(x) for x in out]


def build():
    return lib.build_model('c15', 'ExtractC15.v', 'c15_main.ml', 'C15_ext')


def first_diff(res, mline):
    md = mline.split('\t') if mline else []
    dg = res['dig']
    for k in range(len(dg)):
        if k >= len(md) or md[k] != dg[k]:
            return k
    return None if len(md) == len(dg) else len(dg)


def shrink(line, pred, budget=400):
    """delta debugging on the op list; pred(result_json) must stay true"""
    head, _, body = line.partition(';')
    ops = [o for o in body.split(' ') if o]
    n = 2
    runs = 0
    while ops and runs < budget:
        chunk = max(1, len(ops) // n)
        cands = [ops[:i] + ops[i + chunk:] for i in range(0, len(ops), chunk)]
        res = run_impl([head + ';' + ' '.join(c) for c in cands])
        runs += len(cands)
        for c, r in zip(cands, res):
            if c and pred(r):
                ops = c
                n = max(n - 1, 2)
                break
        else:
            if chunk == 1:
                break
            n = min(len(ops), n * 2)
    return head + ';' + ' '.join(ops)


# ---------------------------------------------------------------- Coq cross-check of the extraction
def coq_trace(trace):
    """concrete trace text -> Coq term  (max, list (event * oracle))"""
    mx, *evs = trace.split(';')
    dbn = lambda s: s[1:] + '%N'
    terms = []
    for ev in evs:
        if not ev:
            continue
        hd, *fields = ev.split('|')
        o = {'recent': '[]', 'avgnz': '[]', 'cq': '[]', 'capcrash': 'false', 'gcn': '[]'}
        for f in fields:
            k, _, v = f.partition('=')
            items = [x for x in v.split(',') if x]
            if k in ('recent', 'avgnz'):
                o[k] = '[' + '; '.join(dbn(x) for x in items) + ']'
            elif k == 'cq':
                o[k] = '[' + '; '.join(f'({dbn(x.split(":")[0])}, ({x.split(":")[1]})%Z)' for x in items) + ']'
            elif k == 'gcn':
                o[k] = '[' + '; '.join(f'({dbn(x.split(":")[0])}, {x.split(":")[1]}%nat)' for x in items) + ']'
            elif k == 'capcrash':
                o[k] = 'true'
        w = hd.split(' ')
        n = lambda x: x + '%N'
        if w[0] == 'A':
            e = f'EAcquire {n(w[1])} {dbn(w[2])}'
        elif w[0] == 'P':
            e = f'EPrune {n(w[1])} {dbn(w[2])}'
        elif w[0] == 'R':
            e = f'ERelease {dbn(w[1])} {n(w[2])} {"true" if w[3] == "1" else "false"}'
        elif w[0] == 'CO':
            e = f'EConnOk {n(w[1])}'
        elif w[0] == 'CF':
            e = f'EConnFail {n(w[1])} {"true" if w[2] == "1" else "false"}'
        elif w[0] == 'DO':
            e = f'EDiscOk {n(w[1])}'
        elif w[0] == 'DF':
            e = f'EDiscFail {n(w[1])}'
        elif w[0] == 'K':
            e = f'ECancel {n(w[1])}'
        else:
            e = {'T': 'ETick', 'G': 'EGc', 'X': 'ERun'}[w[0]]
        terms.append(f'({e}, mkOracle {o["recent"]} {o["avgnz"]} {o["cq"]} {o["capcrash"]} {o["gcn"]})')
    return mx, '[' + '; '.join(terms) + ']'


COQ_SUMMARY = ('match run (init ({mx})%Z) {evs} with Some s => '
               '[s.(cur); zlen s.(ready); zlen s.(blocks); '
               'fold_right (fun b a => (zlen b.(b_conns) + a)%Z) 0%Z s.(blocks); '
               'fold_right (fun b a => (zlen b.(b_stack) + a)%Z) 0%Z s.(blocks); '
               'fold_right (fun b a => (b.(b_pending) + b.(b_nwait) + b.(b_acq) + b.(b_quota) + a)%Z) 0%Z s.(blocks); '
               's.(gc_reqs); s.(nacq); if s.(err) then 1%Z else 0%Z] | None => [(-1)%Z] end')


def digest_summary(d):
    """the same summary computed from the last digest line of the extracted model"""
    if d == 'DISABLED':
        return [-1]
    f = d.split('|')
    head = [int(x) for x in f[0].split(',')]
    ready = [x for x in f[1].split(',') if x]
    blocks = [b for b in f[2].split('/') if b]
    nconns = nstack = cnt = 0
    for b in blocks:
        p = b.split(':')
        nconns += len(re.findall(r'[+-]', p[1]))
        nstack += len([x for x in p[2].split(',') if x])
        q = [int(x) for x in p[4].split(',')]
        cnt += q[0] + q[2] + q[1] + q[3]
    return [head[0], len(ready), len(blocks), nconns, nstack, cnt, head[3], head[5], 1 if len(f) > 6 and f[6] == 'ERR' else 0]


def coq_cross_check(traces, model_out, idx):
    exprs = []
    for i in idx:
        mx, evs = coq_trace(traces[i])
        exprs.append(COQ_SUMMARY.format(mx=mx, evs=evs))
    outs = lib.coq_eval('Pool', 'From Coq Require Import List ZArith NArith. Import ListNotations.\n'
                                'From Verif.Pool Require Import Model.', exprs, timeout=1200)
    bad = []
    for i, o in zip(idx, outs):
        got = [int(x) for x in re.findall(r'-?\d+', o.replace('%Z', ''))]
        last = model_out[i].split('\t')[-1] if model_out[i] else None
        want = digest_summary(last) if last is not None else None
        if want is not None and got != want:
            bad.append((i, got, want))
    return len(outs), bad


# ---------------------------------------------------------------- shared pipeline (C15 and C16)
def pipeline(prop, tier, drain, theorems):
    rep = lib.Report(prop, tier, 'proof')
    thorough = tier == 'thorough'
    pf = lib.proof_stage(rep, prop, theorems, thorough=thorough)
    bad_h = lib.hygiene(['Pool'])
    if bad_h:
        pf['ok'] = False
        pf['broken'] += ['hygiene: ' + b for b in bad_h]
    exe, blog = build()

    lines = gen_cases(prop, tier, drain)
    res = run_impl(lines)
    traces = [r.get('trace', '') for r in res]
    model = lib.run_model(exe, traces) if exe else None

    herr = [i for i, r in enumerate(res) if r.get('harness_error')]
    mism = []
    if model is not None:
        for i, (r, m) in enumerate(zip(res, model)):
            k = first_diff(r, m)
            if k is not None:
                mism.append((i, k))
    n_coq, coq_bad = 0, []
    if model is not None:
        rnd = lib.rng(prop + 'coq')
        cand = [i for i, t in enumerate(traces) if 0 < len(t) < 2500]
        idx = sorted(rnd.sample(cand, min(60 if not thorough else 300, len(cand))))
        try:
            n_coq, coq_bad = coq_cross_check(traces, model, idx)
        except RuntimeError as e:
            coq_bad = [(-1, str(e)[-800:], None)]
    return rep, pf, exe, blog, lines, res, traces, model, herr, mism, n_coq, coq_bad


def explain_mismatch(lines, res, model, i, k):
    evs = res[i]['trace'].split(';')[1:]
    md = model[i].split('\t') if model[i] else []
    return {'case': lines[i], 'event_index': k, 'event': evs[k] if k < len(evs) else None,
            'state_before': res[i]['dig'][k - 1] if k else 'init',
            'impl_state': res[i]['dig'][k] if k < len(res[i]['dig']) else None,
            'model_state': md[k] if k < len(md) else None}


def coverage(rep, prop, tier, lines, res, traces, model, mism, n_coq, extra):
    nontriv = set()
    dist = {'ndb': {}, 'modes': {}, 'events': {}, 'max': {}}
    nev = 0
    outs = {}
    rb_calls = rb_hit = rb_cases = ncancel = rb_share = 0
    for l, r in zip(lines, res):
        st = r.get('stats')
        if not st:
            continue
        rb = st.get('rebalance') or {}
        rb_calls += rb.get('calls', 0)
        rb_hit += rb.get('two_under_at_max_minus_1', 0)
        rb_share += rb.get('several_under_sharing_room', 0)
        rb_cases += 1 if rb.get('two_under_at_max_minus_1', 0) else 0
        ncancel += st.get('cancelled', 0)
        if (st['ndb'] >= 2 or st['cap']) and st['waiter']:
            nontriv.add(hashlib.sha1(r['trace'].encode()).hexdigest())
        dist['ndb'][st['ndb']] = dist['ndb'].get(st['ndb'], 0) + 1
        mx = l.split(',')[0]
        dist['max'][mx] = dist['max'].get(mx, 0) + 1
        for m in st['modes']:
            dist['modes'][m] = dist['modes'].get(m, 0) + 1
        for k, v in st['kinds'].items():
            k = k.split('|')[0]
            dist['events'][k] = dist['events'].get(k, 0) + v
        nev += len(r['dig'])
        for d in r['dig']:
            o = d.split('|')[5]
            for x in o.split(','):
                if x:
                    key = re.sub(r'[\d:]+.*$', '', x) if not x.startswith(('rerr', 'crash')) else x
                    outs[key] = outs.get(key, 0) + 1
    rep.coverage.update({
        'evaluations': len(lines),
        'events_compared': nev,
        'distinct_nontrivial': len(nontriv),
        'rule': 'schedules of abstract ops (acquire / release / release(discard) / connect ok|fail|3D000 / '
                'disconnect ok|fail / fire next timer / advance clock / prune / cancel a pending acquire / one ready callback / run to '
                'quiescence / malformed releases) over 1-6 databases, capacity 1-4, GC interval 20ms|50ms|120s: '
                f'directed scenarios, all sequences of {4 if tier == "quick" else 5} ops over a 9-op alphabet '
                '(2 dbs, capacity 2), all sequences of 3 (quick) / 4 (thorough) ops over an 8-op alphabet after a prefix '
                'that fills a 4-connection pool over two dbs with 4 queued waiters, a structured family around '
                '_maybe_rebalance with a block >= 2 under quota and one free slot, seeded random schedules (half '
                'fault-free, 15% with malformed releases, 40% with cancellations); '
                'non-trivial = (>= 2 databases or capacity reached at least once) and at least one waiter was '
                'queued; distinct = distinct concrete event trace (incl. oracle values)',
        'exhaustive': False,
        'exhaustive_subspaces': [f'all {4 if tier == "quick" else 5}-op sequences over {list(EX_ALPHABET)}, 2 dbs, capacity 2'],
        'samples': [lines[i] for i in (0, len(lines) // 3, len(lines) // 2, len(lines) - 1)],
        'traces_validated_against_impl': len(lines) if model is not None else 0,
        'model_vs_impl_disagreements': len(mism),
        'coq_vm_compute_cross_checked': n_coq,
        'maybe_rebalance_calls': rb_calls,
        'maybe_rebalance_calls_with_a_block_2_under_quota_at_max_minus_1': rb_hit,
        'maybe_rebalance_calls_with_several_under_quota_blocks_sharing_less_room': rb_share,
        'schedules_reaching_that_configuration': rb_cases,
        'acquire_tasks_cancelled': ncancel,
        'distributions': {'databases_per_schedule': dict(sorted(dist['ndb'].items())),
                          'max_capacity': dict(sorted(dist['max'].items())),
                          'tick_modes_reached': dist['modes'], 'concrete_events': dist['events'],
                          'observable_outputs': outs},
        'trusted_base': [
            'Coq 8.16.1 kernel (coqc; coqchk in the thorough tier); vm_compute only for the non-vacuity examples, '
            'the refutation witnesses and the cases.v cross-check',
            'extraction: ExtrOcamlBasic only, Z/N/positive/nat kept inductive; OCaml 4.13.1; ocaml/conv.ml + c15_main.ml '
            '(trace parser, state digest printer)',
            'harness/impl/c15_impl.py: deterministic event loop (FIFO ready queue, explicit timers, clock shim '
            'pool.time), fake backend + ghost truth, ready-queue labelling through Task/Handle introspection, '
            'oracle values read off the real pool (recent / avgnz / Mode C quotas / gc counts)',
            'modelled, not verified: CPython asyncio Task/Future/gather scheduling (one ready-queue entry per task '
            'step / wakeup / done-callback, FIFO), dict/OrderedDict/deque order semantics, a disconnect call that '
            'raises still closes the connection; float computations are abstracted (oracle), not approximated',
            'not modelled: Pool.prune_all_connections (HA failover), cancellation of a prune task, '
            'logging / snapshots / stats callback, _NaivePool, pool2',
        ],
    })
    rep.coverage.update(extra)


def run(tier):
    rep, pf, exe, blog, lines, res, traces, model, herr, mism, n_coq, coq_bad = pipeline(PROP, tier, 0, THEOREMS)
    known = {e['id']: e for e in lib.known_findings(PROP)}

    mon = [(i, m) for i, r in enumerate(res) for m in r.get('mon', []) if m[0] != 'L2']   # L2 belongs to C16
    mon += [(i, ['RUNAWAY', r['runaway']]) for i, r in enumerate(res) if r.get('runaway')]
    seen_kinds = set()
    for i, m in mon:
        kind = m[0]
        if kind in seen_kinds or len(seen_kinds) >= 3:
            continue
        seen_kinds.add(kind)
        small = shrink(lines[i], lambda r, k=kind: any(x[0] == k for x in r.get('mon', [])) or
                       (k == 'RUNAWAY' and r.get('runaway')), budget=120 if kind == 'RUNAWAY' else 400)
        rr = run_impl([small])[0]
        mm = [x for x in rr.get('mon', []) if x[0] == kind] or ([['RUNAWAY', rr.get('runaway')]] if rr.get('runaway') else [])
        rep.violation(f'monitor {kind} ({MONITORS.get(kind, kind)}) failed on the real Pool: '
                      f'{mm[0][1] if mm else m[1]}',
                      {'case': small, 'original_case': lines[i], 'monitor': kind,
                       'observed': mm[:3], 'trace': rr.get('trace'),
                       'how': f'echo CASE | PYTHONPATH={lib.REPO}:harness /venv/bin/python harness/impl/c15_impl.py {lib.REPO}'})
    if not mon:
        if herr:
            i = herr[0]
            rep.violation('the harness could not drive the real Pool: ' + res[i]['harness_error'][-600:],
                          {'broken': 'harness/impl/c15_impl.py vs edb/server/connpool/pool.py', 'case': lines[i]}, False)
        if model is None:
            rep.violation('model does not build: ' + blog[-1500:], {'broken': 'extraction of theories/Pool/Model.v'}, False)
        elif mism:
            i, k = min(mism, key=lambda t: len(lines[t[0]]))
            small = shrink(lines[i], lambda r: first_diff(r, lib.run_model(exe, [r.get('trace', '')])[0]) is not None, budget=200)
            rr = run_impl([small])
            mm = lib.run_model(exe, [rr[0]['trace']])
            kk = first_diff(rr[0], mm[0])
            rep.violation('correspondence broken: the real Pool and the Coq model disagree and no C15 monitor '
                          f'failed on {len(lines)} schedules ({len(mism)} disagreeing)',
                          dict(explain_mismatch([small], rr, mm, 0, kk if kk is not None else 0),
                               broken='correspondence Pool.Model.step vs edb.server.connpool.pool.Pool',
                               disagreements=len(mism)), False)
        if coq_bad:
            rep.violation('extracted model disagrees with vm_compute inside Coq',
                          {'broken': 'extraction', 'detail': str(coq_bad[0])[:1500]}, False)
        if not pf['ok']:
            rep.violation('proof obligations no longer check: ' + '; '.join(pf['broken'][:6]),
                          {'broken': pf['broken'], 'log_tail': pf['log'][-3000:]}, False)

    coverage(rep, PROP, tier, lines, res, traces, model, mism, n_coq,
             {'monitor_failures': len(mon), 'monitors': MONITORS,
              'harness_errors': len(herr)})
    rep.assumptions = [
        'asyncio runs ready callbacks FIFO, one Task step per entry (CPython 3.12 Task/Future/gather as observed)',
        'a disconnect callback that raises still leaves the backend connection closed',
        'callers release only connections they hold (malformed releases are rejected by release() and are part of '
        'the model); callers may cancel a pending acquire() at any time (prune tasks are never cancelled)',
        'Pool.prune_all_connections is never called (HA failover closes lent connections on purpose)',
        'max_capacity >= 0',
    ]
    return rep.finish()


def replay(path):
    d = json.load(open(path))
    case = d['replay'].get('case') or d['replay'].get('original_case')
    exe, _ = build()
    r = run_impl([case])[0]
    m = lib.run_model(exe, [r['trace']])[0].split('\t') if exe else []
    print('case :', case)
    print('trace:', r['trace'])
    for k, (e, dg) in enumerate(zip(r['trace'].split(';')[1:], r['dig'])):
        print(f'  {k:3} {e}')
        print(f'      impl : {dg}')
        if k < len(m) and m[k] != dg:
            print(f'      model: {m[k]}   <-- differs')
    print('monitors:', r.get('mon'))
    print('c16     :', r.get('c16'))
    return 0
